package props

import (
	"bytes"
	"errors"
	"fmt"
	"strings"
	"testing"
	"unsafe"

	gots "github.com/Comcast/gots/v2"
	"github.com/Comcast/gots/v2/packet"
	"github.com/Comcast/gots/v2/packet/adaptationfield"
	"pgregory.net/rapid"

	"verifharness/hx"
	"verifharness/ref"
)

// C03 — adaptation field under any edit history.
//
// Model: ref.Packet. Every successful call updates the logical value; the
// expected bytes are the reference serialisation. A PCR/OPCR/splice field that
// became present without receiving a value has no defined contents: its bytes
// are re-read from the packet into the model ("values set so far").

type OpC03 struct {
	Kind string  `json:"op"`
	B    bool    `json:"b,omitempty"`
	V    uint64  `json:"v,omitempty"`
	Data ref.Hex `json:"data,omitempty"`
	Src  ref.Hex `json:"src,omitempty"` // 188-byte source packet for copyAF
}

func (o OpC03) String() string {
	switch o.Kind {
	case "disc", "ra", "esp", "hasPCR", "hasOPCR", "hasSplice", "hasTPD", "hasExt":
		return fmt.Sprintf("%s(%v)", o.Kind, o.B)
	case "pcr", "opcr", "splice":
		return fmt.Sprintf("%s(%d)", o.Kind, o.V)
	case "tpd", "ext":
		return fmt.Sprintf("%s(%d bytes)", o.Kind, len(o.Data))
	case "tpdOwn", "extOwn":
		return fmt.Sprintf("%s(window %#x)", o.Kind, o.V)
	case "tpdStraddle", "extStraddle":
		return fmt.Sprintf("%s(from value byte %d to %d bytes behind the packet)", o.Kind, o.V&0xFF, 1+(o.V>>8)%40)
	}
	return o.Kind
}

type CaseC03 struct {
	Pkt ref.Hex `json:"pkt"`
	Ops []OpC03 `json:"ops"`
}

const c03MaxPCR = uint64(1)<<33*300 - 1

func genC03Op(t *rapid.T, a *ref.AF) OpC03 {
	afLen := a.Len
	kinds := []string{"disc", "ra", "esp", "hasPCR", "hasOPCR", "hasSplice", "hasTPD", "hasExt", "hasTPD", "hasExt", "pcr", "opcr", "splice", "tpd", "ext", "tpd", "ext", "copyAF", "copyOwnAF", "tpdOwn", "extOwn", "tpdStraddle", "extStraddle"}
	o := OpC03{Kind: rapid.SampledFrom(kinds).Draw(t, "op")}
	switch o.Kind {
	case "disc", "ra", "esp", "hasPCR", "hasOPCR", "hasSplice", "hasTPD", "hasExt":
		o.B = rapid.Bool().Draw(t, "b")
	case "pcr", "opcr":
		base := genBits(t, 33, "base")
		ext := rapid.Uint64Range(0, 299).Draw(t, "ext")
		o.V = base*300 + ext
	case "splice":
		o.V = uint64(rapid.Byte().Draw(t, "sc"))
	case "tpdOwn", "extOwn":
		// a window of the field's current value, as the function-style getter returns it (a sub-slice of the packet), handed back to the setter
		o.V = uint64(rapid.IntRange(0, 0x1FFFF).Draw(t, "own-window"))
	case "tpdStraddle", "extStraddle":
		// the packet is a view of a larger buffer and so is the argument: it starts inside the field's current value and ends
		// 1..40 bytes behind the packet
		o.V = uint64(rapid.IntRange(0, 0xFFFF).Draw(t, "straddle-window"))
	case "tpd", "ext":
		// room for this field's data given everything else currently in the model
		other := a.Content()
		if o.Kind == "tpd" && a.TPD != nil {
			other -= len(*a.TPD)
		}
		if o.Kind == "ext" && a.Ext != nil {
			other -= len(*a.Ext)
		}
		room := afLen - other
		var n int
		switch rapid.IntRange(0, 5).Draw(t, "dl-kind") {
		case 0:
			n = 0
		case 1:
			n = room // exactly fills
		case 2:
			n = room + 1 // one too many
		case 3:
			n = room - 1
		default:
			n = rapid.IntRange(0, afLen+2).Draw(t, "dl")
		}
		if n < 0 {
			n = 0
		}
		if n > 190 {
			n = 190
		}
		if rapid.IntRange(0, 11).Draw(t, "dl-huge") == 0 {
			// lengths that do not fit the one-byte length field
			n = rapid.SampledFrom([]int{255, 256, 257, 300, 511, 512, 513}).Draw(t, "dl-huge-n")
		}
		o.Data = genBytes(t, n, n, "data")
		if n == 0 {
			o.B = rapid.Bool().Draw(t, "as-nil")
		}
		if o.Kind == "tpd" && n >= 10 && rapid.IntRange(0, 3).Draw(t, "tpd-structured") == 0 {
			// private data that looks like a descriptor chain with an EBP descriptor in it: at the end (filling the rest), or
			// anywhere with further units behind it
			unit := func(d []byte) []byte {
				l := rapid.IntRange(0, 3).Draw(t, "chain-len")
				d = append(d, rapid.SampledFrom([]byte{0xA0, 0xA9, 0x05, 0xE9, 0xDF}).Draw(t, "chain-tag"), byte(l))
				return append(d, genBytes(t, l, l, "chain-body")...)
			}
			d := []byte{}
			for len(d)+4 < n-8 && rapid.Bool().Draw(t, "chain-more") {
				d = unit(d)
			}
			if rapid.Bool().Draw(t, "ebp-last") {
				d = append(d, rapid.SampledFrom([]byte{0xDF, 0xA9}).Draw(t, "ebp-tag"), byte(n-len(d)-2), 'E', 'B', 'P', '0')
				for len(d) < n {
					d = append(d, byte(len(d)))
				}
			} else {
				el := rapid.IntRange(4, 6).Draw(t, "ebp-len")
				d = append(d, rapid.SampledFrom([]byte{0xDF, 0xA9}).Draw(t, "ebp-tag"), byte(el), 'E', 'B', 'P', '0')
				for i := 4; i < el; i++ {
					d = append(d, byte(0x80+i))
				}
				d = unit(d)
				for len(d)+5 <= n && rapid.Bool().Draw(t, "chain-more-after") {
					d = unit(d)
				}
			}
			if len(d) <= n {
				o.Data = d
			}
		}
	case "copyAF":
		minAF := 1
		if rapid.IntRange(0, 11).Draw(t, "src-no-af") == 0 {
			b := genWellFormedPacket(t, []int{1}, 0).MustBytes()
			o.Src = clone(b[:])
			break
		}
		if rapid.IntRange(0, 5).Draw(t, "src-empty-af") == 0 {
			minAF = 0 // the source may carry an adaptation field of length 0 (no flags byte at all)
		}
		src := genWellFormedPacket(t, []int{2, 3}, minAF)
		if minAF == 0 {
			src = genWellFormedPacket(t, []int{3}, 0)
			src.AF = &ref.AF{Len: 0}
			src.Payload = genPayloadBytes(t, 183, "src-payload")
		}
		b := src.MustBytes()
		o.Src = clone(b[:])
	}
	return o
}

func genC03(t *rapid.T) CaseC03 {
	p := genWellFormedPacket(t, []int{2, 3, 3, 3}, 1)
	if p.AFC == 3 && p.AF.Len == 183 {
		p.AF.Len = 182
		p.Payload = ref.Hex{0x00}
		if p.AF.Content() > 182 {
			p.AF.Ext, p.AF.TPD = nil, nil
		}
	}
	b := p.MustBytes()
	c := CaseC03{Pkt: clone(b[:])}
	n := rapid.IntRange(1, 60).Draw(t, "steps")
	// the generator follows the reference model (not the library) so that lengths
	// can be aimed at "exactly fits" / "one too many" for the state reached
	cur := p.AF.Clone()
	for i := 0; i < n; i++ {
		// a per-step "keep" draw lets the shrinker delete any single step (it minimises towards false)
		if !rapid.Bool().Draw(t, "keep") && (i > 0 || n > 1) {
			continue
		}
		o := genC03Op(t, cur)
		c.Ops = append(c.Ops, o)
		if na, wantErr, _, _ := c03Apply(cur, o); !wantErr {
			cur = na
		}
	}
	return c
}

// c03Model carries the logical value and which fixed-size fields are still undefined.
type c03Model struct {
	m *ref.Packet
}

func c03Fits(a *ref.AF) bool { return a.Content() <= a.Len }

// c03Apply computes the expected outcome of op on model a (a copy is edited).
// It returns the new logical field, whether an error is expected, and which
// fixed field (if any) became present without a defined value.
// c03Window maps a drawn value to a window [lo,hi) of a value of n bytes.
func c03Window(v uint64, n int) (int, int) {
	lo := int(v&0xFF) % (n + 1)
	hi := lo + int(v>>8&0xFF)%(n-lo+1)
	return lo, hi
}

// c03ArenaTail: bytes of the caller's buffer behind the packet under test.
const c03ArenaTail = 64

// c03FieldStart is the offset in the packet of the first value byte of the private data (or of the extension) and the
// value's length, by the model; -1 when the field is absent.
func c03FieldStart(a *ref.AF, ext bool) (int, int) {
	if a == nil || a.Len == 0 {
		return -1, 0
	}
	s := 6
	if a.PCR != nil {
		s += 6
	}
	if a.OPCR != nil {
		s += 6
	}
	if a.Splice != nil {
		s++
	}
	if !ext {
		if a.TPD == nil {
			return -1, 0
		}
		return s + 1, len(*a.TPD)
	}
	if a.Ext == nil {
		return -1, 0
	}
	if a.TPD != nil {
		s += 1 + len(*a.TPD)
	}
	return s + 1, len(*a.Ext)
}

// c03SourceEmpty reports whether the source packet of a copyAF op has adaptation_field_length 0.
func c03SourceEmpty(o OpC03) bool { return len(o.Src) == 188 && o.Src[3]&0x20 != 0 && o.Src[4] == 0 }

var errC03ArgWritten = errors.New("harness: the setter wrote to the caller's data slice or to the memory behind it")

func c03Apply(a *ref.AF, o OpC03) (na *ref.AF, wantErr bool, undefined string, sizeChange bool) {
	na = a.Clone()
	switch o.Kind {
	case "disc":
		na.Disc = o.B
	case "ra":
		na.RA = o.B
	case "esp":
		na.ESP = o.B
	case "hasPCR":
		if o.B && na.PCR == nil {
			na.PCR = hexp(make([]byte, 6))
			undefined = "pcr"
			sizeChange = true
		} else if !o.B && na.PCR != nil {
			na.PCR = nil
			sizeChange = true
		}
	case "hasOPCR":
		if o.B && na.OPCR == nil {
			na.OPCR = hexp(make([]byte, 6))
			undefined = "opcr"
			sizeChange = true
		} else if !o.B && na.OPCR != nil {
			na.OPCR = nil
			sizeChange = true
		}
	case "hasSplice":
		if o.B && na.Splice == nil {
			s := byte(0)
			na.Splice = &s
			undefined = "splice"
			sizeChange = true
		} else if !o.B && na.Splice != nil {
			na.Splice = nil
			sizeChange = true
		}
	case "hasTPD":
		if o.B && na.TPD == nil {
			na.TPD = hexp(nil)
			sizeChange = true
		} else if !o.B && na.TPD != nil {
			na.TPD = nil
			sizeChange = true
		}
	case "hasExt":
		if o.B && na.Ext == nil {
			na.Ext = hexp(nil)
			sizeChange = true
		} else if !o.B && na.Ext != nil {
			na.Ext = nil
			sizeChange = true
		}
	case "pcr":
		if na.PCR == nil {
			return a, true, "", false
		}
		e := ref.EncodePCR(o.V/300, uint16(o.V%300))
		na.PCR = hexp(e[:])
	case "opcr":
		if na.OPCR == nil {
			return a, true, "", false
		}
		e := ref.EncodePCR(o.V/300, uint16(o.V%300))
		na.OPCR = hexp(e[:])
	case "splice":
		if na.Splice == nil {
			return a, true, "", false
		}
		s := byte(o.V)
		na.Splice = &s
	case "tpd":
		if na.TPD == nil {
			return a, true, "", false
		}
		sizeChange = len(*na.TPD) != len(o.Data)
		na.TPD = hexp(o.Data)
	case "ext":
		if na.Ext == nil {
			return a, true, "", false
		}
		sizeChange = len(*na.Ext) != len(o.Data)
		na.Ext = hexp(o.Data)
	case "copyAF":
		var sb [188]byte
		copy(sb[:], o.Src)
		sp, ok := ref.ParsePacket(sb)
		if !ok {
			panic("harness: copyAF source must be a well-formed packet")
		}
		if sp.AF == nil {
			// the source packet has no adaptation field: AdaptationField() yields (nil, error), and copying "nothing" cannot be honoured
			return a, true, "", false
		}
		if sp.AF.Len == 0 {
			// an empty field has no flags and no optional fields: copying it leaves none set (a refusal is accepted as well, see checkC03)
			sizeChange = a.Content() != 1
			na = &ref.AF{Len: a.Len}
			break
		}
		src := sp.AF.Clone()
		src.Len = a.Len
		sizeChange = src.Content() != a.Content()
		na = src
	case "tpdOwn", "extOwn":
		cur := na.TPD
		if o.Kind == "extOwn" {
			cur = na.Ext
		}
		if cur == nil {
			return a, false, "", false // nothing to hand back: the call is not made
		}
		lo, hi := c03Window(o.V, len(*cur))
		data := clone((*cur)[lo:hi])
		sizeChange = len(*cur) != len(data)
		if o.Kind == "tpdOwn" {
			na.TPD = hexp(data)
		} else {
			na.Ext = hexp(data)
		}
	case "copyOwnAF":
		// the packet's own adaptation field handed back to it: every logical value stays what it is
	case "tpdStraddle", "extStraddle":
		// only the generator's running model comes here (the value depends on the packet's bytes, which the oracle reads
		// off the packet and hands on as a "tpd" / "ext" step): it loses track of the value, which only affects its aim
		return a, true, "", false
	default:
		panic("harness: unknown op " + o.Kind)
	}
	if !c03Fits(na) {
		return a, true, "", false
	}
	return na, false, undefined, sizeChange
}

func c03Call(p *packet.Packet, o OpC03, model *ref.AF) error {
	af, err := p.AdaptationField()
	if err != nil {
		return err
	}
	switch o.Kind {
	case "disc":
		return af.SetDiscontinuity(o.B)
	case "ra":
		return af.SetRandomAccess(o.B)
	case "esp":
		return af.SetElementaryStreamPriority(o.B)
	case "hasPCR":
		return af.SetHasPCR(o.B)
	case "hasOPCR":
		return af.SetHasOPCR(o.B)
	case "hasSplice":
		return af.SetHasSplicingPoint(o.B)
	case "hasTPD":
		return af.SetHasTransportPrivateData(o.B)
	case "hasExt":
		return af.SetHasAdaptationFieldExtension(o.B)
	case "pcr":
		return af.SetPCR(o.V)
	case "opcr":
		return af.SetOPCR(o.V)
	case "splice":
		return af.SetSpliceCountdown(byte(o.V))
	case "tpd", "ext":
		// the data sits in a caller buffer with live bytes behind it; the setter may read it and nothing else
		in, spareIntact := withSpare(o.Data)
		if len(o.Data) == 0 && o.B {
			in = nil // zero bytes handed over as nil instead of an empty slice: the same request
		}
		var err error
		if o.Kind == "tpd" {
			err = af.SetTransportPrivateData(in)
		} else {
			err = af.SetAdaptationFieldExtension(in)
		}
		if !bytes.Equal(in, o.Data) || !spareIntact() {
			return errC03ArgWritten
		}
		return err
	case "tpdOwn", "extOwn":
		var cur []byte
		var gerr error
		if o.Kind == "tpdOwn" {
			cur, gerr = adaptationfield.TransportPrivateData(p)
		} else {
			// only the method API reads the extension. On this tree its result starts with the length byte (known
			// finding D-AF4); a tree without that defect returns the value itself. The model knows how long the value is.
			cur, gerr = af.AdaptationFieldExtension()
			if gerr == nil && model != nil && model.Ext != nil && len(cur) == len(*model.Ext)+1 {
				cur = cur[1:]
			}
		}
		if gerr != nil {
			return nil // field absent: the model makes no call either
		}
		lo, hi := c03Window(o.V, len(cur))
		win := cur[lo:hi]
		if o.V&0x10000 != 0 {
			win = cur[lo:hi:hi] // the same window with its capacity clipped (slices.Clip)
		}
		if o.Kind == "tpdOwn" {
			return af.SetTransportPrivateData(win)
		}
		return af.SetAdaptationFieldExtension(win)
	case "tpdStraddle", "extStraddle":
		start, n := c03FieldStart(model, o.Kind == "extStraddle")
		if start < 0 {
			return nil // field absent: the model makes no call either
		}
		arena := unsafe.Slice((*byte)(unsafe.Pointer(p)), 188+c03ArenaTail) // checkC03 keeps the packet at the start of such a buffer
		arg := arena[start+int(o.V&0xFF)%(n+1) : 188+1+int(o.V>>8)%40]
		if o.Kind == "tpdStraddle" {
			return af.SetTransportPrivateData(arg)
		}
		return af.SetAdaptationFieldExtension(arg)
	case "copyOwnAF":
		own, err := p.AdaptationField()
		if err != nil {
			return err
		}
		return p.SetAdaptationField(own)
	case "copyAF":
		var sp packet.Packet
		copy(sp[:], o.Src)
		saf, err := sp.AdaptationField()
		if err != nil && saf != nil {
			return err
		}
		// (a source without adaptation field yields a nil *AdaptationField, which is handed on as it is)
		keep := sp
		err = p.SetAdaptationField(saf)
		if sp != keep {
			return fmt.Errorf("harness-observed: SetAdaptationField modified its source")
		}
		return err
	}
	panic("harness: unknown op " + o.Kind)
}

// c03Getters compares every getter of both APIs with the model.
func c03Getters(p *packet.Packet, m *ref.Packet, tol bool, saw *bool) *hx.Failure {
	a := m.AF
	af, err := p.AdaptationField()
	if err != nil {
		return hx.Failf("getter-af", "AdaptationField() failed: %v", err)
	}
	keep := *p
	defer func() { *p = keep }()
	if af.Length() != a.Len || int(adaptationfield.Length(p)) != a.Len {
		return hx.Failf("getter-length", "Length method=%d func=%d want %d", af.Length(), adaptationfield.Length(p), a.Len)
	}
	type bg struct {
		name string
		m    func() (bool, error)
		f    func(*packet.Packet) bool
		want bool
	}
	for _, g := range []bg{
		{"discontinuity", af.Discontinuity, adaptationfield.IsDiscontinuous, a.Disc},
		{"random-access", af.RandomAccess, adaptationfield.IsRandomAccess, a.RA},
		{"es-priority", af.ElementaryStreamPriority, adaptationfield.IsESHigherPriority, a.ESP},
		{"has-pcr", af.HasPCR, adaptationfield.HasPCR, a.PCR != nil},
		{"has-opcr", af.HasOPCR, adaptationfield.HasOPCR, a.OPCR != nil},
		{"has-splice", af.HasSplicingPoint, adaptationfield.HasSplicingPoint, a.Splice != nil},
		{"has-tpd", af.HasTransportPrivateData, adaptationfield.HasTransportPrivateData, a.TPD != nil},
		{"has-ext", af.HasAdaptationFieldExtension, adaptationfield.HasAdaptationFieldExtension, a.Ext != nil},
	} {
		v, err := g.m()
		if err != nil || v != g.want || g.f(p) != g.want {
			return hx.Failf("getter-"+g.name, "%s: method=(%v,%v) func=%v want %v", g.name, v, err, g.f(p), g.want)
		}
	}
	// PCR / OPCR
	type pg struct {
		name string
		m    func() (uint64, error)
		f    func(*packet.Packet) ([]byte, error)
		h    *ref.Hex
	}
	for _, g := range []pg{{"pcr", af.PCR, adaptationfield.PCR, a.PCR}, {"opcr", af.OPCR, adaptationfield.OPCR, a.OPCR}} {
		v, err := g.m()
		fb, ferr := g.f(p)
		if g.h == nil {
			if err == nil || ferr == nil {
				return hx.Failf("getter-"+g.name+"-absent", "%s absent: method err=%v func err=%v, want errors", g.name, err, ferr)
			}
			continue
		}
		base, ext := ref.DecodePCR(*g.h)
		want := base*300 + uint64(ext)
		// a field that became present without a value holds whatever bytes were there: an extension above 299 is no clock
		// value (what the getter reports for it is not stated), and the six reserved bits are not value bits
		if ext <= 299 && (err != nil || v != want) {
			return hx.Failf("getter-"+g.name, "%s method = (%d, %v), want %d", g.name, v, err, want)
		}
		sameValueBits := len(fb) == 6 && len(*g.h) == 6 && bytes.Equal(fb[:4], (*g.h)[:4]) && fb[4]|0x7E == (*g.h)[4]|0x7E && fb[5] == (*g.h)[5]
		if ferr != nil || !sameValueBits {
			return hx.Failf("getter-"+g.name+"-func", "adaptationfield.%s = (%x, %v), want %x", g.name, fb, ferr, []byte(*g.h))
		}
	}
	// splice countdown
	sv, serr := af.SpliceCountdown()
	fv, ferr := adaptationfield.SpliceCountdown(p)
	if a.Splice == nil {
		if serr == nil || ferr == nil {
			return hx.Failf("getter-splice-absent", "splice countdown absent: method err=%v func err=%v, want errors", serr, ferr)
		}
	} else {
		// splice_countdown is a signed 8-bit field: the int-returning getter may report 200 or -56 for the byte 0xC8
		if serr != nil || (sv != int(int8(*a.Splice)) && sv != int(*a.Splice)) {
			return hx.Failf("getter-splice", "SpliceCountdown() = (%d, %v), want %d (or %d)", sv, serr, int(int8(*a.Splice)), *a.Splice)
		}
		if ferr != nil || fv != *a.Splice {
			return hx.Failf("getter-splice-func", "adaptationfield.SpliceCountdown = (%d, %v), want %d", fv, ferr, *a.Splice)
		}
	}
	// transport private data
	tv, terr := af.TransportPrivateData()
	ftv, fterr := adaptationfield.TransportPrivateData(p)
	ebp, eerr := adaptationfield.EncoderBoundaryPoint(p)
	if a.TPD == nil {
		if terr == nil || fterr == nil || eerr == nil {
			return hx.Failf("getter-tpd-absent", "private data absent: method err=%v func err=%v ebp err=%v, want errors", terr, fterr, eerr)
		}
	} else {
		if fterr != nil || !bytes.Equal(ftv, *a.TPD) {
			return hx.Failf("getter-tpd-func", "adaptationfield.TransportPrivateData = (%x, %v), want %x", ftv, fterr, []byte(*a.TPD))
		}
		// the boundary point is "present" when the private data carries one: for private data that does not start with an EBP
		// tag (0xDF CableLabs, 0xA9 Comcast), or is not one complete descriptor, the accessor may hand out the private data as it is or report the EBP as absent
		ebpShaped := c03EBPShaped(*a.TPD)
		if eerr != nil && !ebpShaped {
			// absent
		} else if eerr != nil || !bytes.Equal(ebp, *a.TPD) {
			return hx.Failf("getter-ebp-func", "adaptationfield.EncoderBoundaryPoint = (%x, %v), want %x", ebp, eerr, []byte(*a.TPD))
		}
		if terr != nil || !bytes.Equal(tv, *a.TPD) {
			if terr == nil && len(tv) == len(*a.TPD)+1 && int(tv[0]) == len(*a.TPD) && bytes.Equal(tv[1:], *a.TPD) {
				if tol {
					*saw = true
					goto ext
				}
				return hx.Failf("af-method-getter-length-prefixed", "AdaptationField.TransportPrivateData() = %x: the value %x prefixed with its length byte", tv, []byte(*a.TPD))
			}
			return hx.Failf("getter-tpd", "TransportPrivateData() = (%x, %v), want %x", tv, terr, []byte(*a.TPD))
		}
	}
ext:
	ev, eerr2 := af.AdaptationFieldExtension()
	if a.Ext == nil {
		if eerr2 == nil {
			return hx.Failf("getter-ext-absent", "extension absent but AdaptationFieldExtension() returned no error")
		}
	} else if eerr2 != nil || !bytes.Equal(ev, *a.Ext) {
		if eerr2 == nil && len(ev) == len(*a.Ext)+1 && int(ev[0]) == len(*a.Ext) && bytes.Equal(ev[1:], *a.Ext) {
			if tol {
				*saw = true
				goto done
			}
			return hx.Failf("af-method-getter-length-prefixed", "AdaptationField.AdaptationFieldExtension() = %x: the value %x prefixed with its length byte", ev, []byte(*a.Ext))
		}
		return hx.Failf("getter-ext", "AdaptationFieldExtension() = (%x, %v), want %x", ev, eerr2, []byte(*a.Ext))
	}
done:
	if *p != keep {
		return hx.Failf("getter-mutates", "a getter modified the packet")
	}
	return nil
}

func checkC03(c CaseC03, x *hx.Ctx) *hx.Failure {
	if len(c.Pkt) != 188 {
		return hx.Failf("bad-case", "packet must be 188 bytes")
	}
	var b [188]byte
	copy(b[:], c.Pkt)
	m, ok := ref.ParsePacket(b)
	if !ok || m.AF == nil || m.AF.Len == 0 {
		return hx.Failf("bad-case", "case packet must be well-formed with a non-empty adaptation field")
	}
	// the packet under test is a view of a larger buffer of the caller's
	arena := make([]byte, 188+c03ArenaTail)
	for i := 188; i < len(arena); i++ {
		arena[i] = byte(0x5A + i)
	}
	tailKeep := clone(arena[188:])
	pp := (*packet.Packet)(arena[:188])
	*pp = packet.Packet(b)
	p := pp
	// a second packet with an adaptation field of its own (PCR + private data), and a live AdaptationField
	// object for it, sit next to the packet under test: nothing done to one packet may show in another
	byModel := &ref.Packet{Sync: 0x47, PID: 0x0234, AFC: 3, CC: 5, AF: &ref.AF{Len: 40, RA: true, PCR: hexp([]byte{0x12, 0x34, 0x56, 0x78, 0x7E, 0x11}), TPD: hexp([]byte("bystander"))}, Payload: bytes.Repeat([]byte{0xBB}, 143)}
	byBytes := byModel.MustBytes()
	by := packet.Packet(byBytes)
	byAF, byErr := by.AdaptationField()
	if byErr != nil {
		return hx.Failf("bystander", "AdaptationField() failed on a well-formed packet: %v", byErr)
	}
	var hist []string
	var nSize, nRefused, nRemoveNonEmpty, nRepeat, nExact, nCopy int
	knownGetter := false
	_, tol := hx.IsKnown("C03", "af-method-getter-length-prefixed")
	// clock fields that are present but never received a value (they became present by a presence toggle): their bytes
	// are not a value anybody set, and an implementation may rewrite them whenever it re-encodes the field
	unsetClock := map[string]bool{}
	for i, o := range c.Ops {
		hist = append(hist, o.String())
		before := *pp
		mo := o // the step as the model sees it
		if o.Kind == "tpdStraddle" || o.Kind == "extStraddle" {
			start, n := c03FieldStart(m.AF, o.Kind == "extStraddle")
			if start < 0 {
				continue
			}
			// the argument's value is what the buffer holds when the call is made
			mo.Kind, mo.Data = strings.TrimSuffix(o.Kind, "Straddle"), clone(arena[start+int(o.V&0xFF)%(n+1):188+1+int(o.V>>8)%40])
		}
		na, wantErr, undefined, sizeChange := c03Apply(m.AF, mo)
		// classification for labels
		switch o.Kind {
		case "hasPCR", "hasOPCR", "hasSplice", "hasTPD", "hasExt":
			if !sizeChange && !wantErr {
				nRepeat++
			}
		}
		if !o.B && ((o.Kind == "hasTPD" && m.AF.TPD != nil && len(*m.AF.TPD) > 0) || (o.Kind == "hasExt" && m.AF.Ext != nil && len(*m.AF.Ext) > 0)) {
			nRemoveNonEmpty++
		}
		err := c03Call(pp, o, m.AF)
		if !bytes.Equal(arena[188:], tailKeep) {
			return hx.Failf("writes-behind-packet", "step %d %s: the call wrote to the caller's buffer behind the packet", i, o)
		}
		where := fmt.Sprintf("step %d %s after %v (af_len %d, content before %d)", i, o, hist[:i], m.AF.Len, m.AF.Content())
		if by != packet.Packet(byBytes) {
			return hx.Failf("bystander-packet-changed", "%s: another packet (with its own adaptation field) changed", where)
		}
		if v, perr := byAF.PCR(); perr != nil || v != gots.ExtractPCR([]byte{0x12, 0x34, 0x56, 0x78, 0x7E, 0x11}) {
			return hx.Failf("bystander-getter", "%s: PCR() of another packet's adaptation field is (%d, %v)", where, v, perr)
		}
		if err != nil && len(err.Error()) > 16 && err.Error()[:16] == "harness-observed" {
			return hx.Failf("copyaf-mutates-source", "%s: %v", where, err)
		}
		if o.Kind == "copyAF" && !wantErr && c03SourceEmpty(o) && (err != nil || *p == before) {
			// copying an EMPTY adaptation field (no flags byte at all): "nothing is set afterwards" is one reading,
			// a refusal or leaving the destination as it is are others - as long as nothing else changes
			if *p != before {
				return hx.Failf("error-changes-packet-copyAF", "%s: copying an empty adaptation field returned error %q but changed the packet", where, err)
			}
			nRefused++
			continue
		}
		if err == errC03ArgWritten {
			return hx.Failf("setter-writes-caller-data", "%s: %v", where, err)
		}
		if wantErr {
			nRefused++
			if err == nil {
				return hx.Failf("no-error-"+o.Kind, "%s: the call cannot be honoured (absent field or content would exceed af_len) but returned no error\n before %x\n after  %x", where, before[:], p[:])
			}
			if *p != before {
				return hx.Failf("error-changes-packet-"+o.Kind, "%s: returned error %q but changed the packet\n before %x\n after  %x", where, err, before[:], p[:])
			}
			continue
		}
		if err != nil {
			return hx.Failf("spurious-error-"+o.Kind, "%s: result fits (content after %d <= af_len %d) but the call failed: %v", where, na.Content(), na.Len, err)
		}
		if sizeChange {
			nSize++
		}
		if na.Content() == na.Len && sizeChange {
			nExact++
		}
		if o.Kind == "copyAF" {
			nCopy++
		}
		m.AF = na
		// a fixed-size field that became present has undefined contents: take them from the packet
		if undefined != "" {
			eb := m.MustBytes()
			off := 6
			switch undefined {
			case "pcr":
				m.AF.PCR = hexp(p[off : off+6])
			case "opcr":
				if m.AF.PCR != nil {
					off += 6
				}
				m.AF.OPCR = hexp(p[off : off+6])
			case "splice":
				if m.AF.PCR != nil {
					off += 6
				}
				if m.AF.OPCR != nil {
					off += 6
				}
				s := p[off]
				m.AF.Splice = &s
			}
			_ = eb
		}
		// a clock field that never received a value may hold bytes that are no clock value at all (extension above 299, what
		// stuffing leaves behind) or have its reserved bits cleared: its contents stay undefined, and an implementation that
		// re-encodes fields (when copying an adaptation field, say) may normalise them at any time - take them from the packet again
		if err == nil {
			switch o.Kind {
			case "hasPCR":
				unsetClock["pcr"] = undefined == "pcr" || (o.B && unsetClock["pcr"])
			case "hasOPCR":
				unsetClock["opcr"] = undefined == "opcr" || (o.B && unsetClock["opcr"])
			case "pcr":
				unsetClock["pcr"] = false
			case "opcr":
				unsetClock["opcr"] = false
			case "copyAF":
				unsetClock["pcr"], unsetClock["opcr"] = false, false // generated sources carry real clock values
			}
		}
		if m.AF != nil {
			off := 6
			for k, h := range []*ref.Hex{m.AF.PCR, m.AF.OPCR} {
				if h == nil {
					continue
				}
				if _, ext := ref.DecodePCR(*h); (ext > 299 || unsetClock[[]string{"pcr", "opcr"}[k]]) && off+6 <= 5+m.AF.Len {
					copy(*h, p[off:off+6])
				}
				off += 6
			}
		}
		eb := m.MustBytes()
		if [188]byte(*p) != eb {
			j := 0
			for p[j] == eb[j] {
				j++
			}
			part := "adaptation field"
			if j < 4 {
				part = "transport header"
			} else if j == 4 {
				part = "adaptation_field_length"
			} else if j >= 5+m.AF.Len {
				part = "payload"
			}
			return hx.Failf("bytes-"+o.Kind, "%s: packet differs from the ISO serialisation of the values set so far at byte %d (%s): got %02x want %02x\n before %x\n got    %x\n want   %x", where, j, part, p[j], eb[j], before[:], p[:], eb[:])
		}
		if f := c03Getters(p, m, tol, &knownGetter); f != nil {
			f.Msg = where + ": " + f.Msg
			return f
		}
	}
	x.NT(nSize >= 1 && (nRefused+nRemoveNonEmpty+nRepeat+nExact+nCopy) >= 1)
	x.LabelIf(nRefused > 0, "has-refused-call")
	x.LabelIf(nRemoveNonEmpty > 0, "removes-nonempty-variable-field")
	x.LabelIf(nRepeat > 0, "repeated-toggle")
	x.LabelIf(nExact > 0, "fills-exactly-af_len")
	x.LabelIf(nCopy > 0, "successful-copyAF")
	x.LabelIf(nSize > 0, "size-changing-success")
	x.LabelIf(m.AFC == 2, "af-only-packet")
	if knownGetter {
		return hx.Failf("af-method-getter-length-prefixed", "AdaptationField.TransportPrivateData()/AdaptationFieldExtension() return the value prefixed with its length byte (history %v)", hist)
	}
	return nil
}

var propC03 = hx.Register(hx.Prop[CaseC03]{ID: "C03", Gen: genC03, Check: checkC03})

func c03Rule() {
	hx.Rec("C03").SetRule("cases: a well-formed packet with a non-empty adaptation field (af_len 1..182 next to a payload, 183 alone; af_len biased to 1,2,7,8,13,14,20,181,182; any fitting subset of optional fields) + a history of up to 60 (on average 15) setter calls (three flag setters, five presence toggles in both polarities incl. repeats, SetPCR/SetOPCR with any value < 2^33*300, SetSpliceCountdown, SetTransportPrivateData/SetAdaptationFieldExtension with lengths biased to 0, exactly-fits and one-too-many, SetAdaptationField from another generated packet or with the packet's own adaptation field; private data / extension set to a window of their own current value as the function-style getter returns it). After every step all 188 bytes are compared with the reference serialisation of the model and every getter of both APIs with the model; refused calls must leave the packet byte-identical; calls that fit must succeed. Enumerated: all toggle histories of length <= 3 from 8 af_len values x 32 initial flag subsets. Non-trivial: >= 1 size-changing success and >= 1 of {refused call, removal of a non-empty variable field, repeated toggle, fill to exactly af_len, successful copy of a whole field}.",
		"only the non-nil-ness of errors is asserted, not which sentinel",
		"adaptation-field-only packets have af_len 183; the source of SetAdaptationField is a well-formed packet with an adaptation field (possibly of length 0: then nothing is set afterwards, or the destination is left as it is, with or without an error)",
		"a PCR/OPCR/splice field that became present without receiving a value has no defined contents (re-read from the packet)")
}

func TestC03(t *testing.T) {
	c03Rule()
	replayRegress(t, "C03")
	propC03.Run(t)
}

// TestC03Exhaustive: all histories of <= 3 presence toggles (10 toggles) from
// 8 af_len values x 32 initial subsets of the optional fields (skipping those that do not fit).
func TestC03Exhaustive(t *testing.T) {
	c03Rule()
	toggles := []OpC03{}
	for _, k := range []string{"hasPCR", "hasOPCR", "hasSplice", "hasTPD", "hasExt"} {
		toggles = append(toggles, OpC03{Kind: k, B: true}, OpC03{Kind: k, B: false})
	}
	afLens := []int{1, 2, 7, 8, 14, 20, 182, 183}
	shard, nsh := hx.ShardIndex(), hx.NShards()
	idx := 0
	for _, l := range afLens {
		for subset := 0; subset < 32; subset++ {
			m := &ref.Packet{Sync: 0x47, PID: 0x100, CC: 5, AFC: 3, AF: &ref.AF{Len: l, RA: true}}
			if l == 183 {
				m.AFC = 2
				m.Payload = ref.Hex{}
			} else {
				m.Payload = bytes.Repeat([]byte{0x3C}, 183-l)
			}
			a := m.AF
			if subset&16 != 0 {
				a.PCR = hexp([]byte{0x11, 0x22, 0x33, 0x44, 0xfe, 0x66})
			}
			if subset&8 != 0 {
				a.OPCR = hexp([]byte{0xa1, 0xa2, 0xa3, 0xa4, 0x7e, 0xa6})
			}
			if subset&4 != 0 {
				s := byte(0x9c)
				a.Splice = &s
			}
			if subset&2 != 0 {
				a.TPD = hexp([]byte{0xd1, 0xd2})
			}
			if subset&1 != 0 {
				a.Ext = hexp([]byte{0xe1})
			}
			if a.Content() > a.Len {
				// shrink variable fields, then give up
				if a.TPD != nil {
					a.TPD = hexp(nil)
				}
				if a.Ext != nil {
					a.Ext = hexp(nil)
				}
				if a.Content() > a.Len {
					continue
				}
			}
			b := m.MustBytes()
			for n := 1; n <= 3; n++ {
				total := 1
				for i := 0; i < n; i++ {
					total *= len(toggles)
				}
				for code := 0; code < total; code++ {
					idx++
					if idx%nsh != shard {
						continue
					}
					ops := make([]OpC03, n)
					cc := code
					for i := 0; i < n; i++ {
						ops[i] = toggles[cc%len(toggles)]
						cc /= len(toggles)
					}
					c := CaseC03{Pkt: clone(b[:]), Ops: ops}
					if f := propC03.EvalFast(c, hx.HashInts(uint64(l), uint64(subset), uint64(n), uint64(code))); f != nil {
						t.Fatalf("VIOLATION-CANDIDATE property=C03 key=%s: %s", f.Key, f.Msg)
					}
				}
			}
		}
	}
	hx.Rec("C03").Subspace("all presence-toggle histories of length 1..3 over the 10 toggles from af_len in {1,2,7,8,14,20,182,183} x 32 initial optional-field subsets")
}

func FuzzC03(f *testing.F) {
	c03Rule()
	f.Fuzz(propC03.Fuzz())
}

// c03EBPShaped: the private data is exactly one complete, non-empty EBP descriptor of either flavour.
func c03EBPShaped(d []byte) bool {
	if len(d) < 3 || int(d[1]) != len(d)-2 {
		return false
	}
	switch d[0] {
	case 0xA9:
		return true
	case 0xDF:
		return len(d) >= 7 && string(d[2:6]) == "EBP0"
	}
	return false
}
