package props

import (
	"bytes"
	"fmt"
	"testing"
	"time"
	_ "time/tzdata" // the zone database is embedded: the checks must not depend on the host's files

	"github.com/Comcast/gots/v2/ebp"
	"pgregory.net/rapid"

	"verifharness/hx"
	"verifharness/ref"
)

// C12 — EBP codec.

type CaseC12 struct {
	EBP ref.EBP `json:"ebp"`
	// time round trip: an instant as unix seconds + nanoseconds
	Sec      int64  `json:"t_sec"`
	Nsec     int64  `json:"t_nsec"`
	ZoneName string `json:"t_zone_name,omitempty"`     // ... or in this zone-database location (daylight saving rules; instants near the transitions)
	Zone     int    `json:"t_zone_offset_s,omitempty"` // the instant is handed over as a time.Time in a fixed zone with this UTC offset (0 = UTC)
}

const (
	c12MinUnix = ref.EBPEra1900Unix + (1 << 31) // 1968-01-20T03:14:08Z
	c12MaxUnix = ref.EBPEra2036Unix + (1 << 31) // 2104-02-26T09:42:24Z (exclusive)
)

func genC12(t *rapid.T) CaseC12 {
	e := ref.EBP{}
	e.CableLabs = rapid.Bool().Draw(t, "cablelabs")
	e.FormatID = 0x45425030
	// (always "EBP0": a decoder may insist on the format identifier of the CableLabs flavour)
	if rapid.IntRange(0, 3).Draw(t, "all-flags") == 0 {
		e.Flags = rapid.SampledFrom([]byte{0xFF, 0xFD, 0x00, 0x39, 0x19}).Draw(t, "flags-b")
	} else {
		e.Flags = rapid.Byte().Draw(t, "flags")
	}
	e.ExtFlags = rapid.Byte().Draw(t, "ext-flags")
	e.Sap = rapid.Byte().Draw(t, "sap")
	if e.CableLabs {
		n := rapid.IntRange(1, 6).Draw(t, "chain")
		for i := 0; i < n; i++ {
			if rapid.IntRange(0, 3).Draw(t, "sync-id") == 0 {
				e.Grouping = append(e.Grouping, rapid.SampledFrom([]byte{0x1C, 0x1D}).Draw(t, "sync"))
			} else {
				e.Grouping = append(e.Grouping, byte(rapid.IntRange(0, 127).Draw(t, "gid")))
			}
		}
	} else {
		e.Grouping = ref.Hex{rapid.SampledFrom([]byte{0x1C, 0x1D, 0x00, 0x9C, 0x9D, 0xFF, 0x7F, 0x1B}).Draw(t, "gbyte")}
	}
	e.Seconds = uint32(genBits(t, 32, "seconds"))
	switch rapid.IntRange(0, 3).Draw(t, "frac-kind") {
	case 0:
		e.Fraction = rapid.SampledFrom([]uint32{0, 1, 0xFFFFFFFF, 0xFFFFFFFE, 0x80000000, 4, 5}).Draw(t, "frac-b")
	default:
		e.Fraction = uint32(genBits(t, 32, "fraction"))
	}
	e.Partition = rapid.Byte().Draw(t, "partition")
	nr := rapid.SampledFrom([]int{0, 0, 0, 1, 2, 5, 20}).Draw(t, "nreserved")
	if rapid.IntRange(0, 5).Draw(t, "fill-length-byte") == 0 {
		// reserved bytes up to a data_field_length of 253..255 (the length byte's maximum; "any ... trailing reserved bytes"),
		// and around 179, the longest boundary point the private data of an adaptation field can hold
		body := len(e.Bytes()) - 2
		nr = rapid.SampledFrom([]int{253, 254, 255, 200, 179, 178, 129, 128}).Draw(t, "target-length") - body
		if nr < 0 {
			nr = 0
		}
	}
	e.Reserved = genBytes(t, nr, nr, "reserved")
	c := CaseC12{EBP: e}
	// instant
	switch rapid.IntRange(0, 4).Draw(t, "t-kind") {
	case 0:
		c.Sec = rapid.SampledFrom([]int64{c12MinUnix, c12MinUnix + 1, ref.EBPEra2036Unix - 1, ref.EBPEra2036Unix, ref.EBPEra2036Unix + 1, c12MaxUnix - 1, 0, 1700000000}).Draw(t, "t-sec-b")
	default:
		c.Sec = rapid.Int64Range(c12MinUnix, c12MaxUnix-1).Draw(t, "t-sec")
	}
	switch rapid.IntRange(0, 4).Draw(t, "ns-kind") {
	case 0:
		c.Nsec = rapid.SampledFrom([]int64{0, 1, 2, 999999999, 999999998, 999999997, 500000000}).Draw(t, "ns-b")
	case 1:
		c.Nsec = 1953125 * rapid.Int64Range(0, 511).Draw(t, "ns-512th")
	default:
		c.Nsec = rapid.Int64Range(0, 999999999).Draw(t, "ns")
	}
	switch rapid.IntRange(0, 4).Draw(t, "zone-kind") {
	case 4:
		// a location with daylight saving time, at an instant within two hours of one of its transitions
		// (wall-clock hours that occur twice or not at all)
		c.ZoneName = rapid.SampledFrom(c12Zones).Draw(t, "zone-name")
		tr := c12Transitions(c.ZoneName)
		if len(tr) > 0 {
			at := tr[rapid.IntRange(0, len(tr)-1).Draw(t, "zone-transition")] + rapid.Int64Range(-7200, 7200).Draw(t, "zone-delta")
			if at >= c12MinUnix && at < c12MaxUnix {
				c.Sec = at
			}
		}
	case 0:
		c.Zone = rapid.SampledFrom([]int{-12 * 3600, 14 * 3600, 19800, -12600, 3600, -18000, 1, -1}).Draw(t, "zone-b")
	case 1:
		c.Zone = rapid.IntRange(-18*3600, 18*3600).Draw(t, "zone")
	}
	return c
}

type c12Comcast interface{ DiscontinuityFlag() bool }
type c12CableLabs interface {
	ConcealmentFlag() bool
	PartitionFlag() bool
}

// c12Compare checks every getter of the decoded object against the model.
func c12Compare(what string, got ebp.EncoderBoundaryPoint, e *ref.EBP) *hx.Failure {
	f := e.Flags
	type fl struct {
		name string
		got  bool
		want bool
	}
	flags := []fl{
		{"FragmentFlag", got.FragmentFlag(), f&0x80 != 0},
		{"SegmentFlag", got.SegmentFlag(), f&0x40 != 0},
		{"SapFlag", got.SapFlag(), f&0x20 != 0},
		{"GroupingFlag", got.GroupingFlag(), f&0x10 != 0},
		{"TimeFlag", got.TimeFlag(), f&0x08 != 0},
		{"ExtensionFlag", got.ExtensionFlag(), f&0x01 != 0},
	}
	if e.CableLabs {
		cl, ok := got.(c12CableLabs)
		if !ok {
			return hx.Failf("ebp-type", "%s: decoded object is not a CableLabs EBP", what)
		}
		flags = append(flags, fl{"ConcealmentFlag", cl.ConcealmentFlag(), f&0x04 != 0}, fl{"PartitionFlag", cl.PartitionFlag(), e.HasPartition()})
	} else {
		cc, ok := got.(c12Comcast)
		if !ok {
			return hx.Failf("ebp-type", "%s: decoded object is not a Comcast EBP", what)
		}
		flags = append(flags, fl{"DiscontinuityFlag", cc.DiscontinuityFlag(), f&0x04 != 0})
	}
	for _, x := range flags {
		if x.got != x.want {
			return hx.Failf("ebp-flag-"+x.name, "%s: %s() = %v, encoded flags byte %#02x (ext flags %#02x)", what, x.name, x.got, f, e.ExtFlags)
		}
	}
	wantTag := byte(0xA9)
	if e.CableLabs {
		wantTag = 0xDF
	}
	if got.EBPType() != wantTag || got.IsEmpty() {
		return hx.Failf("ebp-type", "%s: EBPType() = %#x IsEmpty() = %v", what, got.EBPType(), got.IsEmpty())
	}
	if f&0x20 != 0 && got.Sap() != e.Sap {
		return hx.Failf("ebp-sap", "%s: Sap() = %#x, encoded %#x", what, got.Sap(), e.Sap)
	}
	wantSync := byte(0xFF)
	if f&0x10 != 0 {
		ids := e.Grouping
		if !e.CableLabs {
			ids = e.Grouping[:1]
		}
		for _, g := range ids {
			v := g
			if e.CableLabs {
				v &= 0x7F
			}
			if v == 0x1C || v == 0x1D {
				wantSync = v
				break
			}
		}
	}
	if got.StreamSyncSignal() != wantSync {
		return hx.Failf("ebp-streamsync", "%s: StreamSyncSignal() = %#x, want %#x (grouping ids %x, grouping flag %v)", what, got.StreamSyncSignal(), wantSync, []byte(e.Grouping), f&0x10 != 0)
	}
	if f&0x08 != 0 {
		s, ns := ref.EBPTimeUnix(e.Seconds, e.Fraction)
		want := time.Unix(s, ns).UTC()
		// "converted to nanoseconds": the reference floors the fraction; rounding to the nearest nanosecond is a conversion too
		if d := got.EBPTime().Sub(want); d < 0 || d > 1 {
			return hx.Failf("ebp-time", "%s: EBPTime() = %s, want %s (seconds %#x fraction %#x)", what, got.EBPTime().Format(time.RFC3339Nano), want.Format(time.RFC3339Nano), e.Seconds, e.Fraction)
		}
	}
	return nil
}

func c12Build(e *ref.EBP) (ebp.EncoderBoundaryPoint, []byte, func(g, r byte) []byte) {
	// realise the model through the creation/setter API and exported fields
	set := func(b ebp.EncoderBoundaryPoint) {
		b.SetFragmentFlag(e.Flags&0x80 != 0)
		b.SetSegmentFlag(e.Flags&0x40 != 0)
		b.SetSapFlag(e.Flags&0x20 != 0)
		b.SetGroupingFlag(e.Flags&0x10 != 0)
		b.SetTimeFlag(e.Flags&0x08 != 0)
		b.SetExtensionFlag(e.Flags&0x01 != 0)
		if e.Flags&0x20 != 0 {
			// a value setter is only called for a field whose flag the caller wants: whether SetSap on its own also raises
			// the flag (or is ignored) is not fixed by the statement
			b.SetSap(e.Sap)
		}
	}
	if e.CableLabs {
		b := ebp.CreateCableLabsEbp()
		set(&b)
		b.SetConcealmentFlag(e.Flags&0x04 != 0)
		b.ExtensionFlags = e.ExtFlags &^ 0x80
		if e.Flags&0x01 != 0 {
			b.SetPartitionFlag(e.ExtFlags&0x80 != 0) // same rule: only inside an extension the caller asked for
		}
		b.PartitionFlags = e.Partition
		b.FormatIdentifier = e.FormatID
		b.TimeSeconds, b.TimeFraction = e.Seconds, e.Fraction
		if e.Flags&0x10 != 0 {
			for _, g := range e.Grouping {
				b.Grouping = append(b.Grouping, g&0x7F)
			}
		}
		b.ReservedBytes = clone(e.Reserved)
		return &b, b.Data(), func(g, r byte) []byte {
			if len(b.Grouping) > 0 {
				b.Grouping[0] = g & 0x7F
			}
			if len(b.ReservedBytes) > 0 {
				b.ReservedBytes[0] = r
			}
			return b.Data()
		}
	}
	b := ebp.CreateComcastEBP()
	set(&b)
	b.SetDiscontinuityFlag(e.Flags&0x04 != 0)
	b.ExtensionFlags = e.ExtFlags
	b.TimeSeconds, b.TimeFraction = e.Seconds, e.Fraction
	if e.Flags&0x10 != 0 {
		b.Grouping = []byte{e.Grouping[0]}
	}
	b.ReservedBytes = clone(e.Reserved)
	return &b, b.Data(), func(g, r byte) []byte {
		if len(b.Grouping) > 0 {
			b.Grouping[0] = g
		}
		if len(b.ReservedBytes) > 0 {
			b.ReservedBytes[0] = r
		}
		return b.Data()
	}
}

func checkC12(c CaseC12, x *hx.Ctx) *hx.Failure {
	e := &c.EBP
	if len(e.Grouping) == 0 {
		return hx.Failf("bad-case", "grouping must not be empty")
	}
	raw := e.Bytes()
	if len(raw) > 257 {
		return hx.Failf("bad-case", "EBP body longer than the length byte can express")
	}
	nflags := 0
	for b := e.Flags; b != 0; b &= b - 1 {
		nflags++
	}
	nearEdge := c.Nsec <= 2 || c.Nsec >= 999999997
	x.NT(nflags >= 3 || (e.CableLabs && len(e.Grouping) >= 3 && e.Flags&0x10 != 0) || len(e.Reserved) > 0 || nearEdge)
	x.LabelIf(e.CableLabs, "cablelabs")
	x.LabelIf(!e.CableLabs, "comcast")
	x.LabelIf(e.CableLabs && len(e.Grouping) >= 3 && e.Flags&0x10 != 0, "chain>=3")
	x.LabelIf(len(e.Reserved) > 0, "reserved-bytes")
	x.LabelIf(e.HasPartition(), "partition")
	x.LabelIf(nearEdge, "instant-near-second-edge")
	x.LabelIf(e.Flags&0x08 != 0, "time-flag")

	// (1) decode
	wire := raw
	raw, spareIntact := withSpare(wire)
	keep := clone(raw)
	got, err := ebp.ReadEncoderBoundaryPoint(raw)
	if err != nil {
		return hx.Failf("ebp-read-error", "ReadEncoderBoundaryPoint failed on a well-formed EBP %x: %v", raw, err)
	}
	if !bytes.Equal(keep, raw) {
		return hx.Failf("ebp-read-mutates", "ReadEncoderBoundaryPoint modified its input")
	}
	what := fmt.Sprintf("decoding %x", raw)
	if f := c12Compare(what, got, e); f != nil {
		return f
	}
	// (2) re-encode is byte-identical
	if re := got.Data(); !bytes.Equal(re, raw) {
		return hx.Failf("ebp-reencode", "re-encoding the decoded EBP gives %x, input was %x", re, raw)
	}
	if !bytes.Equal(keep, raw) || !spareIntact() {
		return hx.Failf("ebp-read-mutates", "Data() modified the decoder's input (or the spare capacity behind it)")
	}
	// (3) builder path
	built, data, edit := c12Build(e)
	if len(data) < 2 || int(data[1]) != len(data)-2 {
		return hx.Failf("ebp-build-length", "API-built EBP %x: length byte %d, %d bytes follow", data, data[1], len(data)-2)
	}
	again, err := ebp.ReadEncoderBoundaryPoint(data)
	if err != nil {
		return hx.Failf("ebp-build-decode", "API-built EBP %x does not decode: %v", data, err)
	}
	if f := c12Compare(fmt.Sprintf("API-built EBP %x decoded", data), again, e); f != nil {
		f.Key = "build-" + f.Key
		return f
	}
	if f := c12Compare(fmt.Sprintf("API-built EBP %x (builder object)", data), built, e); f != nil {
		f.Key = "builder-" + f.Key
		return f
	}
	// (3b) edit grouping id / reserved byte in place (no setter exists for them) and encode again
	if (e.Flags&0x10 != 0) || len(e.Reserved) > 0 {
		e2 := *e
		e2.Grouping = clone(e.Grouping)
		e2.Reserved = clone(e.Reserved)
		g, r := e.Grouping[0]^0x01, byte(0x5C)
		if e.Flags&0x10 != 0 {
			e2.Grouping[0] = g
			if e.CableLabs {
				e2.Grouping[0] &= 0x7F
			}
		}
		if len(e2.Reserved) > 0 {
			e2.Reserved[0] = r
		}
		data2 := edit(g, r)
		again2, err := ebp.ReadEncoderBoundaryPoint(data2)
		if err != nil {
			return hx.Failf("ebp-build-decode", "API-built EBP %x (after an in-place edit) does not decode: %v", data2, err)
		}
		if f := c12Compare(fmt.Sprintf("API-built EBP re-encoded after editing grouping id / reserved byte in place: %x", data2), again2, &e2); f != nil {
			f.Key = "rebuild-" + f.Key
			return f
		}
	}
	// (4) time round trip
	if c.Sec < c12MinUnix || c.Sec >= c12MaxUnix || c.Nsec < 0 || c.Nsec > 999999999 {
		return hx.Failf("bad-case", "instant outside the representable range")
	}
	t := time.Unix(c.Sec, c.Nsec).UTC()
	if c.ZoneName != "" {
		loc, lerr := time.LoadLocation(c.ZoneName)
		if lerr != nil {
			return hx.Failf("harness-zone", "zone database entry %q not available: %v", c.ZoneName, lerr)
		}
		t = t.In(loc)
		x.Label("instant-in-DST-location")
	} else if c.Zone != 0 {
		// the same instant on another wall clock
		t = t.In(time.FixedZone("harness", c.Zone))
		x.Label("instant-in-non-UTC-zone")
	}
	for _, cl := range []bool{false, true} {
		var b ebp.EncoderBoundaryPoint
		if cl {
			v := ebp.CreateCableLabsEbp()
			b = &v
		} else {
			v := ebp.CreateComcastEBP()
			b = &v
		}
		b.SetTimeFlag(true)
		b.SetEBPTime(t)
		back := b.EBPTime()
		d := back.Sub(t)
		if d < -1 || d > 1 {
			return hx.Failf("ebp-time-roundtrip", "SetEBPTime(%s) reads back as %s (off by %v)", t.Format(time.RFC3339Nano), back.Format(time.RFC3339Nano), d)
		}
		// and through the wire format
		wire, err := ebp.ReadEncoderBoundaryPoint(b.Data())
		if err != nil {
			return hx.Failf("ebp-time-roundtrip", "EBP with time %s does not decode: %v", t.Format(time.RFC3339Nano), err)
		}
		if d := wire.EBPTime().Sub(t); d < -1 || d > 1 {
			return hx.Failf("ebp-time-roundtrip", "SetEBPTime(%s) -> Data -> Read gives %s", t.Format(time.RFC3339Nano), wire.EBPTime().Format(time.RFC3339Nano))
		}
	}
	return nil
}

var c12Zones = []string{"America/New_York", "Europe/Berlin", "Australia/Lord_Howe", "America/St_Johns", "Asia/Tehran"}

var c12TransitionCache = map[string][]int64{}

// c12Transitions lists the unix times (1970..2037) at which the UTC offset of the location changes.
func c12Transitions(name string) []int64 {
	if tr, ok := c12TransitionCache[name]; ok {
		return tr
	}
	var tr []int64
	if loc, err := time.LoadLocation(name); err == nil {
		start := time.Date(1970, 1, 1, 0, 0, 0, 0, time.UTC).Unix()
		end := time.Date(2037, 12, 31, 0, 0, 0, 0, time.UTC).Unix()
		_, prev := time.Unix(start, 0).In(loc).Zone()
		for u := start; u < end; u += 1800 {
			if _, off := time.Unix(u, 0).In(loc).Zone(); off != prev {
				tr = append(tr, u)
				prev = off
			}
		}
	}
	c12TransitionCache[name] = tr
	return tr
}

var propC12 = hx.Register(hx.Prop[CaseC12]{ID: "C12", Gen: genC12, Check: checkC12})

func c12Rule() {
	hx.Rec("C12").SetRule("cases: a reference-model EBP of either flavour (any flags byte, extension flags, SAP byte, Comcast one grouping byte / CableLabs chain of 1..6 seven-bit ids biased to 0x1C/0x1D, NTP seconds and fraction from boundary sets, partition byte, 0..20 reserved trailing bytes or as many as make data_field_length 128..255, format identifier EBP0) and an instant in [1968-01-20T03:14:08Z, 2104-02-26T09:42:24Z) biased to second edges (x.000000000, x.999999999, x.999999998), multiples of 1/512 s and the two era edges, handed over as a time.Time in UTC or (half of the cases) in a fixed zone with an offset up to +-18 h or in a zone-database location with daylight saving time within two hours of a transition. Oracle: getters = model, EBPTime = era + seconds + fraction*10^9/2^32 ns (floor or nearest) by exact integer arithmetic, StreamSyncSignal = first id in {0x1C,0x1D} else 0xFF, Data() of the decoded object = input bytes; the same model realised through Create*/setters/exported fields encodes to bytes that decode to the same getters with length byte = bytes that follow; |EBPTime(SetEBPTime(t)) - t| <= 1 ns directly and through the wire. Enumerated: all 256 flag bytes x both flavours x {no ext partition, partition} with minimal bodies. Non-trivial: >= 3 flags set, or a chain >= 3, or reserved bytes, or an instant within 2 ns of a second edge.",
		"data_field_length up to 255 (beyond the 183 bytes that fit transport private data: the decoder API takes any byte string); non-empty EBPs only",
		"Set*Flag(false) is a no-op by design: the builder path only sets flags",
		"EBPSuccessReadTime (wall clock) is never compared")
}

func TestC12(t *testing.T) {
	c12Rule()
	replayRegress(t, "C12")
	propC12.Run(t)
}

func TestC12Exhaustive(t *testing.T) {
	c12Rule()
	if !hx.FirstShard() {
		t.Skip("enumeration runs on shard 0")
	}
	for flags := 0; flags < 256; flags++ {
		for _, cl := range []bool{false, true} {
			for _, ext := range []byte{0x00, 0x80, 0x7F} {
				e := ref.EBP{CableLabs: cl, FormatID: 0x45425030, Flags: byte(flags), ExtFlags: ext, Sap: 0x60, Grouping: ref.Hex{0x11, 0x1D}, Seconds: 0xDE000000 + uint32(flags), Fraction: 0x80000000, Partition: 0x42}
				if !cl {
					e.Grouping = ref.Hex{0x1D}
				}
				c := CaseC12{EBP: e, Sec: 1700000000 + int64(flags), Nsec: int64(flags) * 3906250 % 1000000000}
				if f := propC12.EvalFast(c, hx.HashInts(uint64(flags), uint64(ext), b2u(cl))); f != nil {
					t.Fatalf("VIOLATION-CANDIDATE property=C12 key=%s: %s", f.Key, f.Msg)
				}
			}
		}
	}
	hx.Rec("C12").Subspace("all 256 flag bytes x both flavours x extension flags {0x00, 0x80, 0x7F}")
}

func b2u(b bool) uint64 {
	if b {
		return 1
	}
	return 0
}

func FuzzC12(f *testing.F) {
	c12Rule()
	f.Fuzz(propC12.Fuzz())
}
