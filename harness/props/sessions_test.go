package props

import (
	"bytes"
	"fmt"
	"testing"
	"time"

	gots "github.com/Comcast/gots/v2"
	"github.com/Comcast/gots/v2/ebp"
	"github.com/Comcast/gots/v2/packet"
	"github.com/Comcast/gots/v2/pes"
	"github.com/Comcast/gots/v2/psi"
	"github.com/Comcast/gots/v2/scte35"
	"pgregory.net/rapid"

	"verifharness/hx"
	"verifharness/ref"
)

// Sessions (interference tests, see hx/session.go): several cases of one
// property in one process, results retained and re-checked later, inputs
// repeated, results modified, input memory reused. The oracles are the same
// comparators the single-case checks use.

// ---------------------------------------------------------------------------
// PES headers (C04: timestamps read back unchanged; C11: every getter)

func sessPES(c CaseC11, a *hx.Arena) (hx.SessionRun, *hx.Failure) { return sessPESFor("C11")(c, a) }

// sessPESFor: C11 compares every getter of the retained header, C04 only the time stamps it carries.
func sessPESFor(id string) func(c CaseC11, a *hx.Arena) (hx.SessionRun, *hx.Failure) {
	return func(c CaseC11, a *hx.Arena) (hx.SessionRun, *hx.Failure) {
		p := c.PES
		raw := a.Copy(0, p.Bytes())
		h, err := pes.NewPESHeader(raw)
		if err != nil {
			if id == "C04" || p.StreamID == 0xBC {
				return hx.SessionRun{}, nil // header decoding as such is C11's business; 0xBC: see c11Header
			}
			return hx.SessionRun{}, hx.Failf("pes-error", "NewPESHeader failed on a well-formed PES start: %v", err)
		}
		n := 0
		probe := func() *hx.Failure {
			n++
			if id == "C04" {
				if !ref.PESHasOptionalHeader(p.StreamID) || p.StreamID == 0xBC {
					return nil
				}
				// the two time stamps are read in either order (the order alternates between re-checks)
				checkPTS := func() *hx.Failure {
					if p.PTSDTS != 0 && h.HasPTS() && h.PTS() != p.PTS {
						return hx.Failf("pes-pts", "PTS() = %d, the header carries %d", h.PTS(), p.PTS)
					}
					return nil
				}
				checkDTS := func() *hx.Failure {
					if p.PTSDTS == 3 && h.HasDTS() && h.DTS() != p.DTS {
						return hx.Failf("pes-dts", "DTS() = %d, the header carries %d", h.DTS(), p.DTS)
					}
					return nil
				}
				order := []func() *hx.Failure{checkPTS, checkDTS}
				if (c.CC+n)%2 == 0 {
					order = []func() *hx.Failure{checkDTS, checkPTS, checkDTS}
				}
				for _, fn := range order {
					if f := fn(); f != nil {
						return f
					}
				}
				return nil
			}
			return c11CompareHeader(h, &p, c.CC+n)
		}
		return hx.SessionRun{Probes: []hx.Probe{probe}}, nil
	}
}

func varyPES(t *rapid.T, c CaseC11) CaseC11 {
	v := c
	v.PES.PTS = genBits(t, 33, "v-pts")
	v.PES.DTS = genBits(t, 33, "v-dts")
	v.PES.Data = genBytes(t, len(c.PES.Data), len(c.PES.Data), "v-data")
	v.PES.Align = !c.PES.Align
	return v
}

var propC11Sess = hx.Register(hx.Prop[hx.SessCase[CaseC11]]{ID: "C11", Variant: "session", Thin: 8,
	Gen:   func(t *rapid.T) hx.SessCase[CaseC11] { return hx.GenSession(t, genC11, varyPES) },
	Check: func(sc hx.SessCase[CaseC11], x *hx.Ctx) *hx.Failure { return hx.RunSession(sc, x, sessPES) }})

var propC04Sess = hx.Register(hx.Prop[hx.SessCase[CaseC11]]{ID: "C04", Variant: "pes-session", Thin: 8,
	Gen:   func(t *rapid.T) hx.SessCase[CaseC11] { return hx.GenSession(t, genC11, varyPES) },
	Check: func(sc hx.SessCase[CaseC11], x *hx.Ctx) *hx.Failure { return hx.RunSession(sc, x, sessPESFor("C04")) }})

func TestC11_Session(t *testing.T) { c11Rule(); propC11Sess.Run(t) }
func TestC04_Session(t *testing.T) { c04Rule(); propC04Sess.Run(t) }

// ---------------------------------------------------------------------------
// PAT (C07)

func sessPAT(c CaseC07, a *hx.Arena) (hx.SessionRun, *hx.Failure) {
	m := c.PAT
	payload := c07Payload(c, m.Section())
	var pat psi.PAT
	var err error
	what := "session, carrier " + c.Carrier
	switch c.Carrier {
	case "payload":
		payload = append(payload, bytes.Repeat([]byte{0xFF}, c.Trailing)...)
		if len(payload) == 188 {
			payload = append(payload, 0xFF)
		}
		pat, err = psi.NewPAT(a.Copy(0, payload))
	default:
		if len(payload) > 184 {
			return hx.SessionRun{}, hx.Failf("bad-case", "PAT does not fit one packet")
		}
		size := 184
		if c.Carrier == "packet-af" {
			size = len(payload)
		}
		pk, _ := ref.Packetise(payload, 0, 3, []int{size})
		pb := pk[0].MustBytes()
		if c.Carrier == "stream" {
			var stream []byte
			for i := 0; i < c.Before; i++ {
				stream = append(stream, c.Other...)
			}
			stream = append(stream, pb[:]...)
			pat, err = psi.ReadPAT(bytes.NewReader(a.Copy(2, stream)))
		} else {
			pat, err = psi.NewPAT(a.Copy(1, pb[:]))
		}
	}
	if err != nil {
		return hx.SessionRun{}, hx.Failf("newpat-error", "%s: decoding a well-formed PAT failed: %v", what, err)
	}
	probe := func() *hx.Failure { return c07Compare(what, pat, &m, c.Probe) }
	return hx.SessionRun{Probes: []hx.Probe{probe}}, nil
}

func varyPAT(t *rapid.T, c CaseC07) CaseC07 {
	v := c
	v.PAT.Entries = append([]ref.PATEntry{}, c.PAT.Entries...)
	for i := range v.PAT.Entries {
		v.PAT.Entries[i].PID = int(genBits(t, 13, "v-pid"))
	}
	return v
}

var propC07Sess = hx.Register(hx.Prop[hx.SessCase[CaseC07]]{ID: "C07", Variant: "session", Thin: 24,
	Gen:   func(t *rapid.T) hx.SessCase[CaseC07] { return hx.GenSession(t, genC07, varyPAT) },
	Check: func(sc hx.SessCase[CaseC07], x *hx.Ctx) *hx.Failure { return hx.RunSession(sc, x, sessPAT) }})

func TestC07_Session(t *testing.T) { c07Rule(); propC07Sess.Run(t) }

// ---------------------------------------------------------------------------
// PMT decoding and filtering (C06, C14, C13's emitted PMT, C20's by-PID query)

// sessPMTFor builds the session runner of one property: each property's session applies only the
// clauses of its own statement (a deviation in the filter must not be reported under C06, and so on).
//
//	C06: NewPMT and ReadPMT (through a reader that fragments and reports EOF together with data), retained stream list
//	C14: the filter oracle with the caller's packet objects recycled
//	C13: the CRC residue of the emitted section
//	C20: the by-PID lag query on the retained PMT
func sessPMTFor(id string) func(c CaseC14, a *hx.Arena) (hx.SessionRun, *hx.Failure) {
	return func(c CaseC14, a *hx.Arena) (hx.SessionRun, *hx.Failure) {
		m := c.PMT
		car := ref.Carrier{Pointer: c.Pointer, Trailing: c.Trailing}
		switch id {
		case "C14":
			// filter with the caller's packet objects recycled in reuse mode
			var reuse func(i int) *packet.Packet
			if a.Reuse {
				reuse = func(i int) *packet.Packet {
					if a.Slots == nil {
						a.Slots = map[string]interface{}{}
					}
					k := fmt.Sprintf("pkt%d", i)
					if p, ok := a.Slots[k].(*packet.Packet); ok {
						return p
					}
					p := &packet.Packet{}
					a.Slots[k] = p
					return p
				}
			}
			return hx.SessionRun{}, c14Core(c, &hx.Ctx{}, reuse)
		case "C13":
			return hx.SessionRun{}, checkC13Pmt(c, &hx.Ctx{})
		}
		payload := a.Copy(0, car.Payload(m.Section()))
		pmt, err := psi.NewPMT(payload)
		if err != nil {
			if id == "C20" {
				return hx.SessionRun{}, nil // decoding is C06's business
			}
			return hx.SessionRun{}, hx.Failf("newpmt-error", "NewPMT failed on a well-formed payload: %v", err)
		}
		if id == "C20" {
			probe := func() *hx.Failure {
				for _, s := range m.Streams {
					if got := pmt.IsPidForStreamWherePresentationLagsEbp(s.PID); got != c20Lag[int(s.StreamType)] {
						return hx.Failf("lag-query", "IsPidForStreamWherePresentationLagsEbp(%d) = %v for stream_type %#x", s.PID, got, s.StreamType)
					}
				}
				return nil
			}
			if f := probe(); f != nil {
				return hx.SessionRun{}, f
			}
			// the query follows the PMT when streams are removed from it: the remaining streams keep their answers
			if len(m.Streams) >= 2 {
				pmt2, err2 := psi.NewPMT(clone(payload))
				if err2 == nil {
					pmt2.IsPidForStreamWherePresentationLagsEbp(m.Streams[len(m.Streams)-1].PID) // (a first query before the removal)
					pmt2.RemoveElementaryStreams([]int{m.Streams[0].PID})
					if !pmt2.PIDExists(m.Streams[0].PID) && pmt2.IsPidForStreamWherePresentationLagsEbp(m.Streams[0].PID) {
						return hx.SessionRun{}, hx.Failf("lag-query-after-removal", "IsPidForStreamWherePresentationLagsEbp(%d) is true for a PID that is no longer in the PMT", m.Streams[0].PID)
					}
					for _, s := range m.Streams[1:] {
						if got := pmt2.IsPidForStreamWherePresentationLagsEbp(s.PID); got != c20Lag[int(s.StreamType)] {
							return hx.SessionRun{}, hx.Failf("lag-query-after-removal", "after removing the first stream IsPidForStreamWherePresentationLagsEbp(%d) = %v for stream_type %#x", s.PID, got, s.StreamType)
						}
					}
				}
			}
			return hx.SessionRun{Probes: []hx.Probe{probe}}, nil
		}
		// C06: reading from a stream through a reader that fragments and reports EOF together with data
		pk, _ := ref.Packetise(car.Payload(m.Section()), c.PID, c.CC, c.Sizes)
		if len(m.Streams) > 0 && len(c.Sizes) > 0 && c.Sizes[0] > c.Pointer+1 {
			var stream []byte
			for _, p := range pk {
				b := p.MustBytes()
				stream = append(stream, b[:]...)
			}
			r := &fragReader{data: stream, chunks: []int{1 + c.CC*13, 100, 7}, eofWithData: true, failAfter: -1}
			got, err := psi.ReadPMT(r, c.PID)
			if err != nil {
				return hx.SessionRun{}, hx.Failf("readpmt-error", "ReadPMT failed on a well-formed stream read in chunks with EOF delivered together with the last bytes: %v", err)
			}
			if f := c06CompareStreams("ReadPMT(fragmenting reader)", got, &m); f != nil {
				return hx.SessionRun{}, f
			}
		}
		probe := func() *hx.Failure { return c06CompareStreams("session NewPMT", pmt, &m) }
		mutate := func() {
			if len(m.Streams) > 0 {
				pmt.RemoveElementaryStreams([]int{m.Streams[0].PID})
			}
		}
		return hx.SessionRun{Probes: []hx.Probe{probe}, Mutate: mutate}, nil
	}
}

// varyPMT keeps every length and the program header, changes stream content.
func varyPMT(t *rapid.T, c CaseC14) CaseC14 {
	v := c
	v.PMT.Streams = append([]ref.ESInfo{}, c.PMT.Streams...)
	for i := range v.PMT.Streams {
		s := v.PMT.Streams[i]
		s.StreamType = rapid.SampledFrom([]byte{0x02, 0x1B, 0x0F, 0x81, 0x87, 0x06, 0x03}).Draw(t, "v-type")
		s.Descs = append([]ref.Descriptor{}, s.Descs...)
		for j := range s.Descs {
			if s.Descs[j].Tag == 0x0A && len(s.Descs[j].Body) >= 4 {
				b := clone(s.Descs[j].Body)
				copy(b, rapid.StringMatching("[a-z]{3}").Draw(t, "v-lang"))
				s.Descs[j].Body = b
			}
		}
		v.PMT.Streams[i] = s
	}
	return v
}

func pmtSessProp(id string) hx.Prop[hx.SessCase[CaseC14]] {
	return hx.Register(hx.Prop[hx.SessCase[CaseC14]]{ID: id, Variant: "pmt-session", Thin: 12,
		Gen:   func(t *rapid.T) hx.SessCase[CaseC14] { return hx.GenSession(t, genC14, varyPMT) },
		Check: func(sc hx.SessCase[CaseC14], x *hx.Ctx) *hx.Failure { return hx.RunSession(sc, x, sessPMTFor(id)) }})
}

var propC06Sess, propC14Sess, propC13PmtSess, propC20Sess = pmtSessProp("C06"), pmtSessProp("C14"), pmtSessProp("C13"), pmtSessProp("C20")

func TestC06_Session(t *testing.T)    { c06Rule(); propC06Sess.Run(t) }
func TestC14_Session(t *testing.T)    { c14Rule(); propC14Sess.Run(t) }
func TestC13_SessionPmt(t *testing.T) { c13Rule(); propC13PmtSess.Run(t) }
func TestC20_Session(t *testing.T)    { c20Rule(); propC20Sess.Run(t) }

// ---------------------------------------------------------------------------
// SCTE-35 decoding (C08) and encoding (C09)

func sessSCTE(c CaseC08, a *hx.Arena) (hx.SessionRun, *hx.Failure) {
	m := c.Splice
	sec := m.Encode()
	in := a.Copy(0, c08Input(CaseC08{Pointer: c.Pointer}, sec))
	s, err := scte35.NewSCTE35(in)
	if err != nil {
		return hx.SessionRun{}, hx.Failf("decode-error", "NewSCTE35 failed on a well-formed section: %v", err)
	}
	probe := func() *hx.Failure { return cmpSplice("session decode", &m, s) }
	mutate := func() {
		s.SetTier(s.Tier() ^ 0x155)
		s.SetAdjustPTS((s.PTS() + 12345) & gots.MaxPtsValue)
		for _, d := range s.Descriptors() {
			d.SetEventID(d.EventID() ^ 0xCAFE)
			d.SetSegmentNumber(d.SegmentNumber() + 1)
		}
		if in, ok := s.CommandInfo().(scte35.SpliceInsertCommand); ok {
			in.SetEventID(in.EventID() + 1)
		}
	}
	return hx.SessionRun{Probes: []hx.Probe{probe}, Mutate: mutate}, nil
}

func varySCTE(t *rapid.T, c CaseC08) CaseC08 {
	v := c
	v.Splice.Tier = uint16(genBits(t, 12, "v-tier"))
	v.Splice.Adj = genBits(t, 33, "v-adj")
	v.Splice.Descs = append([]ref.SpliceDesc{}, c.Splice.Descs...)
	for i := range v.Splice.Descs {
		v.Splice.Descs[i].Event ^= uint32(genBits(t, 32, "v-event"))
		if len(v.Splice.Descs[i].UPID) > 0 {
			v.Splice.Descs[i].UPID = genBytes(t, len(v.Splice.Descs[i].UPID), len(v.Splice.Descs[i].UPID), "v-upid")
		}
	}
	return v
}

func genC08Positive(t *rapid.T) CaseC08 {
	c := genC08(t)
	c.Negative = ""
	return c
}

var propC08Sess = hx.Register(hx.Prop[hx.SessCase[CaseC08]]{ID: "C08", Variant: "session", Thin: 8,
	Gen:   func(t *rapid.T) hx.SessCase[CaseC08] { return hx.GenSession(t, genC08Positive, varySCTE) },
	Check: func(sc hx.SessCase[CaseC08], x *hx.Ctx) *hx.Failure { return hx.RunSession(sc, x, sessSCTE) }})

func TestC08_Session(t *testing.T) { c08Rule(); propC08Sess.Run(t) }

// encoding sessions: objects are encoded, retained, and their encodings re-read later
func sessSCTEEncode(c CaseC09, a *hx.Arena) (hx.SessionRun, *hx.Failure) {
	c.Muts = nil
	st := &c09State{}
	switch c.Path {
	case "api":
		st.m = apiExpressible(c.Splice)
		st.sig = buildSpliceAPI(&st.m, c.Noise)
		st.adjusted = (st.cmdPTSField() + st.m.Adj) & m33
	default:
		s, err := scte35.NewSCTE35(a.Copy(0, append([]byte{0}, c.Splice.Encode()...)))
		if err != nil {
			return hx.SessionRun{}, hx.Failf("decode-error", "NewSCTE35 failed on a well-formed section: %v", err)
		}
		st.sig = s
		st.m = c09DecodedView(c.Splice)
		if kept, same := c09DecodedOrder(s, &st.m); !kept && same {
			return hx.SessionRun{}, nil
		}
		carries, cp := c.Splice.CarriesTime()
		if !carries {
			cp = 0
		}
		st.adjusted = (cp + c.Splice.Adj) & m33
	}
	if f := c09VerifyEncoding(st, c, "session"); f != nil {
		return hx.SessionRun{}, f
	}
	enc := clone(st.sig.Data())
	probe := func() *hx.Failure {
		if !bytes.Equal(st.sig.Data(), enc) {
			return hx.Failf("data-changed-later", "Data() of a retained signal changed although it was not re-encoded")
		}
		return c09VerifyEncoding(st, c, "session re-check of a retained signal")
	}
	mutate := func() { st.sig.SetTier(st.sig.Tier() ^ 0x2AA); st.sig.UpdateData() }
	return hx.SessionRun{Probes: []hx.Probe{probe}, Mutate: mutate}, nil
}

var propC09Sess = hx.Register(hx.Prop[hx.SessCase[CaseC09]]{ID: "C09", Variant: "session", Thin: 40,
	Gen:   func(t *rapid.T) hx.SessCase[CaseC09] { return hx.GenSession(t, genC09, nil) },
	Check: func(sc hx.SessCase[CaseC09], x *hx.Ctx) *hx.Failure { return hx.RunSession(sc, x, sessSCTEEncode) }})

func TestC09_Session(t *testing.T) { c09Rule(); propC09Sess.Run(t) }

// ---------------------------------------------------------------------------
// EBP (C12)

func sessEBP(c CaseC12, a *hx.Arena) (hx.SessionRun, *hx.Failure) {
	e := c.EBP
	raw := e.Bytes()
	in := a.Copy(0, raw)
	got, err := ebp.ReadEncoderBoundaryPoint(in)
	if err != nil {
		return hx.SessionRun{}, hx.Failf("ebp-read-error", "ReadEncoderBoundaryPoint failed on a well-formed EBP %x: %v", raw, err)
	}
	probe := func() *hx.Failure {
		if f := c12Compare("session decode", got, &e); f != nil {
			return f
		}
		if re := got.Data(); !bytes.Equal(re, raw) {
			return hx.Failf("ebp-reencode", "re-encoding the retained EBP gives %x, input was %x", re, raw)
		}
		return nil
	}
	first := got.Data() // an encoding handed to the caller; the caller may append to it later
	mutate := func() {
		got.SetSap(got.Sap() ^ 0x5A)
		got.SetSapFlag(true)
		got.SetTimeFlag(true)
		got.SetEBPTime(time.Unix(1700000000, 5).UTC()) // an instant inside the representable range whatever was decoded
	}
	return hx.SessionRun{Probes: []hx.Probe{probe}, Mutate: mutate, Extend: func() { appendJunk(first) }}, nil
}

func varyEBP(t *rapid.T, c CaseC12) CaseC12 {
	v := c
	v.EBP.Sap = rapid.Byte().Draw(t, "v-sap")
	v.EBP.Seconds = uint32(genBits(t, 32, "v-seconds"))
	v.EBP.Reserved = genBytes(t, len(c.EBP.Reserved), len(c.EBP.Reserved), "v-reserved")
	return v
}

var propC12Sess = hx.Register(hx.Prop[hx.SessCase[CaseC12]]{ID: "C12", Variant: "session", Thin: 8,
	Gen:   func(t *rapid.T) hx.SessCase[CaseC12] { return hx.GenSession(t, genC12, varyEBP) },
	Check: func(sc hx.SessCase[CaseC12], x *hx.Ctx) *hx.Failure { return hx.RunSession(sc, x, sessEBP) }})

func TestC12_Session(t *testing.T) { c12Rule(); propC12Sess.Run(t) }

// ---------------------------------------------------------------------------
// packet payload copies and creation helpers (C02), counter helpers (C01)

func sessPacket(c CaseC02, a *hx.Arena) (hx.SessionRun, *hx.Failure) {
	return sessPacketFor("C02")(c, a)
}

// sessPacketFor: C02 retains the payload copy and the packets of the creation helpers, C01 the results of
// the copy-returning continuity-counter helpers.
func sessPacketFor(id string) func(c CaseC02, a *hx.Arena) (hx.SessionRun, *hx.Failure) {
	return func(c CaseC02, a *hx.Arena) (hx.SessionRun, *hx.Failure) { return sessPacketRun(id, c, a) }
}

func sessPacketRun(id string, c CaseC02, a *hx.Arena) (hx.SessionRun, *hx.Failure) {
	var b [188]byte
	copy(b[:], c.Pkt)
	m, ok := ref.ParsePacket(b)
	if !ok {
		return hx.SessionRun{}, hx.Failf("bad-case", "case packet is not well-formed")
	}
	p := packet.Packet(b)
	var probes []hx.Probe
	var mutators []func()
	var owned [][]byte // slices the library handed to the caller
	if id == "C02" && m.AFC&1 != 0 {
		res, err := p.Payload()
		owned = append(owned, res)
		if err != nil {
			return hx.SessionRun{}, hx.Failf("payload-error", "(*Packet).Payload failed on a well-formed packet: %v", err)
		}
		want := clone(m.Payload)
		probes = append(probes, func() *hx.Failure {
			if !bytes.Equal(res, want) {
				return hx.Failf("payload-method-copy", "the copy returned by (*Packet).Payload no longer holds the packet's payload (first difference at %d)", firstDiff(res, want))
			}
			return nil
		})
		mutators = append(mutators, func() {
			for i := range res {
				res[i] ^= 0xA5
			}
			appendJunk(res)
		})
	}
	// creation helpers: results belong to the caller
	pid, cc := c.PID, uint8(c.CC)
	type made struct {
		name string
		p    *packet.Packet
		pay  bool
		pusi bool
	}
	ms := []made{
		{"CreateTestPacket", packet.CreateTestPacket(pid, cc, c.PUSI, c.Pay), c.Pay, c.PUSI && c.Pay},
		{"CreateDCPacket", packet.CreateDCPacket(pid, cc), packet.CreateDCPacket(pid, cc)[3]&0x10 != 0, false}, // the payload flag is not among the requested fields
		{"CreatePacketWithPayload", packet.CreatePacketWithPayload(pid, cc, head(c.HPay, 184)), true, false},
		{"Create", packet.Create(pid, packet.WithHasPayloadFlag), true, false},
	}
	if id != "C02" {
		ms = nil
	}
	for _, mk := range ms {
		mk := mk
		if mk.p == nil {
			return hx.SessionRun{}, hx.Failf("create-"+mk.name, "%s returned nil", mk.name)
		}
		snapshot := *mk.p
		probes = append(probes, func() *hx.Failure {
			q := mk.p
			if q[0] != 0x47 || int(q[1]&0x1f)<<8|int(q[2]) != pid || (q[3]&0x10 != 0) != mk.pay {
				return hx.Failf("create-"+mk.name, "%s(pid %d, cc %d): sync/PID/payload flag are %02x/%d/%v", mk.name, pid, cc, q[0], int(q[1]&0x1f)<<8|int(q[2]), q[3]&0x10 != 0)
			}
			if mk.name != "Create" && int(q[3]&0xf) != int(cc) {
				return hx.Failf("create-"+mk.name, "%s(pid %d, cc %d): counter is %d", mk.name, pid, cc, q[3]&0xf)
			}
			if mk.name == "CreateTestPacket" && mk.pay && (q[1]&0x40 != 0) != mk.pusi {
				return hx.Failf("create-"+mk.name, "CreateTestPacket: PUSI %v want %v", q[1]&0x40 != 0, mk.pusi)
			}
			if *q != snapshot {
				return hx.Failf("create-"+mk.name+"-changed", "the packet returned by %s changed after it was handed to the caller", mk.name)
			}
			return nil
		})
		mutators = append(mutators, func() {
			mk.p[1] ^= 0x1F
			mk.p[2] ^= 0xFF
			mk.p[3] ^= 0x3F
			mk.p[9] ^= 0xFF
		})
	}
	// copy-returning continuity counter helpers
	arg := p
	outs := []*packet.Packet{packet.IncrementCC(&arg), packet.ZeroCC(&arg), packet.SetCC(&arg, cc)}
	wantCC := []int{(int(b[3]&0xf) + 1) % 16, 0, int(cc)}
	if id != "C01" {
		outs = nil
	}
	for i, o := range outs {
		i, o := i, o
		probes = append(probes, func() *hx.Failure {
			if arg != packet.Packet(b) {
				return hx.Failf("copy-cc-mutates", "a copy-returning counter helper modified its argument")
			}
			if int(o[3]&0xf) != wantCC[i] || o[3]&0xf0 != b[3]&0xf0 || !bytes.Equal(o[:3], b[:3]) || !bytes.Equal(o[4:], b[4:]) {
				return hx.Failf("copy-cc-result", "the packet returned by counter helper %d no longer is the argument with counter %d", i, wantCC[i])
			}
			return nil
		})
	}
	mutate := func() {
		for _, f := range mutators {
			f()
		}
	}
	return hx.SessionRun{Probes: probes, Mutate: mutate, Extend: func() {
		for _, b := range owned {
			appendJunk(b)
		}
	}}, nil
}

func genC02Sess(t *rapid.T) CaseC02 {
	c := genC02(t)
	if rapid.Bool().Draw(t, "cc0") {
		c.CC = 0
	}
	c.PID = rapid.SampledFrom([]int{0x100, 0x101, c.PID}).Draw(t, "few-pids")
	return c
}

var propC02Sess = hx.Register(hx.Prop[hx.SessCase[CaseC02]]{ID: "C02", Variant: "session", Thin: 8,
	Gen:   func(t *rapid.T) hx.SessCase[CaseC02] { return hx.GenSession(t, genC02Sess, nil) },
	Check: func(sc hx.SessCase[CaseC02], x *hx.Ctx) *hx.Failure { return hx.RunSession(sc, x, sessPacket) }})

var propC01Sess = hx.Register(hx.Prop[hx.SessCase[CaseC02]]{ID: "C01", Variant: "session", Thin: 8,
	Gen: func(t *rapid.T) hx.SessCase[CaseC02] { return hx.GenSession(t, genC02Sess, nil) },
	Check: func(sc hx.SessCase[CaseC02], x *hx.Ctx) *hx.Failure {
		return hx.RunSession(sc, x, sessPacketFor("C01"))
	}})

func TestC02_Session(t *testing.T) { c02Rule(); propC02Sess.Run(t) }
func TestC01_Session(t *testing.T) { c01Rule(); propC01Sess.Run(t) }

// ---------------------------------------------------------------------------
// ComputeCRC results belong to the caller (C13)

func sessCRC(c CaseC13, a *hx.Arena) (hx.SessionRun, *hx.Failure) {
	data := a.Copy(0, c.Data)
	r := gots.ComputeCRC(data)
	want := ref.CRC32MPEG2(c.Data)
	probe := func() *hx.Failure {
		if len(r) != 4 || uint32(r[0])<<24|uint32(r[1])<<16|uint32(r[2])<<8|uint32(r[3]) != want {
			return hx.Failf("crc-value", "ComputeCRC result for a %d-byte input is %x, CRC-32/MPEG-2 is %08x", len(c.Data), r, want)
		}
		return nil
	}
	mutate := func() {
		for i := range r {
			r[i] ^= 0xFF
		}
		appendJunk(r)
	}
	return hx.SessionRun{Probes: []hx.Probe{probe}, Mutate: mutate, Extend: func() { appendJunk(r) }}, nil
}

var propC13Sess = hx.Register(hx.Prop[hx.SessCase[CaseC13]]{ID: "C13", Variant: "session", Thin: 8,
	Gen:   func(t *rapid.T) hx.SessCase[CaseC13] { return hx.GenSession(t, genC13, nil) },
	Check: func(sc hx.SessCase[CaseC13], x *hx.Ctx) *hx.Failure { return hx.RunSession(sc, x, sessCRC) }})

func TestC13_Session(t *testing.T) { c13Rule(); propC13Sess.Run(t) }
