package props

import (
	"bytes"
	"fmt"
	"strings"
	"testing"

	"github.com/Comcast/gots/v2/packet"
	"github.com/Comcast/gots/v2/psi"
	"pgregory.net/rapid"

	"verifharness/hx"
	"verifharness/ref"
)

// C14 — PMT filtering.

type CaseC14 struct {
	PMT      ref.PMT `json:"pmt"`
	Pointer  int     `json:"pointer"`
	Trailing int     `json:"trailing"`
	PID      int     `json:"pid"`
	CC       int     `json:"cc"`
	Sizes    []int   `json:"sizes"`
	Request  []int   `json:"request"`
	Remove   []int   `json:"remove"` // for RemoveElementaryStreams
	// CRCFlip, when non-zero, is XORed into the CRC_32 of the input section. Only the
	// C13 emitted-section check uses it (the C14 statement is about well-formed input):
	// whatever is emitted must carry a CRC_32 that is right for the emitted bytes.
	CRCFlip uint32 `json:"crc_flip,omitempty"`
}

func genC14(t *rapid.T) CaseC14 {
	c := CaseC14{}
	c.PMT = *genPMT(t, 0, 10)
	// an elementary stream on PID 0 would collide with the PAT PID, which the filter ignores in the request: no
	// real PMT has one (the statement's "ignoring the PAT and PMT PIDs" presupposes that)
	{
		taken := map[int]bool{}
		for _, s := range c.PMT.Streams {
			taken[s.PID] = true
		}
		for i := range c.PMT.Streams {
			if c.PMT.Streams[i].PID == 0 {
				p := 0x11
				for taken[p] {
					p++
				}
				taken[p] = true
				c.PMT.Streams[i].PID = p
			}
		}
	}
	car := genCarrier(t, false)
	c.Pointer, c.Trailing = car.Pointer, car.Trailing
	if c.Pointer > 150 {
		c.Pointer = 150
	}
	used := map[int]bool{0: true}
	for _, s := range c.PMT.Streams {
		used[s.PID] = true
	}
	for c.PID = legalPID(int(genBits(t, 13, "pmt-pid"))); used[c.PID]; c.PID = nextLegalPID(c.PID) {
	}
	used[c.PID] = true
	c.CC = rapid.IntRange(0, 15).Draw(t, "cc")
	payload := ref.Carrier{Pointer: c.Pointer, Trailing: c.Trailing}.Payload(c.PMT.Section())
	c.Sizes = genSizes(t, len(payload), nil)
	// requested list
	absent := func(label string) int {
		p := int(genBits(t, 13, label))
		for used[p] {
			p = (p + 1) & 0x1FFF
		}
		return p
	}
	switch rapid.IntRange(0, 9).Draw(t, "req-kind") {
	case 0:
		c.Request = []int{}
	case 1:
		n := rapid.IntRange(1, 3).Draw(t, "n-absent")
		for i := 0; i < n; i++ {
			c.Request = append(c.Request, absent("absent"))
		}
	default:
		for _, s := range c.PMT.Streams {
			if rapid.Bool().Draw(t, "pick") {
				c.Request = append(c.Request, s.PID)
			}
		}
		if rapid.IntRange(0, 3).Draw(t, "add-absent") == 0 {
			c.Request = append(c.Request, absent("absent2"))
		}
		if rapid.IntRange(0, 3).Draw(t, "add-dup") == 0 && len(c.Request) > 0 {
			c.Request = append(c.Request, c.Request[rapid.IntRange(0, len(c.Request)-1).Draw(t, "dup-i")])
		}
		if rapid.IntRange(0, 3).Draw(t, "add-pat") == 0 {
			c.Request = append(c.Request, 0)
		}
		if rapid.IntRange(0, 3).Draw(t, "add-pmtpid") == 0 {
			c.Request = append(c.Request, c.PID)
		}
		c.Request = rapid.Permutation(c.Request).Draw(t, "order")
	}
	if c.Request == nil {
		c.Request = []int{}
	}
	for _, s := range c.PMT.Streams {
		if rapid.IntRange(0, 2).Draw(t, "rm") == 0 {
			c.Remove = append(c.Remove, s.PID)
		}
	}
	if rapid.IntRange(0, 3).Draw(t, "rm-absent") == 0 {
		c.Remove = append(c.Remove, absent("rm-absent-pid"))
	}
	return c
}

func checkC14(c CaseC14, x *hx.Ctx) *hx.Failure { return c14Core(c, x, nil) }

// c14Names reports whether an error text names the PID, in decimal or hexadecimal.
func c14Names(text string, pid int) bool {
	t := strings.ToLower(text)
	for _, f := range []string{"%d", "%x", "%04x", "%#x"} {
		if strings.Contains(t, fmt.Sprintf(f, pid)) {
			return true
		}
	}
	return false
}

// c14Core is the C14 oracle; reuse, when not nil, supplies the packet objects
// to load the input into (a caller that recycles its packet buffers).
func c14Core(c CaseC14, x *hx.Ctx, reuse func(i int) *packet.Packet) *hx.Failure {
	m := &c.PMT
	car := ref.Carrier{Pointer: c.Pointer, Trailing: c.Trailing}
	payload := car.Payload(m.Section())
	pkts, err := ref.Packetise(payload, c.PID, c.CC, c.Sizes)
	if err != nil {
		return hx.Failf("bad-case", "packetise: %v", err)
	}
	in := make([]*packet.Packet, len(pkts))
	keep := make([]packet.Packet, len(pkts))
	for i, p := range pkts {
		b := packet.Packet(p.MustBytes())
		if reuse != nil {
			in[i] = reuse(i)
			*in[i] = b
		} else {
			in[i] = &b
		}
		keep[i] = b
	}
	present := map[int]bool{}
	for _, s := range m.Streams {
		present[s.PID] = true
	}
	sel := map[int]bool{}
	var missing []int
	for _, p := range c.Request {
		switch {
		case present[p]:
			sel[p] = true
		case p == 0 || p == c.PID:
		default:
			missing = append(missing, p)
		}
	}
	properSubset := len(sel) > 0 && len(sel) < len(m.Streams)
	removedMiddleWithDesc := false
	for i, s := range m.Streams {
		if !sel[s.PID] && len(s.Descs) > 0 && i > 0 && i < len(m.Streams)-1 {
			removedMiddleWithDesc = true
		}
	}
	x.NT(properSubset && (len(pkts) >= 2 || removedMiddleWithDesc))
	x.LabelIf(len(pkts) >= 2, "multi-packet")
	x.LabelIf(properSubset, "proper-subset")
	x.LabelIf(len(missing) > 0 && len(sel) > 0, "some-missing")
	x.LabelIf(len(missing) > 0 && len(sel) == 0, "none-present")
	x.LabelIf(len(c.Request) == 0, "empty-request")
	x.LabelIf(c.Pointer > 0, "pointer>0")

	req := append([]int{}, c.Request...)
	out, ferr := psi.FilterPMTPacketsToPids(in, req)
	for i := range in {
		if *in[i] != keep[i] {
			return hx.Failf("filter-mutates-input", "FilterPMTPacketsToPids modified input packet %d", i)
		}
	}
	ctx := fmt.Sprintf("request %v, PMT pids %v, pmt pid %d, %d packets (payload sizes %v), pointer %d", c.Request, pidsOf(m), c.PID, len(pkts), c.Sizes, c.Pointer)
	if len(c.Request) == 0 {
		if ferr != nil || len(out) != len(in) {
			return hx.Failf("filter-empty-list", "empty PID list: got %d packets, err %v; want the input unchanged (%s)", len(out), ferr, ctx)
		}
		for i := range out {
			if *out[i] != keep[i] {
				return hx.Failf("filter-empty-list", "empty PID list: packet %d differs from the input", i)
			}
		}
		return c14Remove(c, payload)
	}
	// error contract
	if len(missing) == 0 && len(sel) == 0 && len(out) == 0 && ferr != nil {
		// a request that names only the PAT and PMT PIDs: once those are ignored nothing is requested, "every requested PID is
		// in the PMT" and "none are" both hold vacuously and prescribe opposite outcomes - either one is accepted
		x.Label("request-of-ignored-pids-only")
		return c14Remove(c, payload)
	}
	switch {
	case len(missing) == 0:
		if ferr != nil {
			return hx.Failf("filter-spurious-error", "every requested PID is in the PMT (or is the PAT/PMT PID) but an error was returned: %v (%s)", ferr, ctx)
		}
	case len(sel) == 0:
		// none of the requested PIDs - the PAT and PMT PIDs do not count - is in the PMT
		if ferr == nil || len(out) != 0 {
			return hx.Failf("filter-none-present", "none of the requested PIDs is in the PMT: got %d packets, err %v; want no packets and an error (%s)", len(out), ferr, ctx)
		}
	default:
		if ferr == nil {
			return hx.Failf("filter-missing-not-reported", "PIDs %v are not in the PMT but no error was returned (%s)", missing, ctx)
		}
	}
	if ferr != nil {
		for _, p := range missing {
			if !c14Names(ferr.Error(), p) {
				return hx.Failf("filter-error-text", "error %q does not name the missing PID %d (%s)", ferr, p, ctx)
			}
		}
	}
	if len(out) == 0 {
		if len(missing) > 0 && len(sel) == 0 {
			return c14Remove(c, payload)
		}
		return hx.Failf("filter-no-packets", "no packets returned although %d requested PIDs are in the PMT (err %v; %s)", len(sel), ferr, ctx)
	}
	// expected output
	want := m.Select(sel)
	wantSection := want.Section()
	wantPayload := append([]byte{byte(c.Pointer)}, bytes.Repeat([]byte{0xFF}, c.Pointer)...)
	wantPayload = append(wantPayload, wantSection...)
	// packets needed: least k whose capacities hold the payload
	capSum, k := 0, 0
	for k < len(in) && capSum < len(wantPayload) {
		capSum += 188 - pkts[k].HeaderLen()
		k++
	}
	if capSum < len(wantPayload) {
		return hx.Failf("harness-model", "filtered PMT does not fit the input packets")
	}
	// at least the packets the filtered PMT needs, at most as many as came in (surplus ones carry 0xFF padding only)
	if len(out) < k || len(out) > len(in) {
		return hx.Failf("filter-packet-count", "%d packets returned for %d input packets, the filtered PMT (%d payload bytes) needs %d (%s)", len(out), len(in), len(wantPayload), k, ctx)
	}
	var got []byte
	for i, o := range out {
		if o == nil {
			return hx.Failf("filter-nil-packet", "output packet %d is nil", i)
		}
		hl := pkts[i].HeaderLen()
		if !bytes.Equal(o[:hl], keep[i][:hl]) {
			return hx.Failf("filter-header", "output packet %d does not keep the header of input packet %d: %x vs %x (%s)", i, i, o[:hl], keep[i][:hl], ctx)
		}
		if packet.Pid(o) != c.PID {
			return hx.Failf("filter-pid", "output packet %d has PID %d, want %d", i, packet.Pid(o), c.PID)
		}
		got = append(got, o[hl:]...)
	}
	if len(got) < len(wantPayload) || !bytes.Equal(got[:len(wantPayload)], wantPayload) {
		d := firstDiff(got, wantPayload)
		return hx.Failf("filter-payload", "filtered payload differs from pointer_field ++ re-encoded PMT of the selected streams at byte %d (%s)\n got  %x\n want %x", d, ctx, head(got, len(wantPayload)+8), wantPayload)
	}
	for i := len(wantPayload); i < len(got); i++ {
		if got[i] != 0xFF {
			return hx.Failf("filter-padding", "byte %d after the filtered section is %02x, want 0xFF padding (%s)", i, got[i], ctx)
		}
	}
	if r := ref.CRC32MPEG2(got[1+c.Pointer : 1+c.Pointer+len(wantSection)]); r != 0 {
		return hx.Failf("filter-crc", "emitted section has CRC residue %08x", r)
	}
	// (the emitted bytes were compared with the reference encoding above; what the decoders make of them is C06's and C20's business)
	_ = want
	return c14Remove(c, payload)
}

func pidsOf(m *ref.PMT) []int {
	var p []int
	for _, s := range m.Streams {
		p = append(p, s.PID)
	}
	return p
}

func c14Remove(c CaseC14, payload []byte) *hx.Failure {
	dec, err := psi.NewPMT(payload)
	if err != nil {
		return hx.Failf("newpmt-error", "NewPMT failed on a well-formed payload: %v", err)
	}
	rm := map[int]bool{}
	for _, p := range c.Remove {
		rm[p] = true
	}
	keepSel := map[int]bool{}
	for _, s := range c.PMT.Streams {
		if !rm[s.PID] {
			keepSel[s.PID] = true
		}
	}
	// by-PID queries before the removal (whatever they cache must not outlive it); which stream types the query answers
	// true for is C20's clause - here only that the removal does not change the answer for a stream that stays
	before := map[int]bool{}
	if len(c.Remove)%2 == 1 || c.CC%2 == 0 {
		for _, s := range c.PMT.Streams {
			before[s.PID] = dec.IsPidForStreamWherePresentationLagsEbp(s.PID)
		}
	}
	rmArg := append([]int{}, c.Remove...)
	dec.RemoveElementaryStreams(rmArg)
	want := c.PMT.Select(keepSel)
	// "leaves exactly the other streams, in order, and the PID list and PID-existence query agree": the header fields are
	// not part of this clause (a library may count the edit as a new version)
	want.Version, want.CurrentNext = int(dec.VersionNumber()), dec.CurrentNextIndicator()
	if f := c06CompareStreams(fmt.Sprintf("after RemoveElementaryStreams(%v)", c.Remove), dec, want); f != nil {
		f.Key = "remove-" + f.Key
		return f
	}
	for _, s := range want.Streams {
		if b, ok := before[s.PID]; ok && dec.IsPidForStreamWherePresentationLagsEbp(s.PID) != b {
			return hx.Failf("remove-lag-query", "RemoveElementaryStreams(%v) changed the answer of IsPidForStreamWherePresentationLagsEbp(%d) for a stream (type %#x) that stays", c.Remove, s.PID, s.StreamType)
		}
	}
	for _, p := range c.Remove {
		if dec.PIDExists(p) {
			return hx.Failf("remove-pidexists", "PIDExists(%d) is still true after removing it", p)
		}
	}
	if len(dec.Pids()) != len(dec.ElementaryStreams()) {
		return hx.Failf("remove-pids-disagree", "Pids() has %d entries, ElementaryStreams() %d", len(dec.Pids()), len(dec.ElementaryStreams()))
	}
	for i, e := range dec.ElementaryStreams() {
		if dec.Pids()[i] != e.ElementaryPid() {
			return hx.Failf("remove-pids-disagree", "Pids()[%d]=%d but stream %d has PID %d", i, dec.Pids()[i], i, e.ElementaryPid())
		}
	}
	return nil
}

var propC14 = hx.Register(hx.Prop[CaseC14]{ID: "C14", Gen: genC14, Check: checkC14})

func c14Rule() {
	hx.Rec("C14").SetRule("cases: a reference-model PMT (as C06: 0..10 streams with distinct PIDs, descriptors incl. probes, section_length <= 1021) carried as pointer_field (0..150) + section + 0..200 stuffing bytes, packetised with payload sizes 1..184 per packet; a requested PID list: random subset of present PIDs in random order, with probability 1/4 each an absent PID , a duplicate, PAT PID 0, the PMT PID; also the empty list and all-absent lists; a PID list for RemoveElementaryStreams. Oracle: expected section = reference re-encoding of the model restricted to the selected streams (fresh section_length and reference CRC); output headers = input headers, concatenated payload = pointer+filler ++ expected section ++ 0xFF.., packet count = least k that holds it, inputs byte-identical afterwards, error contract incl. missing PIDs named, CRC residue zero under the reference CRC, decode round trip. Non-trivial: a proper non-empty subset is selected and (>= 2 packets or a stream with descriptors is removed from the middle).",
		"the PMT is the first and only section of the payload (the statement's carrier); elementary PIDs are distinct and differ from 0 and the PMT PID")
}

func TestC14(t *testing.T) {
	c14Rule()
	replayRegress(t, "C14")
	propC14.Run(t)
}

func FuzzC14(f *testing.F) {
	c14Rule()
	f.Fuzz(propC14.Fuzz())
}
