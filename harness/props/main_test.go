package props

import (
	"fmt"
	"os"
	"testing"
	"time"

	"verifharness/hx"
)

// TestMain flushes the evidence recorders of every property touched by this
// process, or runs the evidence merge step when VERIF_MODE=merge.
func TestMain(m *testing.M) {
	if os.Getenv("VERIF_MODE") == "merge" {
		if err := hx.Merge(hx.OutDir(), os.Getenv("VERIF_MERGE_ID"), os.Getenv("VERIF_MERGE_DEST")); err != nil {
			fmt.Fprintln(os.Stderr, "merge:", err)
			os.Exit(2)
		}
		os.Exit(0)
	}
	// The process-wide local time zone is set to something that is not UTC (the sandbox runs in UTC): nothing
	// the library computes may depend on where the process happens to run.
	time.Local = time.FixedZone("harness-local", 5*3600+1800)
	code := m.Run()
	hx.FlushAll()
	os.Exit(code)
}

// TestReplay re-runs one stored case (VERIF_REPLAY=path) through the oracle of
// its property, bypassing rapid.
func TestReplay(t *testing.T) {
	path := os.Getenv("VERIF_REPLAY")
	if path == "" {
		t.Skip("VERIF_REPLAY not set")
	}
	prop, f, err := hx.ReplayPath(path)
	if err != nil {
		t.Fatalf("REPLAY-ERROR %v", err)
	}
	if f != nil {
		t.Fatalf("VIOLATION-CANDIDATE property=%s key=%s: %s", prop, f.Key, f.Msg)
	}
}

// replayRegress runs every committed regression case of a property.
func replayRegress(t *testing.T, id string) {
	t.Helper()
	dir := "testdata/regress/" + id
	ents, err := os.ReadDir(dir)
	if err != nil {
		return
	}
	n := 0
	for _, e := range ents {
		if e.IsDir() {
			continue
		}
		_, f, err := hx.ReplayPath(dir + "/" + e.Name())
		if err != nil {
			t.Fatalf("REPLAY-ERROR %s: %v", e.Name(), err)
		}
		if f != nil {
			t.Fatalf("VIOLATION-CANDIDATE property=%s key=%s regress=%s: %s", id, f.Key, e.Name(), f.Msg)
		}
		n++
	}
	hx.Rec(id).Subspace(fmt.Sprintf("%d committed regression cases replayed", n))
}
