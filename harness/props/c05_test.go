package props

import (
	"bufio"
	"bytes"
	"encoding/json"
	"fmt"
	"io"
	"os"
	"path/filepath"
	"regexp"
	"runtime"
	"runtime/debug"
	"strconv"
	"strings"
	"sync"
	"sync/atomic"
	"testing"
	"time"

	gots "github.com/Comcast/gots/v2"
	"github.com/Comcast/gots/v2/ebp"
	"github.com/Comcast/gots/v2/packet"
	"github.com/Comcast/gots/v2/packet/adaptationfield"
	"github.com/Comcast/gots/v2/pes"
	"github.com/Comcast/gots/v2/psi"
	"github.com/Comcast/gots/v2/scte35"
	"pgregory.net/rapid"

	"verifharness/hx"
	"verifharness/ref"
)

// C05 — decoders are total: no panic, no hang, bounded memory, inputs untouched.

type CaseC05 struct {
	Target string  `json:"target"`
	Input  ref.Hex `json:"input"`
	Family string  `json:"family"` // well-formed, mutated, arbitrary, bigloop
	Arg    int     `json:"arg"`
	Aux    ref.Hex `json:"aux,omitempty"`
	Chunks []int   `json:"chunks,omitempty"`
}

var c05Targets = []string{"pkt-accessors", "pkt-af-getters", "pkt-modifiers", "frombytes", "psi-accessors", "pat", "pmt", "pmt-descriptor", "filter-pmt",
	"pes", "ebp", "scte35", "sync", "readpat", "readpmt", "accumulator", "iowriter"}

// ---------------------------------------------------------------------------
// watchdog: non-termination and memory are observed from inside the process

var (
	c05Once    sync.Once
	c05Running atomic.Value // *c05Run
)

type c05Run struct {
	c     CaseC05
	start time.Time
}

const (
	c05HangLimit = 20 * time.Second
	c05HeapLimit = 1 << 30
)

func c05Watchdog() {
	c05Once.Do(func() {
		go func() {
			var ms runtime.MemStats
			for {
				time.Sleep(500 * time.Millisecond)
				r, _ := c05Running.Load().(*c05Run)
				if r == nil {
					continue
				}
				var f *hx.Failure
				if d := time.Since(r.start); d > c05HangLimit {
					f = hx.Failf("hang:"+r.c.Target, "call did not return within %v on a %d-byte input (non-termination)", c05HangLimit, len(r.c.Input))
				} else {
					runtime.ReadMemStats(&ms)
					if ms.HeapAlloc > c05HeapLimit {
						f = hx.Failf("memory:"+r.c.Target, "heap grew to %d MiB while processing a %d-byte input", ms.HeapAlloc>>20, len(r.c.Input))
					}
				}
				if f != nil {
					if _, known := hx.IsKnown("C05", f.Key); !known {
						hx.DumpReplay("C05", "", r.c, f)
						fmt.Printf("VIOLATION-CANDIDATE property=C05 key=%s: %s\n", f.Key, f.Msg)
						hx.FlushAll()
						os.Exit(3)
					}
				}
			}
		}()
	})
}

// ---------------------------------------------------------------------------
// panic classification: innermost library frame + normalised statement text

var c05FrameRe = regexp.MustCompile(`^\s+(\S+\.go):(\d+)`)
var c05SrcCache sync.Map

func c05PanicKey(stack []byte) (key, where string) {
	lines := strings.Split(string(stack), "\n")
	for i := 0; i+1 < len(lines); i++ {
		fn := lines[i]
		if !strings.Contains(fn, "github.com/Comcast/gots/v2") || strings.HasPrefix(fn, "\t") || strings.HasPrefix(fn, " ") {
			continue
		}
		m := c05FrameRe.FindStringSubmatch(lines[i+1])
		if m == nil {
			continue
		}
		name := strings.TrimSpace(fn)
		if k := strings.LastIndex(name, "("); k > 0 {
			name = name[:k]
		}
		name = strings.TrimPrefix(strings.TrimSpace(name), "github.com/Comcast/gots/v2/")
		ln, _ := strconv.Atoi(m[2])
		stmt := c05SourceLine(m[1], ln)
		return "panic:" + name + ":" + stmt, fmt.Sprintf("%s:%d", filepath.Base(m[1]), ln)
	}
	return "panic:unknown-frame", ""
}

func c05SourceLine(file string, line int) string {
	var lines []string
	if v, ok := c05SrcCache.Load(file); ok {
		lines = v.([]string)
	} else {
		b, err := os.ReadFile(file)
		if err != nil {
			return "?"
		}
		lines = strings.Split(string(b), "\n")
		c05SrcCache.Store(file, lines)
	}
	if line < 1 || line > len(lines) {
		return "?"
	}
	return strings.Join(strings.Fields(lines[line-1]), "")
}

// c05Guard runs one library call sequence; a panic becomes a failure keyed by its site.
func c05Guard(target string, fn func() *hx.Failure) (f *hx.Failure) {
	defer func() {
		if r := recover(); r != nil {
			key, where := c05PanicKey(debug.Stack())
			f = hx.Failf(key, "%s panicked at %s: %v", target, where, r)
		}
	}()
	return fn()
}

// ---------------------------------------------------------------------------
// generators

func c05Mutate(t *rapid.T, b []byte) []byte {
	b = clone(b)
	n := rapid.IntRange(1, 3).Draw(t, "nmut")
	for i := 0; i < n; i++ {
		switch rapid.IntRange(0, 7).Draw(t, "mut") {
		case 0: // truncate
			if len(b) > 0 {
				b = b[:rapid.IntRange(0, len(b)-1).Draw(t, "cut")]
			}
		case 1, 2: // boundary constant at a position
			if len(b) > 0 {
				b[rapid.IntRange(0, len(b)-1).Draw(t, "pos")] = rapid.SampledFrom([]byte{0x00, 0xFF, 0x7F, 0x80, 0x0D, 0x47, 183, 184, 188, 1, 2, 0xFE, 0x40, 0x20, 0x10}).Draw(t, "const")
			}
		case 3: // +-1/2 on a byte (length fields off by a little)
			if len(b) > 0 {
				p := rapid.IntRange(0, len(b)-1).Draw(t, "pos2")
				b[p] += byte(rapid.SampledFrom([]int{1, 2, 255, 254}).Draw(t, "delta"))
			}
		case 4: // random byte
			if len(b) > 0 {
				b[rapid.IntRange(0, len(b)-1).Draw(t, "pos3")] = rapid.Byte().Draw(t, "rb")
			}
		case 5: // extend
			b = append(b, genBytes(t, 1, 24, "ext")...)
		case 6: // bit flip
			if len(b) > 0 {
				b[rapid.IntRange(0, len(b)-1).Draw(t, "pos4")] ^= 1 << uint(rapid.IntRange(0, 7).Draw(t, "bit"))
			}
		case 7: // drop a byte in the middle
			if len(b) > 1 {
				p := rapid.IntRange(0, len(b)-1).Draw(t, "pos5")
				b = append(b[:p:p], b[p+1:]...)
			}
		}
	}
	return b
}

func c05Family(t *rapid.T) string {
	return rapid.SampledFrom([]string{"well-formed", "mutated", "mutated", "mutated", "arbitrary"}).Draw(t, "family")
}

// c05Shape turns a well-formed instance into the requested family.
func c05Shape(t *rapid.T, fam string, wf []byte, maxArb int) []byte {
	switch fam {
	case "well-formed":
		return wf
	case "mutated":
		return c05Mutate(t, wf)
	}
	return genBytes(t, 0, maxArb, "arb")
}

func c05Packet(t *rapid.T, fam string) []byte {
	p := genWellFormedPacket(t, []int{1, 2, 3, 3}, 0)
	b := p.MustBytes()
	out := clone(b[:])
	switch fam {
	case "well-formed":
	case "mutated":
		switch rapid.IntRange(0, 4).Draw(t, "pkmut") {
		case 0:
			out[4] = byte(rapid.IntRange(0, 255).Draw(t, "aflen"))
		case 1:
			out[5] = rapid.Byte().Draw(t, "afflags")
		case 2:
			out[3] = out[3]&0xCF | byte(rapid.IntRange(0, 3).Draw(t, "afc"))<<4
		case 3:
			// a length byte of private data / extension somewhere in the field
			out[rapid.IntRange(6, 30).Draw(t, "lenpos")] = rapid.SampledFrom([]byte{0xFF, 0xB7, 0xB8, 0x80, 200, 170}).Draw(t, "lenval")
		default:
			m := c05Mutate(t, out)
			out = make([]byte, 188)
			copy(out, m)
		}
		if rapid.Bool().Draw(t, "pk-more") {
			out[4] = byte(rapid.IntRange(0, 255).Draw(t, "aflen2"))
			out[5] = rapid.Byte().Draw(t, "afflags2")
			out[3] |= 0x20
		}
	default:
		out = rapid.SliceOfN(rapid.Byte(), 188, 188).Draw(t, "rawpkt")
		if rapid.Bool().Draw(t, "sync") {
			out[0] = 0x47
		}
		if rapid.Bool().Draw(t, "force-af") {
			out[3] |= 0x20
			out[4] = byte(rapid.IntRange(0, 255).Draw(t, "aflen3"))
		}
	}
	return out
}

func c05Stream(t *rapid.T, fam string, pid int) []byte {
	// a plausible stream: PAT, PMT packets and others, then shaped
	pmt := genPMT(t, 0, 6)
	car := genCarrier(t, true)
	payload := car.Payload(pmt.Section())
	sizes := genSizes(t, len(payload), nil)
	pk, _ := ref.Packetise(payload, pid, 0, sizes)
	var s []byte
	pat := &ref.PAT{TSID: 1, Entries: []ref.PATEntry{{Program: 1, PID: pid}}}
	pp, _ := ref.Packetise(append([]byte{0}, pat.Section()...), 0, 0, []int{184})
	n0 := rapid.IntRange(0, 2).Draw(t, "lead")
	for i := 0; i < n0; i++ {
		s = append(s, genOtherPacket(t, pid)...)
	}
	if rapid.Bool().Draw(t, "with-pat") {
		b := pp[0].MustBytes()
		s = append(s, b[:]...)
	}
	for _, p := range pk {
		b := p.MustBytes()
		s = append(s, b[:]...)
	}
	switch fam {
	case "well-formed":
		return s
	case "mutated":
		m := c05Mutate(t, s)
		if rapid.Bool().Draw(t, "stream-more") {
			m = c05Mutate(t, m)
		}
		return m
	}
	out := genBytes(t, 0, 600, "rawstream")
	for j := 0; j+188 <= len(out); j += 188 {
		if rapid.Bool().Draw(t, "fix-sync") {
			out[j] = 0x47
			out[j+3] |= 0x10
			if rapid.Bool().Draw(t, "fix-pid") {
				out[j+1], out[j+2] = out[j+1]&0xE0|byte(pid>>8), byte(pid)
			}
		}
	}
	return out
}

func genC05(t *rapid.T) CaseC05 {
	c := CaseC05{Target: rapid.SampledFrom(c05Targets).Draw(t, "target")}
	c.Family = c05Family(t)
	c.Arg = rapid.IntRange(0, 1<<16).Draw(t, "arg")
	switch c.Target {
	case "pkt-accessors", "pkt-af-getters", "pkt-modifiers":
		c.Input = c05Packet(t, c.Family)
		if c.Target == "pkt-modifiers" {
			c.Aux = genBytes(t, 0, 200, "aux")
			if rapid.Bool().Draw(t, "aux-pkt") {
				c.Aux = c05Packet(t, c.Family)
			}
		}
	case "frombytes":
		c.Input = c05Shape(t, c.Family, c05Packet(t, "well-formed"), 400)
	case "psi-accessors", "pmt":
		pmt := genPMT(t, 0, 8)
		car := genCarrier(t, true)
		wf := car.Payload(pmt.Section())
		if c.Target == "psi-accessors" && rapid.Bool().Draw(t, "psi-scte") {
			sp := genSplice(t, true)
			wf = append([]byte{0}, sp.Encode()...)
		}
		c.Input = c05Shape(t, c.Family, wf, 300)
		if rapid.IntRange(0, 30).Draw(t, "many-tiny-sections") == 0 {
			// tens of thousands of three-byte sections behind one pointer_field (a zero-filled buffer is exactly that): time,
			// heap AND stack must stay within a small multiple of the input
			c.Family = "many-tiny-sections"
			tid := rapid.SampledFrom([]byte{0x00, 0x00, 0x02, 0x42, 0xFC}).Draw(t, "tiny-tid")
			n := rapid.SampledFrom([]int{64 << 10, 256 << 10, 256 << 10, 1 << 20}).Draw(t, "tiny-total")
			c.Input = make([]byte, 1, n+1)
			for len(c.Input)+3 <= n+1 {
				c.Input = append(c.Input, tid, 0x00, 0x00)
			}
		}
	case "pat":
		pat := ref.PAT{TSID: uint16(c.Arg)}
		n := rapid.IntRange(0, 8).Draw(t, "npat")
		for i := 0; i < n; i++ {
			pat.Entries = append(pat.Entries, ref.PATEntry{Program: uint16(i), PID: int(genBits(t, 13, "ppid"))})
		}
		wf := append([]byte{0}, pat.Section()...)
		if rapid.Bool().Draw(t, "pat-as-packet") {
			pk, _ := ref.Packetise(wf, 0, 0, []int{184})
			b := pk[0].MustBytes()
			wf = clone(b[:])
			if c.Family == "mutated" && rapid.Bool().Draw(t, "pat-pkt-hdr") {
				wf[3] = rapid.Byte().Draw(t, "pat-b3")
				wf[4] = rapid.Byte().Draw(t, "pat-b4")
			}
		}
		c.Input = c05Shape(t, c.Family, wf, 300)
		c.Aux = c05Packet(t, "arbitrary")
	case "pmt-descriptor":
		d := genDescriptor(t, 60)
		c.Arg = int(d.Tag)
		if rapid.Bool().Draw(t, "desc-tag-any") {
			c.Arg = int(rapid.SampledFrom([]byte{0x0A, 0x0E, 0x05, 0x7F, 0xB0, 0x52, 0xE9, 0xCC, 0x28, 0x97}).Draw(t, "desc-tag"))
		}
		c.Input = c05Shape(t, c.Family, d.Body, 40)
	case "filter-pmt", "readpmt", "accumulator", "readpat", "sync", "iowriter":
		pid := rapid.SampledFrom([]int{0x64, 0x100, 0, 0x1FFF}).Draw(t, "spid")
		if c.Target == "filter-pmt" && rapid.IntRange(0, 25).Draw(t, "bigfirst") == 0 {
			// more than 64 KiB on the PMT PID behind a tiny first section of another table: 16-bit offsets must not wrap
			c.Family = "bigfirst"
			c.Input = c05BigFirst(pid, rapid.SampledFrom([]byte{0x00, 0x42, 0xFF, 0x03}).Draw(t, "bf-tid"), rapid.IntRange(0, 6).Draw(t, "bf-slen"),
				rapid.IntRange(0, 2).Draw(t, "bf-fill"), rapid.SampledFrom([]int{355, 356, 357, 358, 360}).Draw(t, "bf-packets"))
			c.Arg = pid
			req := rapid.SampledFrom([][]int{{0}, {0, 0x1FFF}, {0x101}, {pid}, {0x101, 0}}).Draw(t, "bf-request")
			for _, v := range req {
				c.Aux = append(c.Aux, byte(v>>8), byte(v))
			}
			break
		}
		c.Input = c05Stream(t, c.Family, pid)
		c.Arg = pid
		n := rapid.IntRange(0, 4).Draw(t, "npids")
		for i := 0; i < n; i++ {
			v := int(genBits(t, 13, "fpid"))
			c.Aux = append(c.Aux, byte(v>>8), byte(v))
		}
		if rapid.Bool().Draw(t, "frag") {
			c.Chunks = rapid.SliceOfN(rapid.IntRange(1, 300), 1, 4).Draw(t, "chunks")
		}
	case "pes":
		p := genPES(t, 40)
		c.Input = c05Shape(t, c.Family, p.Bytes(), 60)
	case "ebp":
		cc := genC12(t)
		c.Input = c05Shape(t, c.Family, cc.EBP.Bytes(), 40)
		if c.Family != "well-formed" && rapid.IntRange(0, 3).Draw(t, "ebp-long") == 0 {
			// long inputs behind a valid tag: 8-bit index arithmetic must not wrap
			n := rapid.IntRange(200, 700).Draw(t, "ebp-long-len")
			fill := rapid.SampledFrom([]byte{0xFF, 0x80, 0x9C, 0xFE, 0x00, 0x7F}).Draw(t, "ebp-long-fill")
			in := append([]byte{rapid.SampledFrom([]byte{0xA9, 0xDF}).Draw(t, "ebp-long-tag")}, bytes.Repeat([]byte{fill}, n)...)
			k := rapid.IntRange(0, 3).Draw(t, "ebp-long-edits")
			for i := 0; i < k; i++ {
				in[rapid.IntRange(1, 12).Draw(t, "ebp-long-pos")] = rapid.Byte().Draw(t, "ebp-long-byte")
			}
			c.Input = in
		}
	case "scte35":
		if rapid.IntRange(0, 40).Draw(t, "bigloop") == 0 {
			c.Family = "bigloop"
			c.Input = c05BigLoop(rapid.IntRange(65270, 65535).Draw(t, "looplen"), rapid.IntRange(-3, 3).Draw(t, "short"), rapid.SampledFrom([]byte{0, 1, 254, 255, 2}).Draw(t, "dlen"))
			break
		}
		sp := genSplice(t, true)
		cut := false
		if c.Family != "well-formed" && rapid.IntRange(0, 3).Draw(t, "desc-cut") == 0 {
			// a segmentation descriptor whose body ends 1..6 bytes early (or carries 1..3 bytes too many) while
			// descriptor_length, descriptor_loop_length, section_length and CRC_32 are all consistent with it
			for i := range sp.Descs {
				if d := sp.Descs[i]; !d.Foreign && rapid.Bool().Draw(t, "desc-cut-this") {
					if rapid.Bool().Draw(t, "desc-cut-sub") {
						// the longest tail: sub-segment fields behind segments_expected
						d.Cancel, d.HasSub = false, true
						d.Type = rapid.SampledFrom([]byte{0x34, 0x36}).Draw(t, "desc-cut-type")
					}
					body := d.Bytes()[2:]
					k := rapid.SampledFrom([]int{1, 1, 2, 3, 4, 5, 6, -1, -2, -3}).Draw(t, "desc-cut-by")
					switch {
					case k > 0 && k <= len(body):
						body = body[:len(body)-k]
					case k < 0:
						body = append(clone(body), genBytes(t, -k, -k, "desc-extra")...)
					}
					if len(body) <= 255 {
						sp.Descs[i] = ref.SpliceDesc{Foreign: true, FTag: 0x02, FBody: body}
						cut = true
					}
				}
			}
		}
		wf := append([]byte{0}, sp.Encode()...)
		if cut {
			// used as built: every outer length and the CRC agree with the damaged descriptor
			c.Family = "mutated"
			c.Input = wf
			break
		}
		c.Input = c05Shape(t, c.Family, wf, 120)
		if c.Family == "mutated" && rapid.IntRange(0, 3).Draw(t, "force-mid") == 0 {
			// force a UPID type to MID with a drawn residual length: the classic "almost well-formed" signal
			if i := bytes.Index(c.Input, []byte("CUEI")); i >= 0 && i+12 < len(c.Input) {
				for j := i + 9; j+1 < len(c.Input) && j < i+40; j++ {
					if rapid.IntRange(0, 6).Draw(t, "mid-here") == 0 {
						c.Input[j] = 0x0D
						c.Input[j+1] = byte(rapid.IntRange(0, 40).Draw(t, "mid-len"))
						break
					}
				}
			}
		}
	}
	if c.Input == nil {
		c.Input = ref.Hex{}
	}
	return c
}

// c05BigFirst builds n payload-only packets on one PID whose concatenated payload is pointer_field 0, a
// first section of table tid with section_length slen, and then filler shaped like the body of a program
// map section: 0 = program header + 8-byte stream entries, 1 = all 0xFF, 2 = 5-byte stream entries without descriptors.
func c05BigFirst(pid int, tid byte, slen, fill, n int) []byte {
	payload := []byte{0x00, tid, 0x00, byte(slen)}
	switch fill {
	case 0:
		payload = append(payload, 0xFF, 0xFF, 0xFF, 0x00, 0x00, 0xFF, 0xFF, 0xF0, 0x04, 0x01, 0x02, 0x03, 0x04)
	case 2:
		payload = append(payload, 0x00, 0x01, 0xC1, 0x00, 0x00, 0xE1, 0x00, 0xF0, 0x00)
	}
	for len(payload) < n*184 {
		switch fill {
		case 0:
			payload = append(payload, 0x1B, 0xE1, 0x01, 0xF0, 0x03, 0x52, 0x01, 0x00)
		case 1:
			payload = append(payload, 0xFF)
		default:
			payload = append(payload, 0x0F, 0xE1, 0x01, 0xF0, 0x00)
		}
	}
	out := make([]byte, 0, n*188)
	for i := 0; i < n; i++ {
		h := []byte{0x47, byte(pid >> 8 & 0x1F), byte(pid), 0x10 | byte(i&15)}
		if i == 0 {
			h[1] |= 0x40
		}
		out = append(out, h...)
		out = append(out, payload[i*184:(i+1)*184]...)
	}
	return out
}

// c05BigLoop builds a splice_null section whose descriptor_loop_length is
// loopLen and whose descriptor loop is filled with foreign descriptors of
// body length dlen, the input ending `short` bytes before/after the announced end.
func c05BigLoop(loopLen, short int, dlen byte) []byte {
	b := []byte{0x00, 0xFC, 0x33, 0xFF, 0x00, 0, 0, 0, 0, 0, 0x00, 0xFF, 0xF0, 0x00, 0x00, byte(loopLen >> 8), byte(loopLen)}
	total := loopLen + short
	for n := 0; n < total; {
		b = append(b, 0x01, dlen)
		n += 2
		for k := 0; k < int(dlen) && n < total; k++ {
			b = append(b, 0xAA)
			n++
		}
	}
	return append(b, 1, 2, 3, 4)
}

// ---------------------------------------------------------------------------
// oracle

func c05Unchanged(what string, keep, in []byte) *hx.Failure {
	if !bytes.Equal(keep, in) {
		return hx.Failf("input-modified:"+what, "%s modified the caller's buffer at byte %d", what, firstDiff(keep, in))
	}
	return nil
}

func c05PokeDescriptor(d psi.PmtDescriptor) {
	d.Tag()
	d.Format()
	c05Printed(fmt.Sprintf("%v", d))
	d.IsIso639LanguageDescriptor()
	d.IsMaximumBitrateDescriptor()
	d.IsIFrameProfile()
	d.IsEBPDescriptor()
	d.DecodeMaximumBitRate()
	d.DecodeIso639LanguageCode()
	d.DecodeIso639AudioType()
	d.IsDolbyATMOS()
	d.IsDolbyVision()
	d.DecodeDolbyVisionCodec("hvc1")
	d.IsTTMLSubtitlingDescriptor()
	d.DecodeTTMLIso639LanguageCode()
	d.DecodeTTMLSubtitlePurpose()
	d.IsTTMLDescTagExtension()
}

// c05PrintPanic remembers the first printed text that carries fmt's marker for a panic inside a String
// or Format method (fmt recovers those, so the panic never reaches the harness' own recover).
var c05PrintPanic string

func c05Printed(s string) {
	if c05PrintPanic == "" && strings.Contains(s, "(PANIC=") {
		c05PrintPanic = s
	}
}

func c05PokePMT(p psi.PMT) {
	p.Pids()
	p.VersionNumber()
	p.CurrentNextIndicator()
	c05Printed(p.String())
	for _, es := range p.ElementaryStreams() {
		es.StreamType()
		es.StreamTypeDescription()
		es.IsStreamWherePresentationLagsEbp()
		es.IsAudioContent()
		es.IsVideoContent()
		es.IsSCTE35Content()
		es.IsID3Content()
		es.IsPrivateContent()
		es.ElementaryPid()
		es.MaxBitRate()
		es.IsTTMLSubtitling()
		c05Printed(fmt.Sprintf("%v", es))
		for _, d := range es.Descriptors() {
			c05PokeDescriptor(d)
		}
		p.PIDExists(es.ElementaryPid())
		p.IsPidForStreamWherePresentationLagsEbp(es.ElementaryPid())
	}
}

// c05ModifyPMT removes a stream from a decoded PMT and prints it again (not read-only: the caller's
// buffer is compared before this).
func c05ModifyPMT(p psi.PMT) {
	if pids := p.Pids(); len(pids) > 0 {
		p.RemoveElementaryStreams(pids[:1])
		c05Printed(p.String())
	}
}

func c05PokeSCTE(s scte35.SCTE35) {
	s.HasPTS()
	s.PTS()
	s.Tier()
	s.Command()
	s.AlignmentStuffing()
	s.Data()
	if ci := s.CommandInfo(); ci != nil {
		ci.CommandType()
		ci.HasPTS()
		ci.PTS()
		ci.Data()
		if in, ok := ci.(scte35.SpliceInsertCommand); ok {
			in.EventID()
			in.IsEventCanceled()
			in.IsOut()
			in.IsProgramSplice()
			in.HasDuration()
			in.SpliceImmediate()
			in.IsAutoReturn()
			in.Duration()
			in.UniqueProgramId()
			in.AvailNum()
			in.AvailsExpected()
			for _, c := range in.Components() {
				c.ComponentTag()
				c.HasPTS()
				c.PTS()
			}
		}
	}
	for _, d := range s.Descriptors() {
		d.SCTE35()
		d.EventID()
		d.IsEventCanceled()
		d.HasProgramSegmentation()
		d.HasDuration()
		d.Duration()
		d.IsDeliveryNotRestricted()
		d.IsWebDeliveryAllowed()
		d.HasNoRegionalBlackout()
		d.IsArchiveAllowed()
		d.DeviceRestrictions()
		for _, c := range d.Components() {
			c.ComponentTag()
			c.PTSOffset()
		}
		d.UPIDType()
		d.UPID()
		for _, m := range d.MID() {
			m.UPIDType()
			m.UPID()
		}
		d.TypeID()
		d.SegmentNumber()
		d.SegmentsExpected()
		d.HasSubSegments()
		d.SubSegmentNumber()
		d.SubSegmentsExpected()
		d.StreamSwitchSignalId()
		d.IsOut()
		d.IsIn()
		d.SegmentNum()
		d.Data()
	}
	c05Printed(s.String())
}

// c05ReencodeSCTE re-encodes a decoded signal (not a read-only operation: the caller's buffer is compared before it).
func c05ReencodeSCTE(s scte35.SCTE35) {
	enc := s.UpdateData()
	// what the library emits must be accepted again without panicking
	if again, err := scte35.NewSCTE35(append([]byte{0}, enc...)); err == nil {
		c05Printed(again.String())
	}
}

func c05PokeEBP(e ebp.EncoderBoundaryPoint) {
	e.SegmentFlag()
	e.FragmentFlag()
	e.TimeFlag()
	e.GroupingFlag()
	e.EBPTime()
	e.EBPSuccessReadTime()
	e.SapFlag()
	e.Sap()
	e.ExtensionFlag()
	e.EBPType()
	e.IsEmpty()
	e.StreamSyncSignal()
	if x, ok := e.(c12Comcast); ok {
		x.DiscontinuityFlag()
	}
	if x, ok := e.(c12CableLabs); ok {
		x.ConcealmentFlag()
		x.PartitionFlag()
	}
	d := e.Data()
	if len(d) > 0 {
		ebp.ReadEncoderBoundaryPoint(d)
	}
}

func c05Packets(stream []byte) []*packet.Packet {
	var out []*packet.Packet
	for j := 0; j+188 <= len(stream); j += 188 {
		var p packet.Packet
		copy(p[:], stream[j:])
		out = append(out, &p)
	}
	return out
}

type c05NullWriter struct{ n int }

func (w *c05NullWriter) WritePacket(p *packet.Packet) (int, error) { w.n++; return 188, nil }

// c05AllocBudget is the memory a call sequence on an n-byte input may allocate in total (not: retain):
// "a small multiple of the input size". Printing and re-encoding allocate a few hundred bytes per input
// byte at most for the decoders, and a few KiB per byte for printing and the state tracker (measured
// maxima are logged by TestC05_ZAllocSurvey); decoders have a much tighter budget of their own.
func c05AllocBudget(n int) uint64 { return 2<<20 + 16384*uint64(n) }

// c05DecodeBudget bounds what a DECODER alone may allocate for an n-byte input (decoded objects are a
// few times the size of their encoding; measured maxima stay below a quarter of this).
func c05DecodeBudget(n int) uint64 { return 64<<10 + 128*uint64(n) }

// c05Decode runs one decoder call and reports a failure if it allocates beyond the decode budget.
func c05Decode(what string, n int, fn func()) *hx.Failure {
	var m0, m1 runtime.MemStats
	runtime.ReadMemStats(&m0)
	fn()
	runtime.ReadMemStats(&m1)
	if used := m1.TotalAlloc - m0.TotalAlloc; used > c05DecodeBudget(n) {
		return hx.Failf("memory:decode:"+what, "%s allocated %d bytes while decoding a %d-byte input (budget: 64 KiB + 128 bytes per input byte)", what, used, n)
	}
	// goroutine stacks count as memory too (a decoder that recurses once per section needs a stack of tens of times the input
	// and dies of a stack overflow on a few MiB): the stack the call grew stays in use until the next collection shrinks it
	// (the constant is generous on purpose: a stack that an earlier, larger call had grown and the collector has since halved
	// grows back in one step of up to its former size, and that step is charged to whichever call crosses it)
	if m1.StackInuse > m0.StackInuse && m1.StackInuse-m0.StackInuse > 4<<20+8*uint64(n) {
		return hx.Failf("memory:stack:"+what, "%s grew the goroutine stacks by %d bytes while decoding a %d-byte input (budget: 4 MiB + 8 bytes per input byte)", what, m1.StackInuse-m0.StackInuse, n)
	}
	return nil
}

// c05Allocated is the exact number of bytes allocated by the process so far (ReadMemStats flushes the
// per-P caches; the cheaper runtime/metrics counter is only updated when a cache is refilled and
// attributes allocations to the wrong case).
func c05Allocated() uint64 {
	var ms runtime.MemStats
	runtime.ReadMemStats(&ms)
	return ms.TotalAlloc
}

// c05MaxRatio collects, per target, the largest allocation observed relative to the input size (survey only).
var c05MaxAlloc = map[string][2]uint64{}

func c05Run1(c CaseC05) *hx.Failure {
	in, spareIntact := withSpare(c.Input)
	defer func() { _ = spareIntact }()
	// the whole-sequence budget is checked on one case in eight (reading the exact counter stops the world);
	// the decoders' own budget is checked on every case
	sampled := os.Getenv("VERIF_C05_ALLOC_SURVEY") != ""
	var a0, used uint64
	if sampled {
		a0 = c05Allocated()
	}
	c05PrintPanic = ""
	f := c05Run2(c, in)
	if f == nil && c05PrintPanic != "" {
		i := strings.Index(c05PrintPanic, "(PANIC=")
		f = hx.Failf("panic-while-printing:"+c.Target, "%s: a String/Format method panicked while the object was printed (fmt swallowed it): ...%s", c.Target, head([]byte(c05PrintPanic[i:]), 160))
	}
	if sampled {
		used = c05Allocated() - a0
	}
	if os.Getenv("VERIF_C05_ALLOC_SURVEY") != "" {
		if m := c05MaxAlloc[c.Target]; used*uint64(m[1]+256) > m[0]*uint64(len(in)+256) || m[0] == 0 {
			c05MaxAlloc[c.Target] = [2]uint64{used, uint64(len(in))}
		}
	}
	if f != nil {
		return f
	}
	// (no budget for the whole call sequence: the statement bounds the decoders, for printing and re-encoding it
	// only excludes panics - and printing a signal with many components allocates quadratically today)
	_ = used
	if !spareIntact() {
		return hx.Failf("input-modified:spare-capacity:"+c.Target, "%s wrote into the spare capacity behind the caller's slice (append to a caller-owned slice)", c.Target)
	}
	return nil
}

func c05Run2(c CaseC05, in []byte) *hx.Failure {
	keep := clone(in)
	var pk packet.Packet
	copy(pk[:], in)
	pkKeep := pk
	switch c.Target {
	case "pkt-accessors":
		packet.PayloadUnitStartIndicator(&pk)
		packet.Pid(&pk)
		packet.ContainsPayload(&pk)
		packet.ContainsAdaptationField(&pk)
		packet.ContinuityCounter(&pk)
		packet.IsNull(&pk)
		packet.IsPat(&pk)
		packet.Payload(&pk)
		packet.PESHeader(&pk)
		packet.Header(&pk)
		packet.Equal(&pk, &pkKeep)
		packet.IncrementCC(&pk)
		packet.ZeroCC(&pk)
		pk.TransportErrorIndicator()
		pk.PayloadUnitStartIndicator()
		pk.TransportPriority()
		pk.PID()
		pk.TransportScramblingControl()
		pk.AdaptationFieldControl()
		pk.HasPayload()
		pk.HasAdaptationField()
		pk.ContinuityCounter()
		pk.IsNull()
		pk.IsPAT()
		pk.AdaptationField()
		pk.Payload()
		pk.CheckErrors()
		pes.AlignedPUSI(&pk)
		packet.CopyPackets([]*packet.Packet{&pk})
		if pk != pkKeep {
			return hx.Failf("input-modified:packet-accessors", "a read-only packet accessor modified the packet")
		}
	case "pkt-af-getters":
		adaptationfield.Length(&pk)
		adaptationfield.IsDiscontinuous(&pk)
		adaptationfield.IsRandomAccess(&pk)
		adaptationfield.IsESHigherPriority(&pk)
		adaptationfield.HasPCR(&pk)
		adaptationfield.HasOPCR(&pk)
		adaptationfield.HasSplicingPoint(&pk)
		adaptationfield.HasTransportPrivateData(&pk)
		adaptationfield.HasAdaptationFieldExtension(&pk)
		adaptationfield.PCR(&pk)
		adaptationfield.OPCR(&pk)
		adaptationfield.SpliceCountdown(&pk)
		adaptationfield.TransportPrivateData(&pk)
		if e, err := adaptationfield.EncoderBoundaryPoint(&pk); err == nil {
			if o, err := ebp.ReadEncoderBoundaryPoint(e); err == nil {
				c05PokeEBP(o)
			}
		}
		if af, err := pk.AdaptationField(); err == nil {
			af.Length()
			af.Discontinuity()
			af.RandomAccess()
			af.ElementaryStreamPriority()
			af.HasPCR()
			af.PCR()
			af.HasOPCR()
			af.OPCR()
			af.HasSplicingPoint()
			af.SpliceCountdown()
			af.HasTransportPrivateData()
			af.TransportPrivateData()
			af.HasAdaptationFieldExtension()
			af.AdaptationFieldExtension()
		}
		if pk != pkKeep {
			return hx.Failf("input-modified:af-getters", "a read-only adaptation-field getter modified the packet")
		}
	case "pkt-modifiers":
		op := c.Arg % 22
		v := c.Arg>>8&1 != 0
		switch op {
		case 0:
			pk.SetPayload(c.Aux)
		case 1:
			pk.SetAdaptationFieldControl(packet.AdaptationFieldControlOptions(c.Arg >> 8 & 3))
		case 2:
			var src packet.Packet
			copy(src[:], c.Aux)
			src[3] |= 0x20
			if saf, err := src.AdaptationField(); err == nil {
				pk.SetAdaptationField(saf)
			}
		case 3:
			packet.SetPayload(&pk, c.Aux)
		case 4:
			packet.WithPES(&pk, uint64(c.Arg))
		case 5:
			// in-range arguments: C05 quantifies over the arrays, not over arguments a caller must not pass
			pk.SetPID(c.Arg & 0x1FFF)
			pk.SetContinuityCounter(c.Arg & 15)
			pk.IncContinuityCounter()
			pk.SetTransportScramblingControl(packet.TransportScramblingControlOptions([]int{0, 2, 3}[c.Arg%3])) // not the reserved 01
		default:
			af, err := pk.AdaptationField()
			if err != nil {
				break
			}
			switch op {
			case 6:
				af.SetDiscontinuity(v)
			case 7:
				af.SetRandomAccess(v)
			case 8:
				af.SetElementaryStreamPriority(v)
			case 9:
				af.SetHasPCR(v)
			case 10:
				af.SetHasOPCR(v)
			case 11:
				af.SetHasSplicingPoint(v)
			case 12:
				af.SetHasTransportPrivateData(v)
			case 13:
				af.SetHasAdaptationFieldExtension(v)
			case 14:
				af.SetPCR(uint64(c.Arg) << 20)
			case 15:
				af.SetOPCR(uint64(c.Arg) << 20)
			case 16:
				af.SetSpliceCountdown(byte(c.Arg >> 8))
			case 17:
				af.SetTransportPrivateData(c.Aux)
			case 18:
				af.SetAdaptationFieldExtension(c.Aux)
			case 19:
				af.SetHasTransportPrivateData(true)
				af.SetTransportPrivateData(c.Aux)
				af.SetHasTransportPrivateData(false)
			case 20:
				af.SetHasAdaptationFieldExtension(true)
				af.SetAdaptationFieldExtension(c.Aux)
				af.SetHasPCR(true)
			case 21:
				af.SetHasPCR(!v)
				af.SetHasOPCR(v)
				af.SetHasSplicingPoint(true)
			}
		}
		// whatever the modifier left behind must still be readable
		packet.Payload(&pk)
		packet.Header(&pk)
		pk.Payload()
	case "frombytes":
		if p, err := packet.FromBytes(in); err == nil && p != nil {
			p.CheckErrors()
		}
		return c05Unchanged("FromBytes", keep, in)
	case "psi-accessors":
		psi.PointerField(in)
		psi.TableID(in)
		psi.SectionSyntaxIndicator(in)
		psi.PrivateIndicator(in)
		sl := psi.SectionLength(in)
		psi.TableHeaderFromBytes(in)
		psi.ExtractCRC(in)
		psi.CanBuildPMT(in, sl)
		psi.PmtAccumulatorDoneFunc(in)
		scte35.SCTE35AccumulatorDoneFunc(in)
		psi.NewPointerField(c.Arg % 200)
		return c05Unchanged("PSI accessors", keep, in)
	case "pat":
		var p psi.PAT
		var err error
		if f := c05Decode("NewPAT", len(in), func() { p, err = psi.NewPAT(in) }); f != nil {
			return f
		}
		if err == nil && p != nil {
			p.NumPrograms()
			p.ProgramMap()
			p.SPTSpmtPID()
			var q packet.Packet
			copy(q[:], c.Aux)
			psi.IsPMT(&q, p)
		}
		return c05Unchanged("NewPAT and its getters", keep, in)
	case "pmt":
		var p psi.PMT
		var err error
		if f := c05Decode("NewPMT", len(in), func() { p, err = psi.NewPMT(in) }); f != nil {
			return f
		}
		if err == nil && p != nil {
			c05PokePMT(p)
			if f := c05Unchanged("NewPMT and its getters", keep, in); f != nil {
				return f
			}
			c05ModifyPMT(p)
			return nil
		}
		return c05Unchanged("NewPMT and its getters", keep, in)
	case "pmt-descriptor":
		d := psi.NewPmtDescriptor(byte(c.Arg), in)
		c05PokeDescriptor(d)
		es := psi.NewPmtElementaryStream(byte(c.Arg>>3), 0x100, []psi.PmtDescriptor{d})
		es.MaxBitRate()
		es.IsTTMLSubtitling()
		c05Printed(fmt.Sprintf("%v", es))
		return c05Unchanged("descriptor decoders", keep, in)
	case "filter-pmt":
		pkts := c05Packets(in)
		var pids []int
		for i := 0; i+1 < len(c.Aux); i += 2 {
			pids = append(pids, int(c.Aux[i])<<8|int(c.Aux[i+1]))
		}
		if c.Arg%3 == 0 && len(pkts) > 0 {
			// ask for PIDs that exist, when the PMT parses
			var buf []byte
			for _, p := range pkts {
				if pl, err := packet.Payload(p); err == nil {
					buf = append(buf, pl...)
				}
			}
			if p, err := c05TryNewPMT(buf); err == nil && p != nil && len(p.Pids()) > 0 {
				pids = append(pids, p.Pids()[0])
			}
		}
		pidsKeep := append([]int{}, pids...)
		out, _ := psi.FilterPMTPacketsToPids(pkts, pids)
		if fmt.Sprint(pids) != fmt.Sprint(pidsKeep) {
			return hx.Failf("input-modified:filter-pmt-pids", "FilterPMTPacketsToPids rewrote the caller's PID list: %v -> %v", pidsKeep, pids)
		}
		for _, o := range out {
			if o != nil {
				packet.Payload(o)
			}
		}
		for i, p := range pkts {
			if !bytes.Equal(p[:], in[i*188:(i+1)*188]) {
				return hx.Failf("input-modified:filter-pmt", "FilterPMTPacketsToPids modified input packet %d", i)
			}
		}
	case "pes":
		var h pes.PESHeader
		var err error
		if f := c05Decode("NewPESHeader", len(in), func() { h, err = pes.NewPESHeader(in) }); f != nil {
			return f
		}
		if err == nil && h != nil {
			h.HasPTS()
			h.PTS()
			h.HasDTS()
			h.DTS()
			h.Data()
			h.StreamId()
			h.DataAligned()
			h.PacketStartCodePrefix()
			if f, ok := h.(interface{ Format() string }); ok {
				f.Format()
			}
		}
		pes.CheckLength(in, "x", c.Arg%20)
		if len(in) >= 5 {
			pes.ExtractTime(in)
			gots.ExtractTime(in)
		}
		if len(in) >= 6 {
			gots.ExtractPCR(in)
		}
		return c05Unchanged("NewPESHeader and its getters", keep, in)
	case "ebp":
		var e ebp.EncoderBoundaryPoint
		var err error
		if f := c05Decode("ReadEncoderBoundaryPoint", len(in), func() { e, err = ebp.ReadEncoderBoundaryPoint(in) }); f != nil {
			return f
		}
		if err == nil && e != nil {
			c05PokeEBP(e)
		}
		return c05Unchanged("ReadEncoderBoundaryPoint and its getters", keep, in)
	case "scte35":
		var s scte35.SCTE35
		var err error
		if f := c05Decode("NewSCTE35", len(in), func() { s, err = scte35.NewSCTE35(in) }); f != nil {
			return f
		}
		if err == nil && s != nil {
			c05PokeSCTE(s)
			// decoding, the getters and printing are read-only: the caller's buffer is as it was
			if f := c05Unchanged("NewSCTE35 and its getters", keep, in); f != nil {
				return f
			}
			c05ReencodeSCTE(s)
			return nil
		}
		return c05Unchanged("NewSCTE35 and its getters", keep, in)
	case "sync":
		r := bufio.NewReaderSize(&fragReader{data: clone(in), chunks: c.Chunks, failAfter: -1}, 16+c.Arg%64)
		if off, err := packet.Sync(r); err == nil && (off < 0 || off > int64(len(in))) {
			return hx.Failf("sync-offset-range", "Sync returned offset %d on a %d-byte stream", off, len(in))
		}
		packet.IsSynced(bufio.NewReader(bytes.NewReader(in)))
	case "readpat":
		r := &fragReader{data: clone(in), chunks: c.Chunks, failAfter: -1}
		if p, err := psi.ReadPAT(r); err == nil && p != nil {
			p.NumPrograms()
			p.ProgramMap()
			p.SPTSpmtPID()
		}
	case "readpmt":
		r := &fragReader{data: clone(in), chunks: c.Chunks, failAfter: -1}
		if p, err := psi.ReadPMT(r, c.Arg&0x1FFF); err == nil && p != nil {
			c05PokePMT(p)
			c05ModifyPMT(p)
		}
	case "accumulator":
		acc := packet.NewAccumulator(psi.PmtAccumulatorDoneFunc)
		for _, p := range c05Packets(in) {
			if packet.Pid(p) != c.Arg&0x1FFF {
				continue
			}
			_, err := acc.WritePacket(p)
			if err == gots.ErrAccumulatorDone {
				if pm, err := c05TryNewPMT(acc.Bytes()); err == nil && pm != nil {
					c05PokePMT(pm)
					c05ModifyPMT(pm)
				}
				scte35.NewSCTE35(acc.Bytes())
				acc.Reset()
			}
			acc.Bytes()
			acc.Packets()
		}
	case "iowriter":
		w := &c05NullWriter{}
		iw := packet.IOWriter(w)
		iw.Write(in)
		if !bytes.Equal(keep, in) {
			return hx.Failf("input-modified:iowriter", "IOWriter.Write modified the caller's slice")
		}
		fr := &fragReader{data: clone(in), chunks: c.Chunks, failAfter: -1}
		if c.Arg%4 == 0 {
			fr.failAfter, fr.ownErr = c.Arg%(len(in)+1), errC18Reader
		}
		if rf, ok := packet.IOWriter(&c05NullWriter{}).(io.ReaderFrom); ok {
			rf.ReadFrom(fr)
		}
	default:
		return hx.Failf("bad-case", "unknown target %q", c.Target)
	}
	return nil
}

// c05TryNewPMT isolates a nested NewPMT call so that its panic is attributed correctly.
func c05TryNewPMT(b []byte) (psi.PMT, error) { return psi.NewPMT(b) }

func checkC05(c CaseC05, x *hx.Ctx) *hx.Failure {
	c05Watchdog()
	x.Label("target=" + c.Target)
	x.Label("family=" + c.Family)
	x.NT(c.Family != "well-formed")
	c05Running.Store(&c05Run{c: c, start: time.Now()})
	defer c05Running.Store((*c05Run)(nil))
	return c05Guard(c.Target, func() *hx.Failure { return c05Run1(c) })
}

var propC05 = hx.Register(hx.Prop[CaseC05]{ID: "C05", Gen: genC05, Check: checkC05})

func c05Rule() {
	hx.Rec("C05").SetRule("cases: (entry-point group, input) over 17 groups: packet accessors / adaptation-field getters / modifiers on 188-byte arrays; FromBytes; PSI accessors; NewPAT, NewPMT (+ every getter, descriptor decoder, String, RemoveElementaryStreams), descriptor decoders directly, FilterPMTPacketsToPids; NewPESHeader; ReadEncoderBoundaryPoint; NewSCTE35 (+ every getter of signal/command/descriptors, String, then UpdateData and a re-decode of what it emits); Sync, ReadPAT, ReadPMT, accumulator, IOWriter.Write/ReadFrom over byte streams through fragmenting and failing readers. Inputs come from three families: well-formed instances from the reference builders; those instances mutated 1..3 times (truncate anywhere, boundary constants 0x00/0xFF/0x7F/0x80/0x0D/0x47/183/184/188 at any offset, +-1/2 on any byte, random byte, extension, bit flip, byte removal; for packets: af_len 0..255, flags byte, AFC, variable-field length bytes; for SCTE-35: UPID type forced to MID with any residual length, segmentation descriptors ending 1..6 bytes early or 1..3 late inside otherwise consistent lengths, and 65 KiB sections with descriptor_loop_length >= 65270 ending up to 3 bytes short/long; for the PMT filter: 355..360 packets (more than 64 KiB) on the PMT PID behind a first section of another table with section_length 0..6; for the PSI decoders: 64 KiB..1 MiB of three-byte sections behind one pointer_field); arbitrary bytes. Oracle: no panic (recovered, keyed by innermost library function + statement text), returns within 20 s and below 1 GiB heap (in-process watchdog), every decoder call (NewPAT, NewPMT, NewPESHeader, ReadEncoderBoundaryPoint, NewSCTE35) allocates at most 64 KiB + 128 bytes per input byte (exact TotalAlloc deltas; printing and re-encoding are only required not to panic) and grows the goroutine stacks by at most 4 MiB + 8 bytes per input byte (StackInuse deltas), read-only operations leave the caller's buffer byte-identical, objects returned without error survive all getters, printing and re-encoding. Non-trivial: input from the mutated, arbitrary, bigloop or bigfirst family; distinct by (target, input).",
		"a returned error is always acceptable",
		"the CLI main package is not driven in-process",
		"hang / heap thresholds (20 s, 1 GiB) are four to six orders of magnitude above the normal cost of a case; the decoders' allocation budget is 4x above the maximum measured on the repaired tree (TestC05_ZAllocSurvey)")
}

func TestC05(t *testing.T) {
	c05Rule()
	replayRegress(t, "C05")
	propC05.Run(t)
}

// TestC05Targeted runs every entry-point group on a fixed grid of hostile inputs.
func TestC05Targeted(t *testing.T) {
	c05Rule()
	if !hx.FirstShard() {
		t.Skip("enumeration runs on shard 0")
	}
	var inputs [][]byte
	inputs = append(inputs, []byte{}, []byte{0}, []byte{0xFF}, []byte{0x47}, []byte{0, 2}, []byte{0, 2, 0xB0}, []byte{0, 0xFC}, []byte{0xA9}, []byte{0xDF}, []byte{0xA9, 1}, []byte{0xDF, 5})
	for _, fill := range []byte{0x00, 0xFF, 0x47, 0x7F, 0x80, 0x0D, 0xB7, 0xB8} {
		for _, n := range []int{1, 2, 3, 4, 5, 6, 7, 8, 9, 12, 13, 14, 19, 20, 187, 188, 189, 376, 400} {
			inputs = append(inputs, bytes.Repeat([]byte{fill}, n))
		}
	}
	for aflen := 0; aflen < 256; aflen++ {
		for _, flags := range []byte{0x00, 0xFF, 0x1F, 0x02, 0x01, 0x03, 0x10} {
			p := bytes.Repeat([]byte{0xFF}, 188)
			p[0], p[1], p[2], p[3], p[4], p[5] = 0x47, 0x40, 0x64, 0x30, byte(aflen), flags
			inputs = append(inputs, p)
		}
	}
	// long constant fills behind each format's leading magic (index arithmetic wider than the input)
	for _, lead := range [][]byte{{0xA9}, {0xDF}, {0xDF, 0xFF, 0x45, 0x42, 0x50, 0x30}, {0x00, 0xFC}, {0x00, 0x02}, {0x00, 0x00}, {0x00, 0x00, 0x01, 0xE0}} {
		for _, fill := range []byte{0xFF, 0x80, 0x00, 0x7F, 0xFE} {
			for _, n := range []int{254, 255, 256, 257, 300, 700} {
				inputs = append(inputs, append(clone(lead), bytes.Repeat([]byte{fill}, n)...))
			}
		}
	}
	n := 0
	for _, target := range c05Targets {
		for i, in := range inputs {
			for _, arg := range []int{0, 0x100, 0x1FF, 0x64 << 8, i} {
				c := CaseC05{Target: target, Input: clone(in), Family: "arbitrary", Arg: arg, Aux: clone(in)}
				if f := propC05.EvalFast(c, hx.HashBytes([]byte(target), in, []byte{byte(arg), byte(arg >> 8)})); f != nil {
					t.Fatalf("VIOLATION-CANDIDATE property=C05 key=%s: %s", f.Key, f.Msg)
				}
				n++
			}
		}
	}
	hx.Rec("C05").Subspace(fmt.Sprintf("every entry-point group x %d hostile inputs (empty, 1-3 byte prefixes, constant fills of 19 lengths, 188-byte packets with every af_len 0..255 x 7 flag bytes) x 5 auxiliary arguments", len(inputs)))
}

func FuzzC05(f *testing.F) {
	c05Rule()
	f.Fuzz(propC05.Fuzz())
}

// FuzzC05Raw is a raw-bytes target: the first byte selects the entry-point
// group, the rest is the input ("any byte string").
func FuzzC05Raw(f *testing.F) {
	c05Rule()
	for i := range c05Targets {
		f.Add(append([]byte{byte(i)}, 0x00, 0xFC, 0x30, 0x11, 0, 0, 0, 0, 0, 0, 0, 0xFF, 0xF0, 0, 0, 0, 0, 1, 2, 3, 4))
		f.Add(append([]byte{byte(i)}, 0x47, 0x40, 0x64, 0x30, 0xB8, 0xFF, 0x0D, 0x7F, 0x80, 183, 184, 188))
	}
	f.Fuzz(func(t *testing.T, data []byte) {
		if len(data) == 0 {
			return
		}
		target := c05Targets[int(data[0])%len(c05Targets)]
		in := data[1:]
		arg := 0
		if len(in) >= 2 {
			arg = int(in[0])<<8 | int(in[1])
		}
		switch target {
		case "pkt-accessors", "pkt-af-getters", "pkt-modifiers":
			p := make([]byte, 188)
			copy(p, in)
			in = p
		}
		c := CaseC05{Target: target, Input: clone(in), Family: "arbitrary", Arg: arg, Aux: clone(in)}
		if f := propC05.Eval(c); f != nil {
			t.Fatalf("VIOLATION-CANDIDATE property=C05 key=%s: %s", f.Key, f.Msg)
		}
	})
}

// TestC05Survey (development aid, VERIF_C05_SURVEY=n cases): collects every
// distinct failure key instead of stopping at the first one.
func TestC05Survey(t *testing.T) {
	n := hx.EnvInt("VERIF_C05_SURVEY", 0)
	if n == 0 {
		t.Skip("survey mode off")
	}
	c05Watchdog()
	found := map[string]string{}
	count := map[string]int{}
	run := func(c CaseC05) {
		c05Running.Store(&c05Run{c: c, start: time.Now()})
		f := c05Guard(c.Target, func() *hx.Failure { return c05Run1(c) })
		c05Running.Store((*c05Run)(nil))
		if f != nil {
			k := c.Target + " :: " + f.Key
			count[k]++
			if _, ok := found[k]; !ok {
				found[k] = fmt.Sprintf("%s | input %x arg %d", f.Msg, head(c.Input, 48), c.Arg)
				if dir := os.Getenv("VERIF_C05_SURVEY_DIR"); dir != "" {
					b, _ := json.Marshal(c)
					rf := hx.ReplayFile{Property: "C05", Case: b, Key: f.Key, Failure: f.Msg}
					out, _ := json.MarshalIndent(rf, "", " ")
					os.MkdirAll(dir, 0o755)
					os.WriteFile(filepath.Join(dir, fmt.Sprintf("%03d-%s.json", len(found), c.Target)), out, 0o644)
				}
			}
		}
	}
	gen := rapid.Custom(genC05)
	for i := 0; i < n; i++ {
		run(gen.Example(i))
	}
	keys := []string{}
	for k := range found {
		keys = append(keys, k)
	}
	sortStrings(keys)
	for _, k := range keys {
		fmt.Printf("SURVEY %6d %s\n        %s\n", count[k], k, found[k])
	}
	fmt.Printf("SURVEY distinct=%d\n", len(keys))
}

func sortStrings(s []string) {
	for i := 1; i < len(s); i++ {
		for j := i; j > 0 && s[j] < s[j-1]; j-- {
			s[j], s[j-1] = s[j-1], s[j]
		}
	}
}

// TestC05AllocSurvey prints, per entry-point group, the largest allocation observed in this process
// relative to the input size (run with VERIF_C05_ALLOC_SURVEY=1 after the other C05 tests).
func TestC05_ZAllocSurvey(t *testing.T) {
	if os.Getenv("VERIF_C05_ALLOC_SURVEY") == "" {
		t.Skip("survey only")
	}
	for k, v := range c05MaxAlloc {
		t.Logf("%-28s max %8d bytes allocated for a %6d-byte input (%.0f per byte incl. 256 slack)", k, v[0], v[1], float64(v[0])/float64(v[1]+256))
	}
}
