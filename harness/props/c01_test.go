package props

import (
	"bytes"
	"fmt"
	"testing"

	"github.com/Comcast/gots/v2/packet"
	"pgregory.net/rapid"

	"verifharness/hx"
	"verifharness/ref"
)

// C01 — transport header getters/setters.
//
// Oracle: bit positions of ISO/IEC 13818-1 2.4.3.2 (ref.ParsePacket); setter
// effects are checked as "getter returns the value AND before XOR after is
// zero outside the field's mask", over all 188 bytes.

type CaseC01 struct {
	Pkt     ref.Hex `json:"pkt"` // 188 bytes, arbitrary
	PID     int     `json:"pid"`
	TSC     int     `json:"tsc"`
	CC      int     `json:"cc"`
	Flag    bool    `json:"flag"`
	FlipBit int     `json:"flip_bit"` // 0..1503
	Len     int     `json:"len"`      // slice length handed to FromBytes
	Lead    int     `json:"lead"`     // the packet bytes start at this offset of that slice (other framings embed the packet after a prefix)
}

func genC01(t *rapid.T) CaseC01 {
	var pkt []byte
	wellFormed := false
	switch rapid.IntRange(0, 8).Draw(t, "fill") {
	case 0:
		pkt = make([]byte, 188)
	case 1:
		pkt = make([]byte, 188)
		for i := range pkt {
			pkt[i] = 0xFF
		}
	case 2:
		p := packet.New()
		pkt = clone(p[:])
	case 3:
		p := packet.TestPatPacket
		pkt = clone(p[:])
	case 4:
		p := packet.TestPmtPacket
		pkt = clone(p[:])
	case 6:
		// an adaptation-field-only packet that is nothing but stuffing (af_len 183, no flags), on any PID:
		// what a multiplexer inserts to keep a PID's rate - it looks a little like a null packet and is none
		pkt = bytes.Repeat([]byte{0xFF}, 188)
		pid := int(genBits(t, 13, "stuffing-pid"))
		copy(pkt, []byte{0x47, byte(pid >> 8), byte(pid), 0x20 | byte(rapid.IntRange(0, 15).Draw(t, "stuffing-cc")), 183, 0x00})
		wellFormed = true
	case 5:
		// a well-formed packet whose payload may start like a PES packet, a PSI section or another packet
		b := genWellFormedPacket(t, []int{1, 1, 3}, 0).MustBytes()
		pkt = clone(b[:])
		wellFormed = true
	default:
		pkt = rapid.SliceOfN(rapid.Byte(), 188, 188).Draw(t, "pkt")
	}
	// header bytes get boundary-biased contents of their own
	if !wellFormed && rapid.Bool().Draw(t, "hdr") {
		pkt[0] = rapid.SampledFrom([]byte{0x47, 0x47, 0x46, 0x00, 0xFF}).Draw(t, "b0")
		pkt[1] = byte(genBits(t, 8, "b1"))
		pkt[2] = byte(genBits(t, 8, "b2"))
		pkt[3] = byte(genBits(t, 8, "b3"))
	}
	c := CaseC01{Pkt: pkt}
	c.PID = int(genBits(t, 13, "pid"))
	c.TSC = rapid.SampledFrom([]int{0, 2, 3}).Draw(t, "tsc") // 01 is reserved: not an in-range value to set
	c.CC = rapid.IntRange(0, 15).Draw(t, "cc")
	c.Flag = rapid.Bool().Draw(t, "flag")
	c.FlipBit = rapid.IntRange(0, 1503).Draw(t, "flip")
	switch rapid.IntRange(0, 3).Draw(t, "len-kind") {
	case 0:
		c.Len = 188
	case 1:
		// neighbours of 188 and the sizes of other packet framings (192 = 4-byte timestamp + packet, 204/208 = packet + FEC, 376 = two packets)
		c.Len = rapid.SampledFrom([]int{0, 1, 187, 189, 376, 4, 184, 192, 204, 208, 196}).Draw(t, "len-b")
	default:
		c.Len = rapid.IntRange(0, 400).Draw(t, "len")
	}
	if c.Len != 188 {
		c.Lead = rapid.SampledFrom([]int{0, 0, 4, 4, 1, 8, 16}).Draw(t, "lead")
	}
	return c
}

func pktOf(h ref.Hex) *packet.Packet {
	var p packet.Packet
	copy(p[:], h)
	return &p
}

// c01Diff returns "" when a and b differ only inside the masked bits of the listed bytes.
func c01Diff(a, b *packet.Packet, masks map[int]byte) string {
	for i := 0; i < 188; i++ {
		d := a[i] ^ b[i]
		if m, ok := masks[i]; ok {
			d &^= m
		}
		if d != 0 {
			return fmt.Sprintf("byte %d changed outside the field: %02x -> %02x", i, a[i], b[i])
		}
	}
	return ""
}

// c01Getters checks every getter of both accessor styles against the ISO bit positions.
func c01Getters(p *packet.Packet) *hx.Failure {
	b1, b2, b3 := p[1], p[2], p[3]
	tei, pusi, tp := b1&0x80 != 0, b1&0x40 != 0, b1&0x20 != 0
	pid := int(b1&0x1f)<<8 | int(b2)
	tsc, afc, cc := int(b3>>6), int(b3>>4)&3, int(b3&0xf)
	if p.TransportErrorIndicator() != tei {
		return hx.Failf("get-tei", "TransportErrorIndicator()=%v, header %02x %02x %02x", !tei, b1, b2, b3)
	}
	if p.PayloadUnitStartIndicator() != pusi || packet.PayloadUnitStartIndicator(p) != pusi {
		return hx.Failf("get-pusi", "PUSI method=%v func=%v want %v, header %02x %02x %02x", p.PayloadUnitStartIndicator(), packet.PayloadUnitStartIndicator(p), pusi, b1, b2, b3)
	}
	if p.TransportPriority() != tp {
		return hx.Failf("get-tp", "TransportPriority()=%v want %v, header %02x %02x %02x", !tp, tp, b1, b2, b3)
	}
	if p.PID() != pid || packet.Pid(p) != pid {
		return hx.Failf("get-pid", "PID method=%d func=%d want %d, header %02x %02x %02x", p.PID(), packet.Pid(p), pid, b1, b2, b3)
	}
	if int(p.TransportScramblingControl()) != tsc {
		return hx.Failf("get-tsc", "TransportScramblingControl()=%d want %d, byte3 %02x", p.TransportScramblingControl(), tsc, b3)
	}
	if int(p.AdaptationFieldControl()) != afc {
		return hx.Failf("get-afc", "AdaptationFieldControl()=%d want %d, byte3 %02x", p.AdaptationFieldControl(), afc, b3)
	}
	if p.HasPayload() != (afc&1 != 0) || packet.ContainsPayload(p) != (afc&1 != 0) {
		return hx.Failf("get-haspayload", "HasPayload=%v ContainsPayload=%v want %v, byte3 %02x", p.HasPayload(), packet.ContainsPayload(p), afc&1 != 0, b3)
	}
	if p.HasAdaptationField() != (afc&2 != 0) || packet.ContainsAdaptationField(p) != (afc&2 != 0) {
		return hx.Failf("get-hasaf", "HasAdaptationField=%v ContainsAdaptationField=%v want %v, byte3 %02x", p.HasAdaptationField(), packet.ContainsAdaptationField(p), afc&2 != 0, b3)
	}
	if p.ContinuityCounter() != cc || int(packet.ContinuityCounter(p)) != cc {
		return hx.Failf("get-cc", "ContinuityCounter method=%d func=%d want %d, byte3 %02x", p.ContinuityCounter(), packet.ContinuityCounter(p), cc, b3)
	}
	if p.IsNull() != (pid == 0x1fff) || packet.IsNull(p) != (pid == 0x1fff) {
		return hx.Failf("get-isnull", "IsNull method=%v func=%v pid=%#x", p.IsNull(), packet.IsNull(p), pid)
	}
	// PAT classification: the statement fixes that the two styles agree; PID 0 with payload is a PAT packet and another PID
	// is not - whether a PID-0 packet without payload counts is left open
	if p.IsPAT() != packet.IsPat(p) || (pid != 0 && p.IsPAT()) || (pid == 0 && afc&1 != 0 && !p.IsPAT()) {
		return hx.Failf("get-ispat", "IsPAT method=%v func=%v pid=%#x", p.IsPAT(), packet.IsPat(p), pid)
	}
	wantErr := p[0] != 0x47 || tsc == 1 || afc == 0
	if got := p.CheckErrors() != nil; got != wantErr {
		return hx.Failf("checkerrors", "CheckErrors()!=nil is %v want %v (sync %02x tsc %d afc %d)", got, wantErr, p[0], tsc, afc)
	}
	return nil
}

// one setter application: fresh copy, call, compare.
func c01Setter(orig *packet.Packet, name string, masks map[int]byte, set func(p *packet.Packet), get func(p *packet.Packet) bool) *hx.Failure {
	p := *orig
	set(&p)
	if !get(&p) {
		return hx.Failf("set-"+name, "%s: getter does not return the value set (header before %02x %02x %02x, after %02x %02x %02x)", name, orig[1], orig[2], orig[3], p[1], p[2], p[3])
	}
	if d := c01Diff(orig, &p, masks); d != "" {
		return hx.Failf("set-"+name+"-clobber", "%s: %s (header before %02x %02x %02x, after %02x %02x %02x)", name, d, orig[1], orig[2], orig[3], p[1], p[2], p[3])
	}
	return nil
}

func c01Setters(orig *packet.Packet, pid, tsc, cc int, flag bool) *hx.Failure {
	if f := c01Setter(orig, "tei", map[int]byte{1: 0x80}, func(p *packet.Packet) { p.SetTransportErrorIndicator(flag) }, func(p *packet.Packet) bool { return p.TransportErrorIndicator() == flag }); f != nil {
		return f
	}
	if f := c01Setter(orig, "pusi", map[int]byte{1: 0x40}, func(p *packet.Packet) { p.SetPayloadUnitStartIndicator(flag) }, func(p *packet.Packet) bool {
		return p.PayloadUnitStartIndicator() == flag && packet.PayloadUnitStartIndicator(p) == flag
	}); f != nil {
		return f
	}
	if f := c01Setter(orig, "tp", map[int]byte{1: 0x20}, func(p *packet.Packet) { p.SetTransportPriority(flag) }, func(p *packet.Packet) bool { return p.TransportPriority() == flag }); f != nil {
		return f
	}
	if f := c01Setter(orig, "pid", map[int]byte{1: 0x1f, 2: 0xff}, func(p *packet.Packet) { p.SetPID(pid) }, func(p *packet.Packet) bool { return p.PID() == pid && packet.Pid(p) == pid }); f != nil {
		return f
	}
	if tsc == 1 {
		tsc = 0 // the reserved value is not one a caller sets
	}
	if f := c01Setter(orig, "tsc", map[int]byte{3: 0xC0}, func(p *packet.Packet) {
		p.SetTransportScramblingControl(packet.TransportScramblingControlOptions(tsc))
	}, func(p *packet.Packet) bool { return int(p.TransportScramblingControl()) == tsc }); f != nil {
		return f
	}
	if f := c01Setter(orig, "cc", map[int]byte{3: 0x0F}, func(p *packet.Packet) { p.SetContinuityCounter(cc) }, func(p *packet.Packet) bool {
		return p.ContinuityCounter() == cc && int(packet.ContinuityCounter(p)) == cc
	}); f != nil {
		return f
	}
	return c01CC(orig, cc)
}

// continuity counter helpers, in-place and copy-returning.
func c01CC(orig *packet.Packet, cc int) *hx.Failure {
	old := int(orig[3] & 0xf)
	next := (old + 1) % 16
	if f := c01Setter(orig, "inc-cc", map[int]byte{3: 0x0F}, func(p *packet.Packet) { p.IncContinuityCounter() }, func(p *packet.Packet) bool {
		// the in-place increment takes no value and is not among the statement's setters; ISO lets the counter of a packet
		// without payload stand still and leaves that of a null packet undefined, so there both outcomes are accepted (the copy-returning helpers are checked below)
		return p.ContinuityCounter() == next || ((orig[3]&0x10 == 0 || packet.Pid(orig) == 0x1FFF) && p.ContinuityCounter() == old)
	}); f != nil {
		return f
	}
	if f := c01Setter(orig, "zero-cc", map[int]byte{3: 0x0F}, func(p *packet.Packet) { p.ZeroContinuityCounter() }, func(p *packet.Packet) bool { return p.ContinuityCounter() == 0 }); f != nil {
		return f
	}
	type cp struct {
		name string
		fn   func(p *packet.Packet) *packet.Packet
		want int
	}
	for _, h := range []cp{
		{"IncrementCC", packet.IncrementCC, next},
		{"ZeroCC", packet.ZeroCC, 0},
		{"SetCC", func(p *packet.Packet) *packet.Packet { return packet.SetCC(p, uint8(cc)) }, cc},
	} {
		arg := *orig
		out := h.fn(&arg)
		if out == nil {
			return hx.Failf("copy-cc-"+h.name, "%s returned nil", h.name)
		}
		if arg != *orig {
			return hx.Failf("copy-cc-"+h.name+"-mutates", "%s modified its argument (byte3 %02x -> %02x)", h.name, orig[3], arg[3])
		}
		if int(out[3]&0xf) != h.want {
			return hx.Failf("copy-cc-"+h.name, "%s: counter %d want %d (byte3 before %02x)", h.name, out[3]&0xf, h.want, orig[3])
		}
		if d := c01Diff(orig, out, map[int]byte{3: 0x0F}); d != "" {
			return hx.Failf("copy-cc-"+h.name+"-clobber", "%s: %s", h.name, d)
		}
	}
	return nil
}

func c01Equal(orig *packet.Packet, bit int) *hx.Failure {
	a, b := *orig, *orig
	if !packet.Equal(&a, &b) || !a.Equals(&b) || !b.Equals(&a) {
		return hx.Failf("equal-copy", "a packet and its copy compare unequal")
	}
	if !packet.Equal(&a, &a) || !a.Equals(&a) {
		return hx.Failf("equal-self", "a packet compares unequal to itself")
	}
	b[bit/8] ^= 1 << uint(bit%8)
	if packet.Equal(&a, &b) || a.Equals(&b) || b.Equals(&a) || packet.Equal(&b, &a) {
		return hx.Failf("equal-flip", "packets differing in bit %d of byte %d compare equal", bit%8, bit/8)
	}
	// the same difference pattern at several positions (would cancel in a folded/XOR-accumulated comparison)
	for _, stride := range []int{8, 16, 4, 1, 64} {
		c := *orig
		i := bit / 8
		j := (i + stride) % 188
		mask := byte(1) << uint(bit%8)
		if bit%3 == 0 {
			mask = 0xFF
		}
		c[i] ^= mask
		c[j] ^= mask
		if i != j && (packet.Equal(&a, &c) || a.Equals(&c) || c.Equals(&a)) {
			return hx.Failf("equal-multi", "packets differing in bytes %d and %d (same pattern %#02x) compare equal", i, j, mask)
		}
		k := (j + stride) % 188
		if k != i && k != j {
			c[k] ^= mask
			c[(k+stride)%188] ^= mask
			if packet.Equal(&a, &c) || c.Equals(&a) {
				return hx.Failf("equal-multi", "packets differing in four bytes (stride %d, same pattern %#02x) compare equal", stride, mask)
			}
		}
	}
	return nil
}

func c01FromBytes(pkt []byte, n, lead int) *hx.Failure {
	buf := make([]byte, n)
	for i := range buf {
		buf[i] = pkt[(i+188-lead%188)%188]
	}
	keep := clone(buf)
	p, err := packet.FromBytes(buf)
	if string(buf) != string(keep) {
		return hx.Failf("frombytes-mutates", "FromBytes modified its input")
	}
	if n != 188 {
		if p != nil || err == nil {
			return hx.Failf("frombytes-length", "FromBytes accepted a slice of %d bytes (packet=%v err=%v)", n, p != nil, err)
		}
		// which error is not fixed by the statement
		return nil
	}
	// 188 bytes: FromBytes may validate the packet (the statement does not say it does). If it reports an error
	// the packet must be one that validation rejects, and it may or may not hand the packet back with the error.
	tsc, afc := int(buf[3]>>6), int(buf[3]>>4)&3
	invalid := buf[0] != 0x47 || tsc == 1 || afc == 0
	if err != nil && !invalid {
		return hx.Failf("frombytes-validation", "FromBytes refused a valid 188-byte packet: %v (sync=%02x tsc=%d afc=%d)", err, buf[0], tsc, afc)
	}
	if err == nil && p == nil {
		return hx.Failf("frombytes-188", "FromBytes returned neither a packet nor an error for 188 bytes")
	}
	if p != nil && string(p[:]) != string(keep) {
		return hx.Failf("frombytes-188", "FromBytes packet differs from the input bytes")
	}
	return nil
}

func checkC01(c CaseC01, x *hx.Ctx) *hx.Failure {
	if len(c.Pkt) != 188 {
		return hx.Failf("bad-case", "packet must be 188 bytes")
	}
	orig := pktOf(c.Pkt)
	keep := *orig
	if f := c01Getters(orig); f != nil {
		return f
	}
	if *orig != keep {
		return hx.Failf("getter-mutates", "a getter modified the packet")
	}
	if f := c01Setters(orig, c.PID, c.TSC, c.CC, c.Flag); f != nil {
		return f
	}
	if f := c01Equal(orig, c.FlipBit); f != nil {
		return f
	}
	if f := c01FromBytes(c.Pkt, c.Len, c.Lead); f != nil {
		return f
	}
	// non-trivial: some header field differs from the value being set, or neighbour bits are set
	p, _ := ref.ParsePacket(keep)
	x.NT(p.PID != c.PID || p.TSC != c.TSC || p.CC != c.CC || p.TEI != c.Flag || keep[1]&0xE0 != 0 || keep[3]&0x30 != 0)
	x.LabelIf(c.Len != 188, "frombytes-wrong-length")
	x.LabelIf(keep[0] != 0x47, "bad-sync")
	x.LabelIf(p.TSC == 1, "tsc-reserved")
	x.LabelIf(p.AFC == 0, "afc-reserved")
	x.LabelIf(p.PID > 255, "pid>255")
	return nil
}

var propC01 = hx.Register(hx.Prop[CaseC01]{ID: "C01", Gen: genC01, Check: checkC01})

func c01Rule() {
	hx.Rec("C01").SetRule("rapid cases: a 188-byte packet (random / all-zero / all-one / null / the two bundled test packets / a well-formed packet whose payload may start like a PES packet with PTS, a PSI section or another packet; header bytes boundary-biased) with a PID, TSC, CC, flag value, a bit to flip and a slice length for FromBytes (neighbours of 188 and the sizes of other framings 192/196/204/208/376, the packet at offset 0/1/4/8/16 of the slice); every getter of both accessor styles, every header setter (getter returns value AND all 1504 bits outside the field unchanged), the in-place and copy-returning counter helpers, Equal/Equals/CopyPackets, CheckErrors and FromBytes are checked on each. Enumerated: all 2^24 states of header bytes 1-3 for the getters and CheckErrors (x sync byte good/bad); every setter over all states of the byte(s) it touches x all in-range values (PID: 65536 states x a value set in quick, x all 8192 values in thorough); all 1504 single-bit flips for equality; all lengths 0..400 and the 256x256 (byte0, byte3) grid for FromBytes/CheckErrors. Non-trivial: a field's current value differs from the value set or a neighbouring header bit is 1.",
		"setter arguments are in range (the statement says so; the reserved scrambling value 01 is not set); SetAdaptationFieldControl is C02's business", "FromBytes need not validate: only a spurious refusal of a valid packet, or neither packet nor error, is a violation; which error is returned for a wrong length is not asserted", "nil arguments of Equal and the CopyPackets helper are not asserted; copy-returning counter helpers are only required not to modify their argument")
}

func TestC01(t *testing.T) {
	c01Rule()
	replayRegress(t, "C01")
	propC01.Run(t)
}

func c01Fail(t *testing.T, c CaseC01) {
	t.Helper()
	if f := propC01.Eval(c); f != nil {
		t.Fatalf("VIOLATION-CANDIDATE property=C01 key=%s: %s", f.Key, f.Msg)
	}
	t.Fatalf("HARNESS-ERROR: enumerated failure did not reproduce through the case oracle: %+v", c)
}

func c01Fills() [][]byte {
	z := make([]byte, 188)
	o := make([]byte, 188)
	for i := range o {
		o[i] = 0xFF
	}
	m := make([]byte, 188)
	for i := range m {
		m[i] = byte(i*37 + 11)
	}
	v := make([]byte, 188) // a valid packet: sync byte, PID 0x100, payload only
	copy(v, []byte{0x47, 0x01, 0x00, 0x1A})
	for i := 4; i < 188; i++ {
		v[i] = byte(i)
	}
	st := bytes.Repeat([]byte{0xFF}, 188) // adaptation-field-only stuffing packet
	copy(st, []byte{0x47, 0x01, 0x00, 0x20, 183, 0x00})
	return [][]byte{z, o, m, v, st}
}

// TestC01ExhaustiveGetters: all 2^24 states of bytes 1-3, sync byte good and bad.
func TestC01ExhaustiveGetters(t *testing.T) {
	c01Rule()
	if !hx.FirstShard() {
		t.Skip("enumeration runs on shard 0")
	}
	fills := c01Fills()
	var n, nt int64
	for fi, fill := range fills[:2] {
		var p packet.Packet
		copy(p[:], fill)
		p[0] = []byte{0x47, 0x46}[fi]
		for h := 0; h < 1<<24; h++ {
			p[1], p[2], p[3] = byte(h>>16), byte(h>>8), byte(h)
			if f := c01Getters(&p); f != nil {
				c01Fail(t, CaseC01{Pkt: clone(p[:]), Len: 188})
			}
			n++
			if h&0xE03000 != 0 {
				nt++
			}
		}
	}
	hx.Rec("C01").Bulk(n, nt)
	hx.Rec("C01").Subspace("getters + CheckErrors: all 2^24 states of header bytes 1-3 x {sync 0x47 on zero fill, sync 0x46 on 0xFF fill}")
}

// TestC01ExhaustiveSetters: every setter over all states of the bytes it touches x all values.
func TestC01ExhaustiveSetters(t *testing.T) {
	c01Rule()
	fills := c01Fills()
	rec := hx.Rec("C01")
	var n, nt int64
	shard, nsh := hx.ShardIndex(), hx.NShards()
	if hx.FirstShard() {
		for _, fill := range fills {
			var p packet.Packet
			copy(p[:], fill)
			for b := 0; b < 256; b++ {
				// byte 1 flags and byte 3 fields
				for v := 0; v < 16; v++ {
					p[1], p[3] = byte(b), byte(b)
					if f := c01Setters(&p, (b<<5|v)&0x1fff, v&3, v, v&1 != 0); f != nil {
						c01Fail(t, CaseC01{Pkt: clone(p[:]), PID: (b<<5 | v) & 0x1fff, TSC: v & 3, CC: v, Flag: v&1 != 0, Len: 188})
					}
					n++
					nt++
				}
			}
		}
		rec.Subspace("flag/TSC/CC setters and counter helpers: all 256 states of the touched byte x all in-range values x 5 fills")
	}
	// PID: all 65536 states of bytes 1-2 x values
	var pidVals []int
	if hx.Thorough() {
		for v := 0; v < 8192; v++ {
			pidVals = append(pidVals, v)
		}
	} else {
		pidVals = []int{0, 1, 0xFF, 0x100, 0x1FFE, 0x1FFF, 0x0AAA, 0x1555}
		for k := 0; k < 13; k++ {
			pidVals = append(pidVals, 1<<uint(k))
		}
	}
	var p packet.Packet
	copy(p[:], fills[2])
	masks := map[int]byte{1: 0x1f, 2: 0xff}
	for s := 0; s < 65536; s++ {
		if s%nsh != shard {
			continue
		}
		p[1], p[2] = byte(s>>8), byte(s)
		for _, v := range pidVals {
			q := p
			q.SetPID(v)
			if q.PID() != v || packet.Pid(&q) != v || q[1]&0xE0 != p[1]&0xE0 || q[0] != p[0] || q[3] != p[3] {
				c01Fail(t, CaseC01{Pkt: clone(p[:]), PID: v, Len: 188})
			}
			n++
			if s&0x1fff != v {
				nt++
			}
		}
		// whole-packet comparison once per state
		if f := c01Setter(&p, "pid", masks, func(q *packet.Packet) { q.SetPID(pidVals[s%len(pidVals)]) }, func(q *packet.Packet) bool { return q.PID() == pidVals[s%len(pidVals)] }); f != nil {
			c01Fail(t, CaseC01{Pkt: clone(p[:]), PID: pidVals[s%len(pidVals)], Len: 188})
		}
	}
	rec.Bulk(n, nt)
	rec.Subspace(fmt.Sprintf("SetPID: all 65536 states of bytes 1-2 x %d PID values (thorough: all 8192)", len(pidVals)))
}

// TestC01ExhaustiveEqual: all 1504 single-bit differences; FromBytes lengths and validation grid.
func TestC01ExhaustiveEqual(t *testing.T) {
	c01Rule()
	if !hx.FirstShard() {
		t.Skip("enumeration runs on shard 0")
	}
	rec := hx.Rec("C01")
	var n int64
	for _, fill := range c01Fills() {
		var p packet.Packet
		copy(p[:], fill)
		for bit := 0; bit < 1504; bit++ {
			if f := c01Equal(&p, bit); f != nil {
				c01Fail(t, CaseC01{Pkt: clone(p[:]), FlipBit: bit, Len: 188})
			}
			n++
		}
		for l := 0; l <= 400; l++ {
			for _, lead := range []int{0, 4} {
				if l == 188 && lead != 0 {
					continue
				}
				if f := c01FromBytes(fill, l, lead); f != nil {
					c01Fail(t, CaseC01{Pkt: clone(fill), Len: l, Lead: lead})
				}
				n++
			}
		}
	}
	buf := make([]byte, 188)
	for b0 := 0; b0 < 256; b0++ {
		for b3 := 0; b3 < 256; b3++ {
			buf[0], buf[3] = byte(b0), byte(b3)
			if f := c01FromBytes(buf, 188, 0); f != nil {
				c01Fail(t, CaseC01{Pkt: clone(buf), Len: 188})
			}
			n++
		}
	}
	rec.Bulk(n, n)
	rec.Subspace("Equal/Equals: all 1504 single-bit differences x 5 fills; FromBytes: all lengths 0..400 x packet at offset 0 or 4 of the slice x 5 fills and all 65536 (byte0, byte3) pairs")
}

func FuzzC01(f *testing.F) {
	c01Rule()
	f.Fuzz(propC01.Fuzz())
}
