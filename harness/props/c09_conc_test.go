package props

import (
	"bytes"
	"fmt"
	"sync"
	"testing"

	"pgregory.net/rapid"

	"verifharness/hx"
	"verifharness/ref"
)

// C09 variant "concurrent": signals that share nothing are built and serialised by several goroutines at the same
// time. Each goroutine owns its signal, its descriptors and every slice it hands over, so whatever one goroutine does
// cannot be a reason for another's section to come out wrong - unless the library keeps package-level scratch state
// behind the encoder. (The statement does not speak of goroutines; like every Go package the library may be used on
// distinct values from distinct goroutines unless it says otherwise, and it does not.)
func c09ConcModel(w, i int) ref.Splice {
	m := ref.Splice{TableID: 0xFC, Tier: uint16(w*257+i) & 0xFFF, Cmd: 0x06, TSHasPTS: true, TSPTS: uint64(w)<<20 + uint64(i), Ins: ref.SpliceInsert{Comps: []ref.SpliceComp{}}}
	n := 1 + (w+i)%3
	for k := 0; k < n; k++ {
		d := ref.SpliceDesc{Identifier: ref.CUEI, Event: uint32(w<<16 | i<<4 | k), Prog: true, NotRestricted: true, Type: []byte{0x10, 0x30, 0x34, 0x40}[(w+k)%4],
			Num: byte(k), Expected: byte(n), UPIDType: 0x09, UPID: ref.Hex(fmt.Sprintf("goroutine-%d-signal-%d-descriptor-%d", w, i, k)), Comps: []ref.SegOffset{}, MID: []ref.SegUPID{}}
		if k%2 == 1 {
			d.Dur, d.Duration = true, uint64(w*1000+i)
		}
		m.Descs = append(m.Descs, d)
	}
	return m
}

func checkC09Conc(c CaseConc, x *hx.Ctx) *hx.Failure {
	x.NonTrivial()
	x.Label("concurrent-goroutines")
	errs := make(chan string, c.Workers)
	var wg sync.WaitGroup
	for w := 0; w < c.Workers; w++ {
		wg.Add(1)
		go func(w int) {
			defer wg.Done()
			defer func() {
				if r := recover(); r != nil {
					errs <- fmt.Sprintf("building / encoding panicked in goroutine %d: %v", w, r)
				}
			}()
			for i := 0; i < c.Iters; i++ {
				m := apiExpressible(c09ConcModel(w, i))
				sig := buildSpliceAPI(&m, 0)
				em := c09Normalise(m)
				em.Adj = m.Adj
				want := em.Encode()
				if got := sig.UpdateData(); !bytes.Equal(got, want) {
					errs <- fmt.Sprintf("UpdateData() of a signal built and owned by goroutine %d (iteration %d) differs from the canonical section at byte %d\n want %x\n got  %x", w, i, firstDiff(got, want), want, got)
					return
				}
			}
		}(w)
	}
	wg.Wait()
	close(errs)
	for e := range errs {
		return hx.Failf("concurrent-encode", "%s\n(%d other goroutines were building and encoding their own signals)", e, c.Workers-1)
	}
	return nil
}

var propC09Conc = hx.Register(hx.Prop[CaseConc]{ID: "C09", Variant: "concurrent",
	Gen:   func(t *rapid.T) CaseConc { return CaseConc{Workers: 8, Iters: 400} },
	Check: checkC09Conc})

func TestC09_Concurrent(t *testing.T) {
	c09Rule()
	if !hx.FirstShard() {
		t.Skip("runs on shard 0")
	}
	// single-goroutine first: the model itself must agree with the library
	if f := propC09Conc.Eval(CaseConc{Workers: 1, Iters: 50}); f != nil {
		t.Fatalf("VIOLATION-CANDIDATE property=C09 variant=concurrent key=%s: %s", f.Key, f.Msg)
	}
	for round := 0; round < 3; round++ {
		if f := propC09Conc.Eval(CaseConc{Workers: 8, Iters: 400 + round}); f != nil {
			t.Fatalf("VIOLATION-CANDIDATE property=C09 variant=concurrent key=%s: %s", f.Key, f.Msg)
		}
	}
	hx.Rec("C09").Subspace("3 rounds of 8 goroutines x 400 signals (time_signal + 1..3 segmentation descriptors), each built and encoded by its own goroutine, concurrently")
}
