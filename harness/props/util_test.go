package props

import (
	"pgregory.net/rapid"
)

// genBits draws an unsigned value of the given width with boundary bias:
// about half of the draws come from {0, 1, max, max-1, single bits, 2^k-1,
// values with the top bit set}, the rest are uniform.
func genBits(t *rapid.T, bits uint, label string) uint64 {
	max := uint64(1)<<bits - 1
	if bits >= 64 {
		max = ^uint64(0)
	}
	switch rapid.IntRange(0, 9).Draw(t, label+"-kind") {
	case 0:
		return 0
	case 1:
		return max
	case 2:
		k := uint(rapid.IntRange(0, int(bits)-1).Draw(t, label+"-bit"))
		return uint64(1) << k
	case 3:
		k := uint(rapid.IntRange(1, int(bits)).Draw(t, label+"-ones"))
		return (uint64(1)<<k - 1) & max
	case 4:
		// top bit set plus random lower part
		return (uint64(1) << (bits - 1)) | rapid.Uint64Range(0, max>>1).Draw(t, label+"-low")
	case 5:
		d := rapid.Uint64Range(0, 3).Draw(t, label+"-d")
		if d > max {
			d = max
		}
		return max - d
	default:
		return rapid.Uint64Range(0, max).Draw(t, label+"-u")
	}
}

// genBytes draws a byte slice of the given length range.
func genBytes(t *rapid.T, min, max int, label string) []byte {
	n := rapid.IntRange(min, max).Draw(t, label+"-len")
	switch rapid.IntRange(0, 5).Draw(t, label+"-fill") {
	case 0:
		return make([]byte, n)
	case 1:
		b := make([]byte, n)
		for i := range b {
			b[i] = 0xFF
		}
		return b
	default:
		b := rapid.SliceOfN(rapid.Byte(), n, n).Draw(t, label)
		if b == nil {
			b = []byte{}
		}
		return b
	}
}

func clone(b []byte) []byte {
	c := make([]byte, len(b))
	copy(c, b)
	return c
}

// withSpare returns a copy of b that sits at the start of a larger array:
// len(copy) == len(b) but cap(copy) > len(b), the spare capacity filled with a
// canary. A callee that appends to (or writes past) the caller's slice shows
// up as a damaged canary.
func withSpare(b []byte) (in []byte, spareIntact func() bool) {
	const spare = 24
	buf := make([]byte, len(b)+spare)
	copy(buf, b)
	for i := len(b); i < len(buf); i++ {
		buf[i] = 0xC5
	}
	return buf[:len(b)], func() bool {
		for i := len(b); i < len(buf); i++ {
			if buf[i] != 0xC5 {
				return false
			}
		}
		return true
	}
}
