package props

import (
	"bufio"
	"bytes"
	"io"

	"pgregory.net/rapid"

	"verifharness/ref"
)

// genBits draws an unsigned value of the given width with boundary bias:
// about half of the draws come from {0, 1, max, max-1, single bits, 2^k-1,
// values with the top bit set}, the rest are uniform.
func genBits(t *rapid.T, bits uint, label string) uint64 {
	max := uint64(1)<<bits - 1
	if bits >= 64 {
		max = ^uint64(0)
	}
	switch rapid.IntRange(0, 9).Draw(t, label+"-kind") {
	case 0:
		return 0
	case 1:
		return max
	case 2:
		k := uint(rapid.IntRange(0, int(bits)-1).Draw(t, label+"-bit"))
		return uint64(1) << k
	case 3:
		k := uint(rapid.IntRange(1, int(bits)).Draw(t, label+"-ones"))
		return (uint64(1)<<k - 1) & max
	case 4:
		// top bit set plus random lower part
		return (uint64(1) << (bits - 1)) | rapid.Uint64Range(0, max>>1).Draw(t, label+"-low")
	case 5:
		d := rapid.Uint64Range(0, 3).Draw(t, label+"-d")
		if d > max {
			d = max
		}
		return max - d
	default:
		return rapid.Uint64Range(0, max).Draw(t, label+"-u")
	}
}

// genBytes draws a byte slice of the given length range.
func genBytes(t *rapid.T, min, max int, label string) []byte {
	n := rapid.IntRange(min, max).Draw(t, label+"-len")
	switch rapid.IntRange(0, 5).Draw(t, label+"-fill") {
	case 0:
		return make([]byte, n)
	case 1:
		b := make([]byte, n)
		for i := range b {
			b[i] = 0xFF
		}
		return b
	default:
		b := rapid.SliceOfN(rapid.Byte(), n, n).Draw(t, label)
		if b == nil {
			b = []byte{}
		}
		return b
	}
}

func clone(b []byte) []byte {
	c := make([]byte, len(b))
	copy(c, b)
	return c
}

// withSpare returns a copy of b that sits at the start of a larger array:
// len(copy) == len(b) but cap(copy) > len(b), the spare capacity filled with a
// canary. A callee that appends to (or writes past) the caller's slice shows
// up as a damaged canary.
func withSpare(b []byte) (in []byte, spareIntact func() bool) {
	const spare = 24
	buf := make([]byte, len(b)+spare)
	copy(buf, b)
	for i := len(b); i < len(buf); i++ {
		buf[i] = 0xC5
	}
	return buf[:len(b)], func() bool {
		for i := len(b); i < len(buf); i++ {
			if buf[i] != 0xC5 {
				return false
			}
		}
		return true
	}
}

// genPayloadBytes draws n bytes meant to be carried as packet payload. One draw
// in three starts with content that means something to other layers of the
// library: a well-formed PES packet start (any scrambling bits and flags, with
// PTS or PTS+DTS), a PSI pointer_field + table header, a complete splice_info_section / PAT / PMT behind a pointer_field, or another transport
// packet header. Code that peeks into the payload where it should not is only
// reachable with such content.
func genPayloadBytes(t *rapid.T, n int, label string) []byte {
	b := genBytes(t, n, n, label)
	var shaped []byte
	switch rapid.IntRange(0, 8).Draw(t, label+"-shape") {
	case 0, 1:
		p := genPES(t, 4)
		if !ref.PESHasOptionalHeader(p.StreamID) {
			p.StreamID = rapid.SampledFrom([]byte{0xE0, 0xC0, 0xBD, 0xFD}).Draw(t, label+"-pes-id")
		}
		if p.PTSDTS == 0 {
			p.PTSDTS = 2
		}
		if p.Stuffing > 4 {
			p.Stuffing = rapid.IntRange(0, 4).Draw(t, label+"-pes-stuff")
		}
		shaped = p.Bytes()
	case 2:
		tid := rapid.SampledFrom([]byte{0x00, 0x02, 0xFC, 0x42}).Draw(t, label+"-tid")
		sl := rapid.IntRange(0, 0x3FF).Draw(t, label+"-sl")
		shaped = []byte{0x00, tid, 0xB0 | byte(sl>>8), byte(sl)}
	case 4:
		// a real section behind a pointer_field: splice_info_section, PAT or PMT (what PUSI packets on those PIDs carry)
		var sec []byte
		switch rapid.IntRange(0, 2).Draw(t, label+"-sec-kind") {
		case 0:
			sp := ref.Splice{TableID: 0xFC, Tier: 0xFFF, Cmd: 0x06, TSHasPTS: true, TSPTS: genBits(t, 33, label+"-sec-pts"), Descs: []ref.SpliceDesc{}}
			if rapid.Bool().Draw(t, label+"-sec-null") {
				sp.Cmd, sp.TSHasPTS = 0x00, false
			}
			sec = sp.Encode()
		case 1:
			pa := ref.PAT{TSID: 1, Version: 3, CurrentNext: true, Entries: []ref.PATEntry{{Program: 1, PID: 0x100}}}
			sec = pa.Section()
		default:
			sec = genPMT(t, 0, 2).Section()
		}
		ptr := rapid.SampledFrom([]int{0, 0, 0, 1, 5}).Draw(t, label+"-sec-ptr")
		shaped = append([]byte{byte(ptr)}, bytes.Repeat([]byte{0xFF}, ptr)...)
		shaped = append(shaped, sec...)
	case 3:
		pid := int(genBits(t, 13, label+"-inner-pid"))
		shaped = []byte{0x47, byte(pid >> 8), byte(pid), byte(rapid.IntRange(1, 3).Draw(t, label+"-inner-afc"))<<4 | byte(rapid.IntRange(0, 15).Draw(t, label+"-inner-cc"))}
	}
	copy(b, shaped)
	return b
}

// appendJunk appends to a slice the library returned to the caller: if the
// result has spare capacity this writes into it, which a caller may do with a
// slice it owns. Memory the library still uses (other results, internal state)
// must not sit there.
func appendJunk(b []byte) {
	if b == nil {
		return
	}
	_ = append(b, 0x5A, 0xA5, 0x5A, 0xA5, 0x5A, 0xA5, 0x5A, 0xA5, 0x5A, 0xA5, 0x5A, 0xA5, 0x5A, 0xA5, 0x5A, 0xA5)
}

// streamReader: kind 0 is a bytes.Reader over the stream; kinds 1..4 are bufio.Readers (16, 188, 256, 4096 bytes) over the
// stream followed by 30 more packets of another PID, so that a caller who reads on makes the buffer refill.
func streamReader(kind int, stream, other []byte) io.Reader {
	if kind == 0 {
		return bytes.NewReader(stream)
	}
	long := clone(stream)
	for i := 0; i < 30 && len(other) == 188; i++ {
		long = append(long, other...)
	}
	return bufio.NewReaderSize(bytes.NewReader(long), []int{16, 188, 256, 4096}[(kind-1)%4])
}

// readOn reads the rest of r in small pieces (through the buffer of a bufio.Reader, never around it).
func readOn(r io.Reader) {
	p := make([]byte, 7)
	for {
		if _, err := r.Read(p); err != nil {
			return
		}
	}
}
