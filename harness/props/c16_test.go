package props

import (
	"bufio"
	"bytes"
	"errors"
	"io"
	"runtime"
	"testing"

	gots "github.com/Comcast/gots/v2"
	"github.com/Comcast/gots/v2/packet"
	"pgregory.net/rapid"

	"verifharness/hx"
	"verifharness/ref"
)

// C16 — Sync search.

// fragReader delivers data in the given chunk sizes (cycled); when eofWithData
// is set the final chunk is returned together with io.EOF. failAfter >= 0
// makes it return ownErr once that many bytes were delivered.
type fragReader struct {
	data        []byte
	chunks      []int
	i           int
	eofWithData bool
	failAfter   int
	ownErr      error
	delivered   int
	errWithData bool // the failure is reported by the Read call that delivers the last bytes before it, together with them
	errOnce     bool // the failure is reported once; later Read calls go on delivering data (a timeout, not a dead source)
}

func (r *fragReader) Read(p []byte) (int, error) {
	if r.failAfter >= 0 && r.delivered >= r.failAfter {
		if r.errOnce {
			r.failAfter = -1
		}
		return 0, r.ownErr
	}
	if len(r.data) == 0 {
		return 0, io.EOF
	}
	n := len(p)
	if len(r.chunks) > 0 {
		c := r.chunks[r.i%len(r.chunks)]
		r.i++
		if c < n {
			n = c
		}
	}
	if n > len(r.data) {
		n = len(r.data)
	}
	if r.failAfter >= 0 && r.delivered+n > r.failAfter {
		n = r.failAfter - r.delivered
	}
	copy(p, r.data[:n])
	r.data = r.data[n:]
	r.delivered += n
	if r.errWithData && r.failAfter >= 0 && r.delivered == r.failAfter && n > 0 {
		if r.errOnce {
			r.failAfter = -1
		} else {
			r.failAfter = 0 // sticky from now on
			r.delivered = 0
			r.data = nil
		}
		return n, r.ownErr
	}
	if len(r.data) == 0 && r.eofWithData && n > 0 {
		return n, io.EOF
	}
	return n, nil
}

type CaseC16 struct {
	PadLen      int     `json:"pad_len"`  // non-sync filler bytes before Stream (long leading garbage)
	TailLen     int     `json:"tail_len"` // non-sync filler bytes after Stream
	Stream      ref.Hex `json:"stream"`
	BufSize     int     `json:"buf_size"`
	HugePad     int64   `json:"huge_pad,omitempty"` // thorough tier only: this many generated filler bytes, then a false and the true header
	Chunks      []int   `json:"chunks"`             // empty = whatever the caller asks for
	EOFWithData bool    `json:"eof_with_data"`
	Minimal     bool    `json:"minimal_scanner"` // hand Sync a PeekScanner that has only the three interface methods
}

// c16Minimal is a PeekScanner with nothing but the interface's methods (no
// Buffered, Discard, Read ...): Sync is specified against the interface.
type c16Minimal struct{ r *bufio.Reader }

func (m c16Minimal) ReadByte() (byte, error)    { return m.r.ReadByte() }
func (m c16Minimal) UnreadByte() error          { return m.r.UnreadByte() }
func (m c16Minimal) Peek(n int) ([]byte, error) { return m.r.Peek(n) }

func genC16Byte(t *rapid.T) byte {
	switch rapid.IntRange(0, 8).Draw(t, "bk") {
	case 0, 1, 2:
		return 0x47
	case 3:
		return rapid.SampledFrom([]byte{0x00, 0x10, 0x20, 0x30, 0x0F, 0x1F}).Draw(t, "afc-ish")
	case 4:
		return rapid.SampledFrom([]byte{0x00, 0x03, 0x04, 0x0F, 0x10, 0x1F, 0x40}).Draw(t, "pid-ish")
	default:
		return rapid.Byte().Draw(t, "b")
	}
}

func genC16(t *rapid.T) CaseC16 {
	var s []byte
	// garbage with false sync bytes
	ng := rapid.IntRange(0, 40).Draw(t, "garbage")
	for i := 0; i < ng; i++ {
		if rapid.IntRange(0, 3).Draw(t, "false-sync") == 0 {
			// 0x47 followed by a header that is not plausible
			if rapid.Bool().Draw(t, "afc0") {
				s = append(s, 0x47, rapid.Byte().Draw(t, "x1"), rapid.Byte().Draw(t, "x2"), rapid.Byte().Draw(t, "x3")&0xCF)
			} else {
				s = append(s, 0x47, rapid.Byte().Draw(t, "y1")&0xE0, byte(rapid.IntRange(4, 15).Draw(t, "rpid")), rapid.Byte().Draw(t, "y3")|0x10)
			}
		} else {
			s = append(s, genC16Byte(t))
		}
	}
	if rapid.IntRange(0, 3).Draw(t, "true-header") != 0 {
		pid := rapid.SampledFrom([]int{0, 1, 3, 16, 17, 0x100, 0x1FFF}).Draw(t, "tpid")
		s = append(s, 0x47, byte(pid>>8)|rapid.Byte().Draw(t, "hflags")&0xE0, byte(pid), byte(rapid.IntRange(1, 3).Draw(t, "afc"))<<4|rapid.Byte().Draw(t, "cc")&0xCF)
	}
	nt := rapid.IntRange(0, 60).Draw(t, "tail")
	for i := 0; i < nt; i++ {
		s = append(s, genC16Byte(t))
	}
	if len(s) > 0 && rapid.IntRange(0, 2).Draw(t, "cut") == 0 {
		s = s[:rapid.IntRange(0, len(s)).Draw(t, "cut-at")]
	}
	grid := rapid.IntRange(0, 7).Draw(t, "packet-grid") == 0
	if grid {
		// a real packet grid: 5..9 whole packets at a 188-byte stride, the first 1..3 of them with a header that is
		// not plausible (reserved AFC or reserved PID), optionally behind a few garbage bytes
		s = s[:0]
		for g := rapid.IntRange(0, 5).Draw(t, "grid-lead"); g > 0; g-- {
			s = append(s, genC16Byte(t))
		}
		np := rapid.IntRange(5, 9).Draw(t, "grid-packets")
		bad := rapid.IntRange(1, 3).Draw(t, "grid-bad")
		for k := 0; k < np; k++ {
			pkt := make([]byte, 188)
			for i := range pkt {
				pkt[i] = byte(0x60 + (i+k)%0x20)
			}
			pid := rapid.SampledFrom([]int{0x100, 0x101, 0x1FFF, 0x20}).Draw(t, "grid-pid")
			pkt[0], pkt[1], pkt[2], pkt[3] = 0x47, byte(pid>>8), byte(pid), 0x10|byte(k&15)
			if k < bad {
				if rapid.Bool().Draw(t, "grid-bad-afc") {
					pkt[3] &^= 0x30
				} else {
					pkt[1], pkt[2] = 0, byte(rapid.IntRange(4, 15).Draw(t, "grid-bad-pid"))
				}
			}
			s = append(s, pkt...)
		}
	}
	c := CaseC16{Stream: s}
	if c.Stream == nil {
		c.Stream = ref.Hex{}
	}
	c.BufSize = rapid.SampledFrom([]int{16, 17, 64, 4096}).Draw(t, "bufsize")
	switch rapid.IntRange(0, 2).Draw(t, "frag") {
	case 0:
		c.Chunks = []int{1}
	case 1:
		c.Chunks = rapid.SliceOfN(rapid.IntRange(1, 9), 1, 5).Draw(t, "chunks")
	}
	c.EOFWithData = rapid.Bool().Draw(t, "eof-with-data")
	if grid && rapid.Bool().Draw(t, "grid-bulk") {
		c.BufSize, c.Chunks = 4096, nil
	}
	c.Minimal = rapid.IntRange(0, 2).Draw(t, "minimal-scanner") == 0
	switch lk := rapid.IntRange(0, 399).Draw(t, "long-kind"); {
	case lk < 60:
		// leading garbage that ends around a multiple of the reader's buffer size, more than a buffer of data behind
		k := rapid.IntRange(1, 2).Draw(t, "pad-bufs")
		c.PadLen = k*c.BufSize + rapid.IntRange(-12, 4).Draw(t, "pad-delta")
		if c.PadLen < 0 {
			c.PadLen = 0
		}
		c.TailLen = c.BufSize + rapid.IntRange(0, 300).Draw(t, "tail-len")
		if rapid.Bool().Draw(t, "bulk") {
			c.Chunks = nil
		}
	case lk == 60:
		c.PadLen = rapid.SampledFrom([]int{70000, 300000, 1000000, 1200000}).Draw(t, "pad-huge")
		c.Chunks = nil
	}
	return c
}

// c16Bytes assembles the stream: filler (never a sync byte) ++ Stream ++ filler.
func c16Bytes(c CaseC16) []byte {
	s := make([]byte, 0, c.PadLen+len(c.Stream)+c.TailLen)
	for i := 0; i < c.PadLen; i++ {
		s = append(s, byte(0x80+i%0x47))
	}
	s = append(s, c.Stream...)
	for i := 0; i < c.TailLen; i++ {
		s = append(s, byte(0x90+i%0x37))
	}
	return s
}

// c16Plausible is the statement's header predicate at position i.
func c16Plausible(s []byte, i int) bool {
	if i+4 > len(s) || s[i] != 0x47 {
		return false
	}
	afc := (s[i+3] >> 4) & 3
	pid := int(s[i+1]&0x1f)<<8 | int(s[i+2])
	return afc != 0 && !(pid >= 4 && pid <= 15)
}

// c16Long yields n filler bytes (never a sync byte) followed by tail, without holding them in memory.
type c16Long struct {
	n, i int64
	tail []byte
}

func (r *c16Long) Read(p []byte) (int, error) {
	if r.i >= r.n+int64(len(r.tail)) {
		return 0, io.EOF
	}
	k := 0
	for k < len(p) && r.i < r.n {
		p[k] = byte(0x80 + r.i%0x47)
		k++
		r.i++
	}
	for k < len(p) && r.i < r.n+int64(len(r.tail)) {
		p[k] = r.tail[r.i-r.n]
		k++
		r.i++
	}
	return k, nil
}

// c16Huge: the first plausible header lies HugePad bytes into the stream (more than a 32-bit int can count).
func c16Huge(c CaseC16, x *hx.Ctx) *hx.Failure {
	x.NonTrivial()
	x.Label("offset-beyond-2^31")
	tail := append([]byte{0x47, 0x00, 0x08, 0x10, 0x47, 0x01, 0x00, 0x10}, bytes.Repeat([]byte{0xAB}, 184)...) // a reserved-PID false header, then the true one
	r := bufio.NewReaderSize(&c16Long{n: c.HugePad, tail: tail}, c.BufSize)
	off, err := packet.Sync(r)
	if err != nil {
		return hx.Failf("sync-missed", "Sync returned error %v, first plausible header is at %d", err, c.HugePad+4)
	}
	if off != c.HugePad+4 {
		return hx.Failf("sync-offset", "Sync returned offset %d, first plausible header is at %d", off, c.HugePad+4)
	}
	rest, _ := io.ReadAll(r)
	if !bytes.Equal(rest, tail[4:]) {
		return hx.Failf("sync-position", "after Sync at offset %d the reader does not deliver the packet", off)
	}
	return nil
}

func checkC16(c CaseC16, x *hx.Ctx) *hx.Failure {
	if c.HugePad > 0 {
		return c16Huge(c, x)
	}
	s := c16Bytes(c)
	want := -1
	falseSyncs := 0
	cutHeader := false
	for i := range s {
		if c16Plausible(s, i) {
			want = i
			break
		}
		if s[i] == 0x47 {
			if i+4 > len(s) {
				cutHeader = true
			} else {
				falseSyncs++
			}
		}
	}
	x.NT(falseSyncs > 0 || cutHeader)
	x.LabelIf(falseSyncs > 0 && want >= 0, "false-sync-before-true-header")
	x.LabelIf(cutHeader, "header-cut-by-eof")
	x.LabelIf(want < 0, "no-sync")
	x.LabelIf(want == 0, "sync-at-0")
	x.LabelIf(len(c.Chunks) > 0, "fragmenting-reader")
	x.LabelIf(c.PadLen > 0, "long-leading-garbage")
	x.LabelIf(c.PadLen >= 70000, "leading-garbage>=70000")

	src := &fragReader{data: clone(s), chunks: c.Chunks, eofWithData: c.EOFWithData, failAfter: -1}
	r := bufio.NewReaderSize(src, c.BufSize)
	var off int64
	var err error
	if c.Minimal {
		x.Label("minimal-peekscanner")
		off, err = packet.Sync(c16Minimal{r})
	} else {
		off, err = packet.Sync(r)
	}
	if want < 0 {
		if !errors.Is(err, gots.ErrSyncByteNotFound) {
			return hx.Failf("sync-notfound", "no plausible header in the stream but Sync returned (%d, %v), want ErrSyncByteNotFound; stream %x (pad %d)", off, err, head(c.Stream, 64), c.PadLen)
		}
		return nil
	}
	if err != nil {
		return hx.Failf("sync-missed", "Sync returned error %v, first plausible header is at %d (%d false sync bytes before it); stream part %x (pad %d, buffer %d)", err, want, falseSyncs, head(c.Stream, 64), c.PadLen, c.BufSize)
	}
	rest, rerr := io.ReadAll(r)
	if rerr != nil {
		return hx.Failf("harness-reader", "reading the rest failed: %v", rerr)
	}
	if !bytes.Equal(rest, s[want:]) {
		pos := len(s) - len(rest)
		return hx.Failf("sync-position", "after Sync the reader is at stream position %d, first plausible header is at %d; stream part %x (pad %d, buffer %d)", pos, want, head(c.Stream, 64), c.PadLen, c.BufSize)
	}
	if off != int64(want) {
		return hx.Failf("sync-offset", "Sync returned offset %d, first plausible header is at %d (%d false sync bytes before it); stream part %x (pad %d, buffer %d)", off, want, falseSyncs, head(c.Stream, 64), c.PadLen, c.BufSize)
	}
	return nil
}

var propC16 = hx.Register(hx.Prop[CaseC16]{ID: "C16", Gen: genC16, Check: checkC16})

func c16Rule() {
	hx.Rec("C16").SetRule("cases: byte streams of 0..~230 bytes built as garbage over a skewed alphabet (one third 0x47, AFC-bearing and PID-range bytes) with constructed false sync bytes (0x47 + AFC 00 header, 0x47 + PID 4..15 header) ++ optional true header ++ tail, optionally cut anywhere (headers cut by EOF); one case in eight is a grid of 5..9 whole packets at a 188-byte stride whose first 1..3 headers are not plausible; read through bufio.NewReaderSize(16|17|64|4096) over a source that fragments (1 byte at a time / drawn chunk sizes / unfragmented) and may return data together with EOF; one case in three hands Sync a PeekScanner that has only ReadByte/UnreadByte/Peek. Oracle: reference scan for the least position satisfying the statement's predicate; offset, error and the bytes remaining in the reader are compared. Enumerated: every placement of a true header after k in 0..6 false sync bytes of both kinds with 0..3 filler bytes. Non-trivial: >= 1 false sync byte before the answer, or a header cut by end of stream.")
}

func TestC16(t *testing.T) {
	c16Rule()
	replayRegress(t, "C16")
	propC16.Run(t)
}

func TestC16Exhaustive(t *testing.T) {
	c16Rule()
	if !hx.FirstShard() {
		t.Skip("enumeration runs on shard 0")
	}
	falseA := []byte{0x47, 0x12, 0x34, 0x0F} // AFC 00
	falseB := []byte{0x47, 0x00, 0x08, 0x10} // PID 8
	trueH := []byte{0x47, 0x01, 0x00, 0x10, 0xAA, 0xBB}
	for k := 0; k <= 6; k++ {
		for pattern := 0; pattern < 1<<uint(k); pattern++ {
			for filler := 0; filler <= 3; filler++ {
				for _, withTrue := range []bool{true, false} {
					var s []byte
					for j := 0; j < k; j++ {
						if pattern&(1<<uint(j)) != 0 {
							s = append(s, falseA...)
						} else {
							s = append(s, falseB...)
						}
						for f := 0; f < filler; f++ {
							s = append(s, byte(0x50+f))
						}
					}
					if withTrue {
						s = append(s, trueH...)
					}
					for _, bs := range []int{16, 4096} {
						for _, ch := range [][]int{nil, {1}, {3, 5}} {
							for _, minimal := range []bool{false, true} {
								c := CaseC16{Stream: s, BufSize: bs, Chunks: ch, EOFWithData: filler%2 == 0, Minimal: minimal}
								mb := byte(0)
								if minimal {
									mb = 1
								}
								if f := propC16.EvalFast(c, hx.HashBytes(s, []byte{byte(bs), byte(len(ch)), byte(filler), mb})); f != nil {
									t.Fatalf("VIOLATION-CANDIDATE property=C16 key=%s: %s", f.Key, f.Msg)
								}
							}
						}
					}
				}
			}
		}
	}
	hx.Rec("C16").Subspace("k in 0..6 false sync bytes (every mix of AFC-00 and reserved-PID kinds) x 0..3 filler bytes x {true header follows, nothing follows} x 2 buffer sizes x 3 fragmentations x {*bufio.Reader, minimal PeekScanner}")
}

// TestC16Huge: offsets that do not fit a 32-bit int or a uint32 (generated filler of 2 and 4 GiB; thorough tier, shard 0 and the 386 pass).
func TestC16Huge(t *testing.T) {
	c16Rule()
	if !hx.Thorough() || !(hx.FirstShard() || runtime.GOARCH == "386") {
		t.Skip("thorough tier: shard 0 and the 32-bit pass")
	}
	for _, pad := range []int64{1<<31 - 2, 1<<31 + 1000, 1<<32 + 1<<20 + 7} {
		c := CaseC16{HugePad: pad, BufSize: 1 << 16}
		if f := propC16.EvalFast(c, hx.HashInts(uint64(pad), 16)); f != nil {
			t.Fatalf("VIOLATION-CANDIDATE property=C16 key=%s: %s", f.Key, f.Msg)
		}
	}
	hx.Rec("C16").Subspace("three streams whose first plausible header lies 2^31-2+4, 2^31+1000+4 and 2^32+2^20+7+4 bytes in (generated filler, nothing held in memory)")
}

func FuzzC16(f *testing.F) {
	c16Rule()
	f.Fuzz(propC16.Fuzz())
}
