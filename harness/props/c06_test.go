package props

import (
	"bytes"
	"fmt"
	"testing"

	"github.com/Comcast/gots/v2/psi"
	"pgregory.net/rapid"

	"verifharness/hx"
	"verifharness/ref"
)

// C06 — PMT decoding independent of packetisation.

type CaseC06 struct {
	PMT     ref.PMT     `json:"pmt"`
	Carrier ref.Carrier `json:"carrier"`
	PID     int         `json:"pid"`
	CC      int         `json:"cc"`
	Sizes   []int       `json:"sizes"`  // payload bytes per PMT packet
	Others  []int       `json:"others"` // number of other-PID packets before packet i (len = len(Sizes))
	OtherB  ref.Hex     `json:"other_pkt"`
	// Jump: at PMT packet number Jump (>= 1, one that has an adaptation field with a flags byte) the continuity
	// counter jumps by JumpBy and the packet announces it with the discontinuity_indicator. No longer generated:
	// the statement carries the section in "consecutive packets", and a reader that abandons a partly collected
	// section at a continuity break (as demultiplexers do) conforms; the fields remain for old replay files.
	// Rd: the reader ReadPMT reads from (see streamReader): 0 bytes.Reader, 1.. bufio.Readers the caller reads on from afterwards
	Rd     int `json:"reader,omitempty"`
	Jump   int `json:"cc_jump_at,omitempty"`
	JumpBy int `json:"cc_jump_by,omitempty"`
}

func genC06(t *rapid.T) CaseC06 {
	c := CaseC06{}
	c.PMT = *genPMT(t, 0, 12)
	c.Carrier = genCarrier(t, true)
	c.PID = legalPID(int(genBits(t, 13, "pmt-pid")))
	if c.PID == 0 || c.PID == 0x1FFF {
		c.PID = 0x64
	}
	c.CC = rapid.IntRange(0, 15).Draw(t, "cc")
	if sec := c.PMT.Section(); len(sec) <= 116 && rapid.IntRange(0, 7).Draw(t, "packet-lookalike") == 0 {
		// a payload that is as long as a transport packet and starts like one: pointer_field 0x47, 188 bytes in all
		c.Carrier = ref.Carrier{Pointer: 0x47, Trailing: 116 - len(sec)}
	}
	payload := c.Carrier.Payload(c.PMT.Section())
	// no packet boundary exactly at the start of a section that follows complete sections
	forbidden := map[int]bool{}
	off := 1 + c.Carrier.Pointer
	for _, b := range c.Carrier.Before {
		off += len(b)
		forbidden[off] = true
	}
	forbidden[off+len(c.PMT.Section())] = false
	c.Sizes = genSizes(t, len(payload), forbidden)
	c.Others = make([]int, len(c.Sizes))
	for i := range c.Others {
		if rapid.IntRange(0, 3).Draw(t, "interleave") == 0 {
			c.Others[i] = rapid.IntRange(1, 3).Draw(t, "n-others")
		}
	}
	c.OtherB = genOtherPacket(t, c.PID)
	if rapid.IntRange(0, 2).Draw(t, "buffered-reader") == 0 {
		c.Rd = rapid.IntRange(1, 4).Draw(t, "buffered-reader-size")
	}
	return c
}

// c06CompareStreams checks the decoded stream list against the model.
func c06CompareStreams(what string, got psi.PMT, m *ref.PMT) *hx.Failure {
	var wantPids []int
	for _, s := range m.Streams {
		wantPids = append(wantPids, s.PID)
	}
	if fmt.Sprint(got.Pids()) != fmt.Sprint(wantPids) && !(len(got.Pids()) == 0 && len(wantPids) == 0) {
		return hx.Failf("pids", "%s: Pids() = %v, want %v", what, got.Pids(), wantPids)
	}
	es := got.ElementaryStreams()
	if len(es) != len(m.Streams) {
		return hx.Failf("streams-count", "%s: %d elementary streams decoded, section has %d", what, len(es), len(m.Streams))
	}
	for i, s := range m.Streams {
		e := es[i]
		if e.StreamType() != s.StreamType || e.ElementaryPid() != s.PID {
			return hx.Failf("stream-fields", "%s: stream %d decoded as type %#x pid %#x, encoded type %#x pid %#x", what, i, e.StreamType(), e.ElementaryPid(), s.StreamType, s.PID)
		}
		ds := e.Descriptors()
		if len(ds) != len(s.Descs) {
			return hx.Failf("descriptor-count", "%s: stream %d has %d descriptors decoded, %d encoded", what, i, len(ds), len(s.Descs))
		}
		for j, d := range s.Descs {
			g := ds[j]
			if g.Tag() != d.Tag {
				return hx.Failf("descriptor-tag", "%s: stream %d descriptor %d tag %#x, encoded %#x", what, i, j, g.Tag(), d.Tag)
			}
			if f := c06Probe(fmt.Sprintf("%s: stream %d descriptor %d", what, i, j), g, d); f != nil {
				return f
			}
		}
	}
	if int(got.VersionNumber()) != m.Version {
		return hx.Failf("version", "%s: VersionNumber() = %d, encoded %d", what, got.VersionNumber(), m.Version)
	}
	if got.CurrentNextIndicator() != m.CurrentNext {
		return hx.Failf("current-next", "%s: CurrentNextIndicator() = %v, encoded %v", what, got.CurrentNextIndicator(), m.CurrentNext)
	}
	for _, s := range m.Streams {
		if !got.PIDExists(s.PID) {
			return hx.Failf("pidexists", "%s: PIDExists(%#x) is false for a stream of the PMT", what, s.PID)
		}
	}
	return nil
}

// c06Probe observes descriptor body content through the decoders - the only window the API offers onto a body. What the
// decoders make of a body is C20's clause; here the decoded descriptor only has to answer every decoder like a descriptor
// built directly from the encoded tag and body (so a library whose decoders are wrong, or different, is not blamed for
// its section parser).
func c06Probe(what string, g psi.PmtDescriptor, d ref.Descriptor) *hx.Failure {
	r := psi.NewPmtDescriptor(d.Tag, clone(d.Body))
	type obs struct {
		name     string
		got, ref interface{}
	}
	safe := func(f func() interface{}) (v interface{}) {
		defer func() {
			if p := recover(); p != nil {
				v = fmt.Sprintf("panic: %v", p)
			}
		}()
		return f()
	}
	for _, o := range []obs{
		{"DecodeIso639LanguageCode", safe(func() interface{} { return g.DecodeIso639LanguageCode() }), safe(func() interface{} { return r.DecodeIso639LanguageCode() })},
		{"DecodeIso639AudioType", safe(func() interface{} { return g.DecodeIso639AudioType() }), safe(func() interface{} { return r.DecodeIso639AudioType() })},
		{"DecodeMaximumBitRate", safe(func() interface{} { return g.DecodeMaximumBitRate() }), safe(func() interface{} { return r.DecodeMaximumBitRate() })},
		{"IsDolbyVision", safe(func() interface{} { return g.IsDolbyVision() }), safe(func() interface{} { return r.IsDolbyVision() })},
		{"IsDolbyATMOS", safe(func() interface{} { return g.IsDolbyATMOS() }), safe(func() interface{} { return r.IsDolbyATMOS() })},
		{"DecodeDolbyVisionCodec", safe(func() interface{} { return g.DecodeDolbyVisionCodec("hvc1") }), safe(func() interface{} { return r.DecodeDolbyVisionCodec("hvc1") })},
		{"DecodeTTMLIso639LanguageCode", safe(func() interface{} { return g.DecodeTTMLIso639LanguageCode() }), safe(func() interface{} { return r.DecodeTTMLIso639LanguageCode() })},
		{"DecodeTTMLSubtitlePurpose", safe(func() interface{} { return g.DecodeTTMLSubtitlePurpose() }), safe(func() interface{} { return r.DecodeTTMLSubtitlePurpose() })},
		{"IsTTMLDescTagExtension", safe(func() interface{} { return g.IsTTMLDescTagExtension() }), safe(func() interface{} { return r.IsTTMLDescTagExtension() })},
		{"IsIFrameProfile", safe(func() interface{} { return g.IsIFrameProfile() }), safe(func() interface{} { return r.IsIFrameProfile() })},
		{"IsEBPDescriptor", safe(func() interface{} { return g.IsEBPDescriptor() }), safe(func() interface{} { return r.IsEBPDescriptor() })},
	} {
		if o.got != o.ref {
			return hx.Failf("descriptor-body", "%s: %s() = %v on the decoded descriptor, %v on a descriptor built from the encoded tag %#x and body %x", what, o.name, o.got, o.ref, d.Tag, []byte(d.Body))
		}
	}
	return nil
}

func c06Stream(c CaseC06, pkts []*ref.Packet) []byte {
	var stream []byte
	jumped := 0
	for i, p := range pkts {
		if c.Jump > 0 && i == c.Jump && p.AF != nil && p.AF.Len >= 1 {
			q := *p
			af := *p.AF
			af.Disc = true
			q.AF = &af
			p = &q
			jumped = c.JumpBy
		}
		if jumped != 0 {
			q := *p
			q.CC = (p.CC + jumped) & 15
			p = &q
		}
		for k := 0; k < c.Others[i]; k++ {
			stream = append(stream, c.OtherB...)
		}
		b := p.MustBytes()
		stream = append(stream, b[:]...)
	}
	return stream
}

func checkC06(c CaseC06, x *hx.Ctx) *hx.Failure {
	m := &c.PMT
	section := m.Section()
	if m.SectionLength() > 1021 {
		return hx.Failf("bad-case", "section_length %d exceeds 1021", m.SectionLength())
	}
	payload := c.Carrier.Payload(section)
	secStart := c.Carrier.SectionStart()
	secEnd := secStart + len(section)
	pkts, err := ref.Packetise(payload, c.PID, c.CC, c.Sizes)
	if err != nil {
		return hx.Failf("bad-case", "packetise: %v", err)
	}
	hasDesc := false
	for _, s := range m.Streams {
		if len(s.Descs) > 0 {
			hasDesc = true
		}
	}
	x.NT((len(pkts) >= 2 || c.Carrier.Pointer > 0 || len(c.Carrier.Before) > 0) && hasDesc)
	x.LabelIf(len(pkts) >= 2, "multi-packet")
	x.LabelIf(len(pkts) >= 4, ">=4-packets")
	x.LabelIf(c.Carrier.Pointer > 0, "pointer>0")
	x.LabelIf(len(c.Carrier.Before) > 0, "sections-before")
	x.LabelIf(len(m.Streams) == 0, "no-streams")
	x.LabelIf(m.SectionLength() == 1021, "section_length=1021")
	x.LabelIf(m.SectionLength() > 184, "section>184")

	// (1) parsing the concatenated payload (with whatever padding the last packet adds)
	var concat []byte
	for _, p := range pkts {
		concat = append(concat, p.Payload...)
	}
	for _, src := range [][]byte{payload, concat} {
		in, spareIntact := withSpare(src)
		keep := clone(in)
		got, err := psi.NewPMT(in)
		if err != nil {
			return hx.Failf("newpmt-error", "NewPMT failed on a well-formed payload: %v (pointer %d, %d sections before, section_length %d)", err, c.Carrier.Pointer, len(c.Carrier.Before), m.SectionLength())
		}
		if f := c06CompareStreams("NewPMT(payload)", got, m); f != nil {
			return f
		}
		_ = got.String()
		if !bytes.Equal(keep, in) || !spareIntact() {
			return hx.Failf("newpmt-mutates", "NewPMT or a getter modified its input (or the spare capacity behind it)")
		}
	}

	// (2) reading from the packet stream (a pointer_field beyond the first packet's payload is not a legal stream)
	// (asserted for streams in which the first packet of the PMT PID reaches at least the first byte of a section)
	if len(m.Streams) > 0 && len(c.Sizes) > 0 && c.Sizes[0] > c.Carrier.Pointer+1 {
		stream := c06Stream(c, pkts)
		r := streamReader(c.Rd, stream, c.OtherB)
		got, err := psi.ReadPMT(r, c.PID)
		if err != nil {
			return hx.Failf("readpmt-error", "ReadPMT failed on a well-formed stream: %v (packet payload sizes %v, pointer %d, %d sections before, section at [%d,%d))", err, c.Sizes, c.Carrier.Pointer, len(c.Carrier.Before), secStart, secEnd)
		}
		if f := c06CompareStreams("ReadPMT(stream)", got, m); f != nil {
			return f
		}
		if c.Rd != 0 {
			x.Label("buffered-reader-read-on")
			readOn(r)
			if f := c06CompareStreams("ReadPMT(stream), after the caller read the rest of the stream from the same bufio.Reader", got, m); f != nil {
				f.Key = "retained-" + f.Key
				return f
			}
		}
	}

	// (3) completion predicate on prefixes
	boundary := map[int]bool{}
	off := 1 + c.Carrier.Pointer
	for _, b := range c.Carrier.Before {
		off += len(b)
		boundary[off] = true // ends exactly at an inner section boundary: both clauses apply, not asserted
	}
	var lens []int
	if len(payload) <= 400 {
		for l := 0; l <= len(payload); l++ {
			lens = append(lens, l)
		}
	} else {
		cum := 0
		for _, s := range c.Sizes {
			cum += s
			if cum <= len(payload) {
				lens = append(lens, cum)
			}
		}
		for l := 0; l <= 8 && l <= len(payload); l++ {
			lens = append(lens, l)
		}
		for d := -3; d <= 3; d++ {
			for _, base := range []int{secStart, secEnd, 1 + c.Carrier.Pointer} {
				if l := base + d; l >= 0 && l <= len(payload) {
					lens = append(lens, l)
				}
			}
		}
		for k := 0; k < 48; k++ {
			lens = append(lens, (k*7919+len(payload)/3)%(len(payload)+1))
		}
	}
	for _, l := range lens {
		if boundary[l] {
			continue
		}
		pre := clone(payload[:l])
		done, err := psi.PmtAccumulatorDoneFunc(pre)
		want := l >= secEnd
		if err != nil && !want && !done {
			continue // "false on every proper prefix": an error next to false is not excluded by the statement
		}
		if err != nil {
			return hx.Failf("done-error", "PmtAccumulatorDoneFunc returned (%v, %v) on a %d-byte prefix (complete payload needs %d bytes)", done, err, l, secEnd)
		}
		if done != want {
			where := "inside the PMT section"
			switch {
			case l < 1+c.Carrier.Pointer:
				where = "inside pointer_field/filler"
			case l == 1+c.Carrier.Pointer:
				where = "right after pointer_field/filler (no section byte yet)"
			case l < secStart:
				where = "inside a preceding section"
			case l-secStart < 3 && l >= secStart:
				where = fmt.Sprintf("%d bytes into the PMT section header", l-secStart)
			}
			key := "done-early"
			if want {
				key = "done-late"
			}
			return hx.Failf(key, "PmtAccumulatorDoneFunc(%d-byte prefix) = %v, want %v: prefix ends %s (complete payload needs %d bytes; pointer %d, %d sections before)", l, done, want, where, secEnd, c.Carrier.Pointer, len(c.Carrier.Before))
		}
	}

	// (4) CRC accessor
	if c.Carrier.Pointer == 0 && len(c.Carrier.Before) == 0 {
		crc, err := psi.ExtractCRC(payload)
		if err != nil || crc != m.CRC() {
			return hx.Failf("extractcrc", "ExtractCRC = (%08x, %v), section CRC_32 is %08x", crc, err, m.CRC())
		}
	}

	// (5) header accessors report the first section
	first := section
	if len(c.Carrier.Before) > 0 {
		first = c.Carrier.Before[0]
	}
	wantLen := uint16(first[1]&0x0F)<<8 | uint16(first[2])
	if psi.PointerField(payload) != uint8(c.Carrier.Pointer) || psi.TableID(payload) != first[0] ||
		psi.SectionSyntaxIndicator(payload) != (first[1]&0x80 != 0) || psi.PrivateIndicator(payload) != (first[1]&0x40 != 0) ||
		psi.SectionLength(payload) != wantLen {
		return hx.Failf("psi-accessors", "PSI accessors (pointer %d, table_id %#x, ssi %v, private %v, length %d) differ from the first section (pointer %d, table_id %#x, ssi %v, private %v, length %d)",
			psi.PointerField(payload), psi.TableID(payload), psi.SectionSyntaxIndicator(payload), psi.PrivateIndicator(payload), psi.SectionLength(payload),
			c.Carrier.Pointer, first[0], first[1]&0x80 != 0, first[1]&0x40 != 0, wantLen)
	}
	th, err := psi.TableHeaderFromBytes(first[:3])
	if err != nil || th.TableID != first[0] || th.SectionSyntaxIndicator != (first[1]&0x80 != 0) || th.PrivateIndicator != (first[1]&0x40 != 0) || th.SectionLength != wantLen {
		return hx.Failf("tableheader", "TableHeaderFromBytes(%x) = %+v, %v", first[:3], th, err)
	}
	return nil
}

var propC06 = hx.Register(hx.Prop[CaseC06]{ID: "C06", Gen: genC06, Check: checkC06})

func c06Rule() {
	hx.Rec("C06").SetRule("cases: a reference-model PMT (program number, version, current_next, PCR PID, 0..3 program descriptors, 0..12 streams with distinct PIDs and 0..4 descriptors each incl. 'probe' descriptors whose body content is observable through the decoders; section_length <= 1021, sometimes exactly 1021) x a carrier (pointer_field 0..255 with 0xFF filler; values above 184 only for the payload-level API, 0..2 complete sections of other tables before (private ones and the ISO 14496 / metadata / IPMP tables 0x04..0x07 up to 4093 bytes long), 0..200 trailing 0xFF) x a packetisation (payload sizes 1..184 per packet via adaptation-field stuffing or payload-side padding of the last packet, 0..3 other-PID packets before any packet, one time in three carrying a complete PAT section that lists other PIDs, the PMT PID or nothing); one small PMT in eight travels in a payload of exactly 188 bytes behind pointer_field 0x47; one stream in three is read through a bufio.Reader (16..4096 bytes) that the caller reads on from afterwards, and the decoded table is compared again. Oracle: the model. NewPMT(payload), ReadPMT(stream): stream list (type, PID, descriptor tags, probe values), Pids, version, current_next; PmtAccumulatorDoneFunc on every prefix (payloads <= 400 bytes) or on packet boundaries, +-3 bytes around section start/end and 48 more lengths; ExtractCRC for pointer 0; header accessors = first section. Enumerated: TableHeader encode/decode identity over all 2^20 (table_id, flags, section_length 0..1023). Non-trivial: (>= 2 packets or pointer_field > 0 or a preceding section) and >= 1 stream with >= 1 descriptor.",
		"prefixes ending exactly at an inner section boundary are not asserted for the completion predicate (both clauses of the statement apply there)",
		"ReadPMT is asserted for PMTs with >= 1 stream, streams whose first PMT-PID packet is the unit start, and packetisations without a packet boundary exactly at the start of a section that follows complete sections (ISO requires a new unit start there)",
		"exactly one table_id 0x02 section per payload ('other complete sections before it' is read as sections of other tables: with two program map sections in one payload the statement does not say which one is meant); distinct elementary PIDs")
}

func TestC06(t *testing.T) {
	c06Rule()
	replayRegress(t, "C06")
	propC06.Run(t)
}

type CaseC06TH struct {
	TableID int  `json:"table_id"`
	SSI     bool `json:"ssi"`
	Private bool `json:"private"`
	Length  int  `json:"section_length"`
}

func c06TH(c CaseC06TH) *hx.Failure {
	h := psi.TableHeader{TableID: uint8(c.TableID), SectionSyntaxIndicator: c.SSI, PrivateIndicator: c.Private, SectionLength: uint16(c.Length)}
	d := h.Data()
	g, err := psi.TableHeaderFromBytes(d)
	wantB1 := byte(0x30) | byte(c.Length>>8)
	if c.SSI {
		wantB1 |= 0x80
	}
	if c.Private {
		wantB1 |= 0x40
	}
	_ = wantB1 // the statement asks for the identity of encode-then-decode, not for particular bytes
	if err != nil || g != h {
		return hx.Failf("tableheader-identity", "TableHeader %+v encodes to %x and decodes to %+v (err %v)", h, d, g, err)
	}
	return nil
}

var propC06TH = hx.Register(hx.Prop[CaseC06TH]{ID: "C06", Variant: "tableheader", Check: func(c CaseC06TH, x *hx.Ctx) *hx.Failure {
	x.NonTrivial()
	return c06TH(c)
}})

// TestC06ExhaustiveTableHeader: encode/decode identity over the whole header space.
func TestC06ExhaustiveTableHeader(t *testing.T) {
	c06Rule()
	if !hx.FirstShard() {
		t.Skip("enumeration runs on shard 0")
	}
	var n int64
	for tid := 0; tid < 256; tid++ {
		for flags := 0; flags < 4; flags++ {
			for l := 0; l < 1024; l++ {
				if tid <= 3 && (l > 1021 || flags&1 == 0) {
					continue // the ISO tables stop at 1021 and use the long syntax: a header decoder may refuse what no legal section announces
				}
				c := CaseC06TH{tid, flags&1 != 0, flags&2 != 0, l}
				if f := c06TH(c); f != nil {
					propC06TH.Eval(c)
					t.Fatalf("VIOLATION-CANDIDATE property=C06 key=%s: %s", f.Key, f.Msg)
				}
				n++
			}
		}
	}
	hx.Rec("C06").Bulk(n, n)
	hx.Rec("C06").Subspace("TableHeader.Data / TableHeaderFromBytes identity and bit layout: all 256 table ids x 4 flag combinations x section_length 0..1023 (0..1021 and section_syntax_indicator 1 for table ids 0..3)")
}

func FuzzC06(f *testing.F) {
	c06Rule()
	f.Fuzz(propC06.Fuzz())
}
