package props

import (
	"bytes"
	"fmt"
	"testing"

	"github.com/Comcast/gots/v2/packet"
	"github.com/Comcast/gots/v2/pes"
	"pgregory.net/rapid"

	"verifharness/hx"
	"verifharness/ref"
)

// C11 — PES header decoding.

type CaseC11 struct {
	PES      ref.PES `json:"pes"`
	PUSI     bool    `json:"pusi"`
	PaySize  int     `json:"payload_size"` // transport payload bytes (0..184)
	FlipBit  int     `json:"flip_bit"`     // -1 = prefix intact, else bit 0..23 of the prefix to flip
	AFFlags  bool    `json:"af_flags"`     // stuffing adaptation field carries a random-access flag
	PID      int     `json:"pid"`
	CC       int     `json:"cc"`
	TailFill byte    `json:"tail_fill"`
}

func genPES(t *rapid.T, maxData int) ref.PES {
	p := ref.PES{Prefix: ref.Hex{0, 0, 1}}
	switch rapid.IntRange(0, 3).Draw(t, "id-kind") {
	case 0:
		p.StreamID = rapid.SampledFrom([]byte{0xBE, 0xBF, 0xF0, 0xF1, 0xF2, 0xF8, 0xFF, 0xBC}).Draw(t, "id-nohdr")
	case 1:
		p.StreamID = rapid.SampledFrom([]byte{0xE0, 0xC0, 0xBD, 0xFD, 0xF9, 0xFA, 0xB8, 0xB9, 0xF3, 0xF7}).Draw(t, "id-hdr")
	default:
		p.StreamID = rapid.Byte().Draw(t, "id")
	}
	p.Length = uint16(genBits(t, 16, "length"))
	p.Scrambling = rapid.IntRange(0, 3).Draw(t, "scr")
	p.Priority = rapid.Bool().Draw(t, "prio")
	p.Align = rapid.Bool().Draw(t, "align")
	p.Copyright = rapid.Bool().Draw(t, "copyright")
	p.Original = rapid.Bool().Draw(t, "original")
	p.PTSDTS = rapid.SampledFrom([]int{0, 2, 3}).Draw(t, "ptsdts")
	p.PTS = genBits(t, 33, "pts")
	p.DTS = genBits(t, 33, "dts")
	if rapid.IntRange(0, 2).Draw(t, "optional-fields") == 0 {
		p.ESCR = rapid.Bool().Draw(t, "escr")
		p.ESRate = rapid.Bool().Draw(t, "esrate")
		p.Trick = rapid.Bool().Draw(t, "trick")
		p.CopyInfo = rapid.Bool().Draw(t, "copyinfo")
		p.CRC = rapid.Bool().Draw(t, "crc")
		p.Ext = rapid.Bool().Draw(t, "ext")
		if p.Ext && rapid.Bool().Draw(t, "ext-tref") {
			v := genBits(t, 33, "tref")
			p.TREF = &v
		}
	}
	p.OptFill = 0xFF // the flag-driven optional fields carry marker bits: all ones keeps every one of them set
	needed := p.HeaderDataLength()
	switch rapid.IntRange(0, 4).Draw(t, "stuff-kind") {
	case 0, 1:
		p.Stuffing = 0
	case 2:
		p.Stuffing = 255 - needed
	default:
		p.Stuffing = rapid.IntRange(0, 255-needed).Draw(t, "stuffing")
	}
	minData := 0 // "any payload": also none at all (a six-byte PES packet for the ids without optional header)
	p.Data = genBytes(t, minData, maxData, "data")
	if len(p.Data) >= 6 && rapid.IntRange(0, 3).Draw(t, "data-shape") == 0 {
		// elementary stream data that starts the way video access units do (start code + AVC / HEVC access unit delimiter)
		copy(p.Data, rapid.SampledFrom([][]byte{{0, 0, 0, 1, 0x09, 0xF0}, {0, 0, 0, 1, 0x46, 0x01}, {0, 0, 1, 0x09, 0x10, 0}, {0, 0, 1, 0xB3, 0, 0}}).Draw(t, "data-start"))
	}
	if len(p.Data) >= 8 && rapid.IntRange(0, 5).Draw(t, "two-pes-packets") == 0 {
		// two PES packets of one stream in the buffer: PES_packet_length says exactly where the first one ends, and the next
		// one (same stream_id) starts right there - all of it is "the bytes that follow the header" of the first
		k := rapid.IntRange(1, len(p.Data)-6).Draw(t, "first-packet-data")
		copy(p.Data[k:], []byte{0, 0, 1, p.StreamID, 0, byte(len(p.Data) - k - 6)})
		p.Length = uint16(len(p.Bytes()) - len(p.Data) - 6 + k)
	}
	return p
}

func genC11(t *rapid.T) CaseC11 {
	c := CaseC11{PES: genPES(t, 160)}
	c.PUSI = rapid.IntRange(0, 4).Draw(t, "pusi5") != 0
	switch rapid.IntRange(0, 4).Draw(t, "ps-kind") {
	case 0:
		c.PaySize = rapid.SampledFrom([]int{0, 1, 3, 4, 6, 7, 8, 9, 13, 14, 18, 19, 183, 184}).Draw(t, "ps-b")
	case 1:
		c.PaySize = 184
	default:
		c.PaySize = rapid.IntRange(0, 184).Draw(t, "ps")
	}
	c.FlipBit = -1
	if rapid.IntRange(0, 5).Draw(t, "corrupt") == 0 {
		c.FlipBit = rapid.IntRange(0, 23).Draw(t, "flip")
	}
	c.AFFlags = rapid.Bool().Draw(t, "af-flags")
	c.PID = int(genBits(t, 13, "pid"))
	if c.PID == 0x1FFF {
		c.PID = 0x1FFE // a null packet carries no PES (and has no unit start): a reader may ignore it
	}
	if c.PID < 0x10 {
		c.PID += 0x10 // PIDs 0x0000-0x000F are reserved for PSI: a unit start there is a pointer_field, never a PES header
	}
	c.CC = rapid.IntRange(0, 15).Draw(t, "cc")
	c.TailFill = rapid.Byte().Draw(t, "tail")
	return c
}

func sameBytes(a, b []byte) bool { return len(a) == len(b) && (len(a) == 0 || bytes.Equal(a, b)) }

// c11Header checks NewPESHeader on the complete PES bytes.
func c11Header(p *ref.PES, order int) *hx.Failure {
	raw, spareIntact := withSpare(p.Bytes())
	keep := clone(raw)
	h, err := pes.NewPESHeader(raw)
	if err != nil && p.StreamID == 0xBC {
		// program_stream_map is missing from the statement's list of ids without the optional header: a parser that
		// follows the list reads these (ISO-shaped) bytes as a header with flipped marker bits or a cut header and may refuse them
		return nil
	}
	if err != nil {
		return hx.Failf("pes-error", "NewPESHeader failed on a well-formed PES start (stream_id %#x pts_dts %d header_data_length %d data %d bytes): %v", p.StreamID, p.PTSDTS, p.HeaderDataLength(), len(p.Data), err)
	}
	if f := c11CompareHeader(h, p, order); f != nil {
		return f
	}
	if !bytes.Equal(keep, raw) || !spareIntact() {
		return hx.Failf("pes-mutates", "NewPESHeader or a getter modified its input (or the spare capacity behind it)")
	}
	return nil
}

// c11CompareHeader compares every getter with the model; order selects the
// sequence in which the timestamp getters are called (a getter must not depend on another having run).
func c11CompareHeader(h pes.PESHeader, p *ref.PES, order int) *hx.Failure {
	what := fmt.Sprintf("stream_id %#x pts_dts %d header_data_length %d data %d bytes, getter order %d", p.StreamID, p.PTSDTS, p.HeaderDataLength(), len(p.Data), order)
	wantPrefix := uint32(p.Prefix[0])<<16 | uint32(p.Prefix[1])<<8 | uint32(p.Prefix[2])
	if h.PacketStartCodePrefix() != wantPrefix {
		return hx.Failf("pes-prefix", "PacketStartCodePrefix() = %#x, want %#x (%s)", h.PacketStartCodePrefix(), wantPrefix, what)
	}
	if h.StreamId() != p.StreamID {
		return hx.Failf("pes-streamid", "StreamId() = %#x, want %#x", h.StreamId(), p.StreamID)
	}
	if p.StreamID == 0xBC {
		return nil // program_stream_map: not in the statement's list, only prefix/id asserted
	}
	if !ref.PESHasOptionalHeader(p.StreamID) {
		if !sameBytes(h.Data(), p.Data) {
			return hx.Failf("pes-data-nohdr", "stream_id %#x has no optional header: Data() is %d bytes, want the %d bytes after PES_packet_length\n got  %x\n want %x", p.StreamID, len(h.Data()), len(p.Data), head(h.Data(), 24), head(p.Data, 24))
		}
		return nil
	}
	checkDTS := func() *hx.Failure {
		if h.HasDTS() != (p.PTSDTS == 3) {
			return hx.Failf("pes-ptsdts-flags", "HasDTS=%v, encoded PTS_DTS_flags %d (%s)", h.HasDTS(), p.PTSDTS, what)
		}
		if p.PTSDTS == 3 && h.DTS() != p.DTS {
			return hx.Failf("pes-dts", "DTS() = %d, encoded %d (%s)", h.DTS(), p.DTS, what)
		}
		return nil
	}
	checkPTS := func() *hx.Failure {
		if h.HasPTS() != (p.PTSDTS != 0) {
			return hx.Failf("pes-ptsdts-flags", "HasPTS=%v, encoded PTS_DTS_flags %d (%s)", h.HasPTS(), p.PTSDTS, what)
		}
		if p.PTSDTS != 0 && h.PTS() != p.PTS {
			return hx.Failf("pes-pts", "PTS() = %d, encoded %d (%s)", h.PTS(), p.PTS, what)
		}
		return nil
	}
	checkData := func() *hx.Failure {
		if h.DataAligned() != p.Align {
			return hx.Failf("pes-align", "DataAligned() = %v, encoded %v (%s)", h.DataAligned(), p.Align, what)
		}
		if !sameBytes(h.Data(), p.Data) {
			return hx.Failf("pes-data", "Data() is %d bytes, want the %d bytes after the 9+%d byte header (%s)\n got  %x\n want %x", len(h.Data()), len(p.Data), p.HeaderDataLength(), what, head(h.Data(), 24), head(p.Data, 24))
		}
		return nil
	}
	seqs := [][]func() *hx.Failure{
		{checkPTS, checkDTS, checkData},
		{checkDTS, checkPTS, checkData},
		{checkData, checkDTS, checkDTS, checkPTS},
		{checkDTS, checkData, checkPTS, checkDTS},
	}
	for _, fn := range seqs[order%len(seqs)] {
		if f := fn(); f != nil {
			return f
		}
	}
	return nil
}

// c11Transport checks packet.PESHeader and pes.AlignedPUSI on a packet carrying the PES start.
func c11Transport(c CaseC11) *hx.Failure {
	p := &c.PES
	raw := p.Bytes()
	if c.FlipBit >= 0 {
		raw[c.FlipBit/8] ^= 0x80 >> uint(c.FlipBit%8)
	}
	payload := make([]byte, c.PaySize)
	for i := range payload {
		if i < len(raw) {
			payload[i] = raw[i]
		} else {
			payload[i] = c.TailFill
		}
	}
	m := &ref.Packet{Sync: 0x47, PUSI: c.PUSI, PID: c.PID, CC: c.CC, Payload: payload}
	switch {
	case c.PaySize == 184:
		m.AFC = 1
	case c.PaySize == 0:
		m.AFC = 2
		m.AF = &ref.AF{Len: 183, RA: c.AFFlags}
	default:
		m.AFC = 3
		m.AF = &ref.AF{Len: 183 - c.PaySize}
		if m.AF.Len > 0 {
			m.AF.RA = c.AFFlags
		}
	}
	pk := packet.Packet(m.MustBytes())
	keep := pk
	prefixOK := c.PaySize >= 4 && payload[0] == 0 && payload[1] == 0 && payload[2] == 1
	wantHdr := c.PUSI && m.AFC != 2 && prefixOK
	hb, err := packet.PESHeader(&pk)
	what := fmt.Sprintf("PUSI %v, payload %d bytes starting %x", c.PUSI, c.PaySize, head(payload, 4))
	if wantHdr {
		// "yields PES header bytes": bytes of this payload, starting at its start (how many of them is not stated)
		if err != nil || len(hb) < 4 || len(hb) > len(payload) || !bytes.Equal(hb, payload[:len(hb)]) {
			return hx.Failf("tspes-missing", "packet.PESHeader returned (%d bytes, %v), want the PES header bytes at the start of the %d payload bytes (%s)", len(hb), err, len(payload), what)
		}
	} else if err == nil {
		return hx.Failf("tspes-spurious", "packet.PESHeader returned %d bytes without error (%s)", len(hb), what)
	}
	data, ok := pes.AlignedPUSI(&pk)
	if pk != keep {
		return hx.Failf("tspes-mutates", "PESHeader/AlignedPUSI modified the packet")
	}
	if !wantHdr {
		if ok || len(data) != 0 {
			return hx.Failf("aligned-spurious", "AlignedPUSI returned (%d bytes, %v) for a packet that carries no PES header (%s)", len(data), ok, what)
		}
		return nil
	}
	if c.FlipBit < 0 && !ref.PESHasOptionalHeader(p.StreamID) && p.StreamID != 0xBC && c.PaySize >= 6 {
		// these stream ids have no optional header, hence no data_alignment_indicator: the byte behind
		// PES_packet_length is data, and the aligned-start helper has nothing to report
		if ok || len(data) != 0 {
			return hx.Failf("aligned-nohdr", "AlignedPUSI returned (%d bytes, %v) for stream_id %#x, which has no optional header and no data_alignment_indicator (%s)", len(data), ok, p.StreamID, what)
		}
	}
	if c.FlipBit < 0 && ref.PESHasOptionalHeader(p.StreamID) && p.StreamID != 0xBC && c.PaySize >= 7 && c.PaySize < 9+p.HeaderDataLength() {
		// the header is cut by the end of the packet (it continues in the next one): no byte of this packet is PES data
		if len(data) != 0 {
			return hx.Failf("aligned-data-cut", "AlignedPUSI returned %d bytes of 'data' although the %d-byte PES header is cut after %d bytes (%s)", len(data), 9+p.HeaderDataLength(), c.PaySize, what)
		}
		if h2, err2 := pes.NewPESHeader(clone(payload)); err2 == nil && len(h2.Data()) != 0 {
			return hx.Failf("pes-data-cut", "NewPESHeader on the first %d bytes of a %d-byte PES header: Data() returns %d bytes (%x...), none of them is data (%s)", c.PaySize, 9+p.HeaderDataLength(), len(h2.Data()), head(h2.Data(), 8), what)
		}
	}
	// complete header inside this packet, stream id with the optional header
	if c.FlipBit < 0 && ref.PESHasOptionalHeader(p.StreamID) && p.StreamID != 0xBC && c.PaySize >= 9+p.HeaderDataLength() {
		if ok != p.Align {
			return hx.Failf("aligned-flag", "AlignedPUSI ok=%v, data_alignment_indicator is %v (%s)", ok, p.Align, what)
		}
		if ok && !sameBytes(data, payload[9+p.HeaderDataLength():]) {
			return hx.Failf("aligned-data", "AlignedPUSI returned %d bytes, want the %d bytes after the PES header", len(data), len(payload)-9-p.HeaderDataLength())
		}
		if !ok && len(data) != 0 {
			return hx.Failf("aligned-data", "AlignedPUSI returned data with ok=false")
		}
	}
	return nil
}

func checkC11(c CaseC11, x *hx.Ctx) *hx.Failure {
	p := &c.PES
	if len(p.Prefix) != 3 {
		return hx.Failf("bad-case", "prefix must be 3 bytes")
	}
	noHdr := !ref.PESHasOptionalHeader(p.StreamID)
	tsSize := 0
	switch p.PTSDTS {
	case 2:
		tsSize = 5
	case 3:
		tsSize = 10
	}
	x.NT(noHdr || p.HeaderDataLength() > tsSize || (p.PTSDTS == 3 && p.DTS>>32 != 0))
	x.LabelIf(noHdr, "stream-id-without-optional-header")
	x.LabelIf(!noHdr && p.HeaderDataLength() > tsSize, "extra-header-bytes")
	x.LabelIf(p.PTSDTS == 3, "pts+dts")
	x.LabelIf(c.FlipBit >= 0, "prefix-corrupted")
	x.LabelIf(!c.PUSI, "no-pusi")
	x.LabelIf(c.PaySize < 9+p.HeaderDataLength(), "header-cut-by-packet")
	if f := c11Header(p, c.CC+c.PaySize); f != nil {
		return f
	}
	return c11Transport(c)
}

var propC11 = hx.Register(hx.Prop[CaseC11]{ID: "C11", Gen: genC11, Check: checkC11})

func c11Rule() {
	hx.Rec("C11").SetRule("cases: a reference-model PES packet start (any stream_id biased to the ids without optional header, any PES_packet_length, flag bits, PTS_DTS_flags in {00,10,11} with boundary-bit 33-bit timestamps, optional ESCR/ES_rate/trick/copy-info/CRC/extension fields of the correct sizes, header stuffing up to PES_header_data_length 255, 0..160 data bytes) carried in a transport packet (PUSI on/off, payload size 0..184 via adaptation-field stuffing, start-code prefix intact or with one bit flipped). Oracle: the model for every PESHeader getter and Data(); packet.PESHeader returns the payload iff PUSI and payload >= 4 bytes and prefix 00 00 01; pes.AlignedPUSI returns (data, true) iff additionally data_alignment_indicator is set (never for the ids without optional header; no data when the header is cut by the packet end). Enumerated: all 256 stream ids x 3 timestamp modes x PES_header_data_length 0..255 (sampled stuffing grid in quick). Non-trivial: stream id without optional header, or header_data_length larger than the timestamps, or a DTS with bit 32 set.",
		"stream id 0xBC (program_stream_map): only prefix and id asserted (not in the statement's list)",
		"for ids without the optional header at least one data byte follows (the decoder requires 7 bytes)",
		"when the PES header is cut by the end of the packet only 'no data is returned' is asserted; nil and empty data are equal; PTS_DTS_flags 01 not generated")
}

func TestC11(t *testing.T) {
	c11Rule()
	replayRegress(t, "C11")
	propC11.Run(t)
}

func TestC11Exhaustive(t *testing.T) {
	c11Rule()
	shard, nsh := hx.ShardIndex(), hx.NShards()
	step := 5
	if hx.Thorough() {
		step = 1
	}
	for id := 0; id < 256; id++ {
		if id%nsh != shard {
			continue
		}
		for _, mode := range []int{0, 2, 3} {
			need := map[int]int{0: 0, 2: 5, 3: 10}[mode]
			for hdl := need; hdl <= 255; hdl += step {
				p := ref.PES{Prefix: ref.Hex{0, 0, 1}, StreamID: byte(id), Length: uint16(id*257 + hdl), Align: (id+hdl)%2 == 0, PTSDTS: mode,
					PTS: 0x1FFFFFFFF - uint64(id)<<20, DTS: 0x100000000 | uint64(hdl)<<14, Stuffing: hdl - need, Data: ref.Hex{0xDE, 0xAD, byte(id)}}
				c := CaseC11{PES: p, PUSI: true, PaySize: 184, FlipBit: -1, PID: 0x100 + id, CC: id % 16, TailFill: 0xFF}
				if f := propC11.EvalFast(c, hx.HashInts(uint64(id), uint64(mode), uint64(hdl))); f != nil {
					t.Fatalf("VIOLATION-CANDIDATE property=C11 key=%s: %s", f.Key, f.Msg)
				}
			}
		}
	}
	hx.Rec("C11").Subspace(fmt.Sprintf("all 256 stream ids x PTS_DTS modes {00,10,11} x PES_header_data_length from the timestamp size to 255 in steps of %d", step))
}

func FuzzC11(f *testing.F) {
	c11Rule()
	f.Fuzz(propC11.Fuzz())
}
