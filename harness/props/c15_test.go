package props

import (
	"testing"

	gots "github.com/Comcast/gots/v2"
	"pgregory.net/rapid"

	"verifharness/hx"
)

// C15 — PTS arithmetic modulo 2^33 across rollover.
//
// Oracle: plain uint64 arithmetic written from the statement (nothing from
// gots but the methods under test).

const (
	c15Max   = uint64(1)<<33 - 1
	c15Lower = uint64(162000000)
	c15Upper = uint64(1)<<33 - 1 - 162000000
)

type CaseC15 struct {
	P uint64 `json:"p"`
	Q uint64 `json:"q"`
	D uint64 `json:"d"` // 1..162000000
}

func c15Near(v uint64) bool {
	for _, th := range []uint64{0, c15Lower, c15Upper, c15Max} {
		if v+3 >= th && v <= th+3 {
			return true
		}
	}
	return false
}

func genC15Val(t *rapid.T, label string) uint64 {
	switch rapid.IntRange(0, 5).Draw(t, label+"-kind") {
	case 0, 1, 2:
		th := rapid.SampledFrom([]uint64{0, c15Lower, c15Upper, c15Max}).Draw(t, label+"-th")
		off := rapid.Int64Range(-5, 5).Draw(t, label+"-off")
		v := int64(th) + off
		if v < 0 {
			v = 0
		}
		if uint64(v) > c15Max {
			v = int64(c15Max)
		}
		return uint64(v)
	case 3:
		return genBits(t, 33, label)
	default:
		return rapid.Uint64Range(0, c15Max).Draw(t, label)
	}
}

func genC15(t *rapid.T) CaseC15 {
	c := CaseC15{P: genC15Val(t, "p"), Q: genC15Val(t, "q")}
	if rapid.IntRange(0, 4).Draw(t, "q-rel") == 0 {
		// q at a power-of-two distance (+-1) from p, in either direction, modulo 2^33
		k := uint(rapid.IntRange(0, 33).Draw(t, "q-rel-k"))
		delta := uint64(1)<<k + uint64(rapid.IntRange(-1, 1).Draw(t, "q-rel-off")+1) - 1
		if rapid.IntRange(0, 2).Draw(t, "q-rel-clock") == 0 {
			// or a round duration of the 90 kHz clock: 1 ms .. 1 h, +-1 tick
			delta = rapid.SampledFrom([]uint64{90, 900, 3003, 3600, 90000, 180000, 900000, 5400000, 162000000, 324000000}).Draw(t, "q-rel-dur") + uint64(rapid.IntRange(-1, 1).Draw(t, "q-rel-dur-off")+1) - 1
		}
		if rapid.Bool().Draw(t, "q-rel-back") {
			c.Q = (c.P - delta) & c15Max
		} else {
			c.Q = (c.P + delta) & c15Max
		}
	}
	switch rapid.IntRange(0, 4).Draw(t, "d-kind") {
	case 0:
		c.D = rapid.SampledFrom([]uint64{1, 2, 3, 161999998, 161999999, 162000000, 89999, 90000, 90001, 5400000, 3003}).Draw(t, "d")
	case 1:
		// land next to a threshold or exactly on the wrap
		th := rapid.SampledFrom([]uint64{c15Lower, c15Upper, c15Max, c15Max + 1, c15Max + 2}).Draw(t, "d-th")
		off := rapid.Uint64Range(0, 3).Draw(t, "d-off")
		if th+off > c.P && th+off-c.P <= c15Lower {
			c.D = th + off - c.P
		} else {
			c.D = 1
		}
	default:
		c.D = rapid.Uint64Range(1, c15Lower).Draw(t, "d")
	}
	if rapid.IntRange(0, 7).Draw(t, "land-pow2") == 0 {
		// p + d lands on (or next to) a power of two inside the range: where an implementation that works in 32-bit halves carries
		target := uint64(1)<<uint(rapid.IntRange(28, 33).Draw(t, "land-k")) + uint64(rapid.IntRange(-2, 2).Draw(t, "land-off")+2) - 2
		if rapid.Bool().Draw(t, "land-small-d") {
			c.D = rapid.SampledFrom([]uint64{1, 2, 3, 90000, 5400000}).Draw(t, "land-d")
		}
		c.P = (target - c.D) & c15Max
	}
	if rapid.IntRange(0, 7).Draw(t, "mirror") == 0 {
		// a pair that mirrors the wrap: p lies as far before it as p+d lies behind it (q is that second value)
		var b uint64
		switch rapid.IntRange(0, 2).Draw(t, "mirror-kind") {
		case 0:
			b = rapid.SampledFrom([]uint64{1, 2, 90, 3003, 45000, 90000, 900000, 2700000, 5400000, 81000000}).Draw(t, "mirror-b")
		case 1:
			b = uint64(1) << uint(rapid.IntRange(0, 26).Draw(t, "mirror-k"))
		default:
			b = rapid.Uint64Range(1, c15Lower/2).Draw(t, "mirror-any")
		}
		c.P, c.D, c.Q = c15Max+1-b, 2*b, b
	}
	return c
}

func checkC15(c CaseC15, x *hx.Ctx) (fail *hx.Failure) {
	// every query is evaluated twice in a row: the functions are pure, a repetition must agree
	unstable := func(what string, a, b gots.PTS) {
		if fail == nil {
			fail = hx.Failf("unstable-"+what, "%s(%d, %d) gives different answers when evaluated twice in a row", what, uint64(a), uint64(b))
		}
	}
	After := func(a, b gots.PTS) bool {
		r := a.After(b)
		if a.After(b) != r {
			unstable("After", a, b)
		}
		return r
	}
	GE := func(a, b gots.PTS) bool {
		r := a.GreaterOrEqual(b)
		if a.GreaterOrEqual(b) != r {
			unstable("GreaterOrEqual", a, b)
		}
		return r
	}
	RO := func(a, b gots.PTS) bool {
		r := a.RolledOver(b)
		if a.RolledOver(b) != r {
			unstable("RolledOver", a, b)
		}
		return r
	}
	Dur := func(a, b gots.PTS) uint64 {
		r := a.DurationFrom(b)
		if a.DurationFrom(b) != r {
			unstable("DurationFrom", a, b)
		}
		return r
	}

	p, q, d := c.P, c.Q, c.D
	P, Q := gots.PTS(p), gots.PTS(q)
	wrapped := p+d > c15Max
	x.NT(c15Near(p) || c15Near(q) || wrapped)
	x.LabelIf(wrapped, "wrapping-add")
	x.LabelIf(c15Near(p) || c15Near(q), "near-threshold")
	x.LabelIf(p == q, "equal")

	// rolled over definition
	wantRO := p < c15Lower && q > c15Upper
	if got := RO(P, Q); got != wantRO {
		return hx.Failf("rolledover-def", "PTS(%d).RolledOver(%d)=%v want %v", p, q, got, wantRO)
	}
	wantRO2 := q < c15Lower && p > c15Upper
	if got := RO(Q, P); got != wantRO2 {
		return hx.Failf("rolledover-def", "PTS(%d).RolledOver(%d)=%v want %v", q, p, got, wantRO2)
	}

	// addition within the window
	want := (p + d) & c15Max
	R := P.Add(gots.PTS(d))
	if uint64(R) != want {
		return hx.Failf("add", "PTS(%d).Add(%d)=%d want %d", p, d, uint64(R), want)
	}
	if !After(R, P) {
		return hx.Failf("add-after", "PTS(%d).Add(%d)=%d is not After p", p, d, uint64(R))
	}
	if After(P, R) {
		return hx.Failf("add-after", "p=%d is After p.Add(%d)=%d", p, d, uint64(R))
	}
	if got := RO(R, P); got != wrapped {
		return hx.Failf("add-rolledover", "p=%d d=%d: sum.RolledOver(p)=%v but wrapped=%v", p, d, got, wrapped)
	}
	if got := Dur(R, P); got != d {
		return hx.Failf("add-duration", "p=%d d=%d: sum.DurationFrom(p)=%d", p, d, got)
	}
	if got := Dur(P, R); got != d {
		return hx.Failf("add-duration", "p=%d d=%d: p.DurationFrom(sum)=%d", p, d, got)
	}
	if !GE(R, P) || GE(P, R) {
		return hx.Failf("add-ge", "p=%d d=%d: GreaterOrEqual inconsistent with After", p, d)
	}

	// ordering laws on (p, q)
	pa, qa := After(P, Q), After(Q, P)
	n := 0
	if pa {
		n++
	}
	if qa {
		n++
	}
	if p == q {
		n++
	}
	if n != 1 {
		return hx.Failf("order-total", "p=%d q=%d: pAfterq=%v qAfterp=%v equal=%v (exactly one must hold)", p, q, pa, qa, p == q)
	}
	if After(P, P) || After(Q, Q) {
		return hx.Failf("order-irreflexive", "p=%d q=%d: a time is After itself", p, q)
	}
	if got := GE(P, Q); got != (pa || p == q) {
		return hx.Failf("ge-def", "p=%d q=%d: GreaterOrEqual=%v After=%v", p, q, got, pa)
	}
	if got := GE(Q, P); got != (qa || p == q) {
		return hx.Failf("ge-def", "q=%d p=%d: GreaterOrEqual=%v After=%v", q, p, got, qa)
	}
	d1, d2 := Dur(P, Q), Dur(Q, P)
	if d1 != d2 {
		return hx.Failf("duration-symmetric", "p=%d q=%d: %d vs %d", p, q, d1, d2)
	}
	if (d1 == 0) != (p == q) {
		return hx.Failf("duration-zero", "p=%d q=%d: duration %d", p, q, d1)
	}
	if Dur(P, P) != 0 {
		return hx.Failf("duration-zero", "p=%d: DurationFrom(self)=%d", p, Dur(P, P))
	}
	// (the value of DurationFrom for an arbitrary pair is not fixed by the statement - only that it is symmetric,
	// zero exactly on equal times, and d for (p, p.Add(d)) - so it is not compared with a formula of the harness)
	// sentinels
	for i, v := range []gots.PTS{P, Q, R} {
		// the answers must not depend on what was asked before: precede the sentinel
		// queries by a rollover pair in either direction or by the case's own pair
		switch (i + int(d)) % 3 {
		case 0:
			After(gots.PTS(5), gots.PTS(c15Max-5))
		case 1:
			Dur(gots.PTS(c15Max-7), gots.PTS(3))
		default:
			GE(P, Q)
		}
		if !After(v, gots.PtsNegativeInfinity) {
			return hx.Failf("sentinel-neg", "%d is not After negative infinity", uint64(v))
		}
		After(gots.PTS(c15Max-1), gots.PTS(1))
		if After(v, gots.PtsPositiveInfinity) {
			return hx.Failf("sentinel-pos", "%d is After positive infinity", uint64(v))
		}
	}
	return fail
}

var propC15 = hx.Register(hx.Prop[CaseC15]{ID: "C15", Gen: genC15, Check: checkC15})

func c15Rule() {
	hx.Rec("C15").SetRule("cases are (p, q, d): p, q 33-bit values drawn with bias to within 5 ticks of 0, 162000000, 2^33-1-162000000, 2^33-1 (and boundary-bit values), d in [1,162000000] biased to the window ends and to sums that land on a threshold or on the wrap; one case in five has q at a power-of-two distance or at a round duration of the 90 kHz clock (1 ms .. 1 h), +-1 tick, from p; every clause of the statement is checked against uint64 reference arithmetic (and nothing else: the duration of an arbitrary pair, GreaterOrEqual / RolledOver against the sentinels are not asserted). Non-trivial: p or q within 3 ticks of a threshold, or p+d wraps past 2^33-1. Distinct by (p,q,d).",
		"all values are 33-bit (the statement quantifies over 33-bit times)")
}

func TestC15(t *testing.T) {
	c15Rule()
	replayRegress(t, "C15")
	propC15.Run(t)
}

// TestC15Exhaustive enumerates all pairs from the +-w tick windows around the
// four thresholds with a set of distances that hit each threshold and the wrap.
func TestC15Exhaustive(t *testing.T) {
	c15Rule()
	w := int64(8)
	if hx.Thorough() {
		w = 40
	}
	var vals []uint64
	for _, th := range []uint64{0, c15Lower, c15Upper, c15Max} {
		for off := -w; off <= w; off++ {
			v := int64(th) + off
			if v < 0 || uint64(v) > c15Max {
				continue
			}
			vals = append(vals, uint64(v))
		}
	}
	for _, p := range vals {
		ds := []uint64{1, 2, 161999999, 162000000, 89999, 90000, 90001}
		for _, land := range []uint64{c15Lower - 1, c15Lower, c15Lower + 1, c15Upper, c15Upper + 1, c15Max, c15Max + 1, c15Max + 2} {
			if land > p && land-p <= c15Lower {
				ds = append(ds, land-p)
			}
		}
		for _, q := range vals {
			for _, d := range ds {
				c := CaseC15{p, q, d}
				if f := propC15.EvalFast(c, hx.HashInts(p, q, d)); f != nil {
					t.Fatalf("VIOLATION-CANDIDATE property=C15 key=%s: %s", f.Key, f.Msg)
				}
			}
		}
	}
	// pairs at every power-of-two distance (+-1), both directions, from a spread of base values
	bases := append([]uint64{}, vals...)
	for i := uint64(0); i < 64; i++ {
		bases = append(bases, (i*0x08421085+0x1234567)&c15Max, c15Lower+i*97, c15Upper-i*89)
	}
	for _, p := range bases {
		for k := uint(0); k <= 33; k++ {
			for off := uint64(0); off <= 2; off++ {
				delta := uint64(1)<<k + off - 1
				for _, q := range []uint64{(p + delta) & c15Max, (p - delta) & c15Max} {
					c := CaseC15{p, q, 1 + (delta % c15Lower)}
					if f := propC15.EvalFast(c, hx.HashInts(p, q, c.D)); f != nil {
						t.Fatalf("VIOLATION-CANDIDATE property=C15 key=%s: %s", f.Key, f.Msg)
					}
				}
			}
		}
	}
	hx.Rec("C15").Subspace("pairs (p, p +- (2^k + {-1,0,1}) mod 2^33) for k in 0..33 from the window values and 192 spread base values")
	hx.Rec("C15").Subspace("all pairs (p,q) from the threshold windows (quick: +-8 ticks, thorough: +-40) x distances {1,2,161999999,162000000, those landing on each threshold and on the wrap}")
}

func FuzzC15(f *testing.F) {
	c15Rule()
	f.Fuzz(propC15.Fuzz())
}
