package props

import (
	"bytes"
	"fmt"
	"testing"

	gots "github.com/Comcast/gots/v2"
	"github.com/Comcast/gots/v2/scte35"
	"pgregory.net/rapid"

	"verifharness/hx"
	"verifharness/ref"
)

// C09 — SCTE-35 encoding is canonical, CRC-correct and inverse to decoding.

type MutC09 struct {
	Kind int     `json:"kind"`
	K    int     `json:"k"` // descriptor index (mod count)
	B    bool    `json:"b"`
	V    uint64  `json:"v"`
	Data ref.Hex `json:"data,omitempty"`
}

type CaseC09 struct {
	Splice ref.Splice `json:"splice"`
	Path   string     `json:"path"`    // "api" or "decoded"
	Noise  uint32     `json:"noise"`   // set-then-clear noise selection for the API path
	Muts   []MutC09   `json:"muts"`    // setter calls applied before encoding
	BadCRC int        `json:"bad_crc"` // decoded path: bit of the input's CRC_32 to flip (0 = intact); the decoder does not verify it
	Tail   int        `json:"tail"`    // decoded path: 0xFF bytes after the section in the decoder's input
}

const c09Kinds = 48

func genC09(t *rapid.T) CaseC09 {
	c := CaseC09{}
	c.Path = rapid.SampledFrom([]string{"api", "decoded"}).Draw(t, "path")
	c.Splice = genSplice(t, c.Path == "decoded")
	if c.Path == "api" {
		// time-less forms are expressible through the API (the decoder does not support them)
		if rapid.IntRange(0, 3).Draw(t, "ts-timeless") == 0 {
			c.Splice.TSHasPTS = false
		}
		if rapid.IntRange(0, 3).Draw(t, "ins-timeless") == 0 {
			c.Splice.Ins.HasPTS = false
		}
		c.Noise = uint32(rapid.Uint64Range(0, 1<<20-1).Draw(t, "noise"))
		if rapid.Bool().Draw(t, "no-noise") {
			c.Noise = 0
		}
	}
	if c.Path == "decoded" {
		if rapid.IntRange(0, 3).Draw(t, "bad-crc") == 0 {
			// a stale CRC_32 on the input: a decoder may refuse it; what it accepts must be re-emitted with a correct CRC_32
			// ("a CRC_32 that makes the MPEG-2 CRC of the whole section zero" holds for every serialisation)
			c.BadCRC = rapid.IntRange(1, 32).Draw(t, "bad-crc-bit")
		}
		c.Tail = rapid.SampledFrom([]int{0, 0, 0, 1, 4, 30}).Draw(t, "tail")
		// no alignment_stuffing on the input side: such a section is not canonical, and whether a decoder keeps the count
		// (and re-emits the bytes) or drops it is not stated. C08 decodes sections with stuffing.
	}
	if rapid.IntRange(0, 2).Draw(t, "with-muts") != 0 {
		c.Muts = rapid.SliceOfN(rapid.Custom(func(t *rapid.T) MutC09 {
			m := MutC09{Kind: rapid.IntRange(0, c09Kinds-1).Draw(t, "mut-kind"), K: rapid.IntRange(0, 5).Draw(t, "mut-k"), B: rapid.Bool().Draw(t, "mut-b")}
			m.V = genBits(t, 64, "mut-v")
			if rapid.Bool().Draw(t, "mut-small") {
				m.V = genBits(t, 33, "mut-v33")
			}
			if m.Kind == 32 || m.Kind == 33 || m.Kind == 43 {
				m.Data = genBytes(t, 0, 12, "mut-data")
			}
			return m
		}), 0, 8).Draw(t, "muts")
		if len(c.Muts) > 0 && rapid.IntRange(0, 2).Draw(t, "set-then-clear") == 0 {
			// "flags can be cleared as well as set": one of the calls is repeated at the end with the opposite flag value
			m := c.Muts[rapid.IntRange(0, len(c.Muts)-1).Draw(t, "set-then-clear-which")]
			m.B = !m.B
			c.Muts = append(c.Muts, m)
		}
	}
	return c
}

// c09DecodedView zeroes the fields the syntax does not carry: that is the
// state a decoder is left with, and what later setter calls build upon.
func c09DecodedView(m ref.Splice) ref.Splice {
	m.Stuffing = 0 // the decoder does not count alignment stuffing; a re-encoding carries what SetAlignmentStuffing asked for
	if m.Cmd != 0x06 {
		m.TSHasPTS, m.TSPTS = false, 0
	}
	if m.Cmd != 0x05 {
		m.Ins = ref.SpliceInsert{Comps: []ref.SpliceComp{}}
	} else {
		i := m.Ins
		if i.Cancel {
			i = ref.SpliceInsert{Event: i.Event, Cancel: true, Comps: []ref.SpliceComp{}}
		} else {
			if !(i.Prog && !i.Immediate) {
				i.HasPTS, i.PTS = false, 0
			}
			if i.Prog {
				i.Comps = []ref.SpliceComp{}
			} else {
				cs := []ref.SpliceComp{}
				for _, c := range i.Comps {
					if i.Immediate {
						c.HasPTS, c.PTS = false, 0
					} else if !c.HasPTS {
						c.PTS = 0
					}
					cs = append(cs, c)
				}
				i.Comps = cs
			}
			if !i.Dur {
				i.AutoReturn, i.Duration = false, 0
			}
		}
		m.Ins = i
	}
	ds := []ref.SpliceDesc{}
	for _, d := range m.Descs {
		if d.Foreign {
			ds = append(ds, d)
			continue
		}
		if d.Cancel {
			d = ref.SpliceDesc{Identifier: d.Identifier, Event: d.Event, Cancel: true, Comps: []ref.SegOffset{}, UPID: ref.Hex{}, MID: []ref.SegUPID{}}
		} else {
			if d.NotRestricted {
				d.Web, d.NoBlackout, d.Archive, d.Device = false, false, false, 0
			}
			if d.Prog {
				d.Comps = []ref.SegOffset{}
			}
			if !d.Dur {
				d.Duration = 0
			}
			if d.UPIDType == 0x0D {
				d.UPID = ref.Hex{}
			} else {
				d.MID = []ref.SegUPID{}
			}
			if !d.HasSub {
				d.SubNum, d.SubExpected = 0, 0
			}
		}
		ds = append(ds, d)
	}
	m.Descs = ds
	m.UnknownLen = false
	return m
}

// c09Normalise gives the section the library's normal form must produce for
// the model: foreign descriptors first (relative orders kept), sub-segment
// fields only for types 0x34/0x36.
func c09Normalise(m ref.Splice) ref.Splice {
	var f, s []ref.SpliceDesc
	for _, d := range m.Descs {
		if d.Foreign {
			f = append(f, d)
		} else {
			if d.Type != 0x34 && d.Type != 0x36 {
				d.HasSub = false
			}
			s = append(s, d)
		}
	}
	m.Descs = append(f, s...)
	m.UnknownLen = false
	return m
}

// c09KeepOrder is the other admissible serialisation order: descriptors exactly where the model has them
// (the library's own normal form moves foreign descriptors to the front; "descriptors in order with foreign
// descriptors preserved" does not prescribe that).
func c09KeepOrder(m ref.Splice) ref.Splice {
	ds := make([]ref.SpliceDesc, len(m.Descs))
	copy(ds, m.Descs)
	for i := range ds {
		if !ds[i].Foreign && ds[i].Type != 0x34 && ds[i].Type != 0x36 {
			ds[i].HasSub = false
		}
	}
	m.Descs = ds
	m.UnknownLen = false
	return m
}

// c09Comparable blanks what the comparison must not depend on: the alignment stuffing byte values and, for a
// command that carries no time, pts_adjustment (the API has no setter for it; it is derived from the signal and
// command times, and which value results when the command time is not on the wire is not stated) together with
// the CRC_32 that covers either (the CRC is verified on its own).
func c09Comparable(b []byte, from, to int, timeless bool) []byte {
	c := maskStuffing(b, from, to)
	if timeless && len(c) >= 13 {
		c[4] &^= 0x01
		for i := 5; i <= 8; i++ {
			c[i] = 0
		}
	}
	if (timeless || to > from) && len(c) >= 13 {
		// the CRC_32 covers the blanked bytes
		for i := len(c) - 4; i < len(c); i++ {
			c[i] = 0
		}
	}
	return c
}

type c09State struct {
	m        ref.Splice
	adjusted uint64 // the signal's adjusted PTS as stored by the library
	// altDelta: how far the command's pts_time was moved through the COMMAND's setters since the signal time was last fixed.
	// A library may keep the signal time and let pts_adjustment absorb the move (the pinned one does), or keep
	// pts_adjustment as a field and let the signal time follow: adjusted+altDelta is the signal time of the second kind.
	altDelta uint64
	// handles: the descriptor objects in the order Descriptors() listed them when the list was last (re)established (after
	// decoding / building and after every SetDescriptors). Setter histories address descriptors through these handles: in
	// which order a later Descriptors() call lists the same objects is not stated (the interface documents "sorted by weight").
	handles   []scte35.SegmentationDescriptor
	handlesOK bool
	sig       scte35.SCTE35
	// arena is the caller-side buffer the byte slices given to setters are cut from, one directly
	// behind the other: each slice's spare capacity is the memory of the slices handed over later
	arena, arenaKeep []byte
	// getterFail: set by a history step whose getters did not reflect the setters just called
	getterFail string
	// repeated: the descriptor list holds one handle twice (history step 47); from then on the history leaves the
	// descriptors alone (an edit through the handle would have to show in both places of the model)
	repeated bool
}

// window copies b to the end of the arena and returns that window of it
// (len(b) bytes, capacity reaching to the end of the arena).
func (st *c09State) window(b []byte) []byte {
	if st.arena == nil {
		st.arena = make([]byte, 0, 1<<15)
	}
	if len(st.arena)+len(b)+8 > cap(st.arena) {
		return clone(b)
	}
	off := len(st.arena)
	st.arena = append(st.arena, b...)
	w := st.arena[off:len(st.arena)]
	st.arena = append(st.arena, 0xC5, 0xC5, 0xC5, 0xC5) // a little caller data behind the last window as well
	st.arenaKeep = append(st.arenaKeep[:0], st.arena...)
	return w
}

// arenaIntact reports whether the caller's buffer still holds what the caller put there.
func (st *c09State) arenaIntact() bool { return bytes.Equal(st.arena, st.arenaKeep) }

func (st *c09State) cmdPTSField() uint64 {
	switch st.m.Cmd {
	case 0x06:
		return st.m.TSPTS
	case 0x05:
		return st.m.Ins.PTS
	}
	return 0
}

const m33 = uint64(1)<<33 - 1

func (st *c09State) descs() []scte35.SegmentationDescriptor {
	if !st.handlesOK {
		st.handles, st.handlesOK = st.sig.Descriptors(), true
	}
	return st.handles
}

// c09Apply applies one setter call to the library object and to the model.
// It returns a description, or "" when the mutation does not apply.
func c09Apply(st *c09State, mu MutC09) string {
	s, m := st.sig, &st.m
	ins, _ := s.CommandInfo().(scte35.SpliceInsertCommand)
	isIns := m.Cmd == 0x05 && ins != nil
	ds := st.descs()
	var d scte35.SegmentationDescriptor
	var md *ref.SpliceDesc
	if len(ds) > 0 {
		k := mu.K % len(ds)
		d = ds[k]
		// the k-th segmentation descriptor of the model
		j := -1
		for i := range m.Descs {
			if !m.Descs[i].Foreign {
				j++
				if j == k {
					md = &m.Descs[i]
				}
			}
		}
	}
	if st.repeated {
		switch mu.Kind {
		case 0, 1, 2, 3, 4, 5, 6, 7, 8, 9, 10, 11, 12, 13, 14, 15, 36, 37, 38, 46:
		default:
			return ""
		}
	}
	switch mu.Kind {
	case 47:
		// the same handle twice in one list: the loop then carries that descriptor twice ("descriptors in order",
		// "every setter is reflected by the matching getter and by the next encoding")
		if len(ds) == 0 || md == nil || len(ds) > 6 {
			return ""
		}
		list := append([]scte35.SegmentationDescriptor{}, ds...)
		list = append(list, d)
		cp := *md
		cp.Comps = append([]ref.SegOffset{}, md.Comps...)
		cp.MID = append([]ref.SegUPID{}, md.MID...)
		cp.UPID = append(ref.Hex{}, md.UPID...)
		s.SetDescriptors(list)
		st.handlesOK = false
		st.repeated = true
		m.Descs = append(m.Descs, cp)
		if got := s.Descriptors(); len(got) != len(list) {
			st.getterFail = fmt.Sprintf("SetDescriptors was given %d entries (entry %d a second time at the end), Descriptors() lists %d", len(list), mu.K%len(ds), len(got))
		}
		return fmt.Sprintf("SetDescriptors(the %d current ones + number %d again)", len(ds), mu.K%len(ds))
	case 0:
		s.SetTier(uint16(mu.V))
		m.Tier = uint16(mu.V) & 0xFFF
		return fmt.Sprintf("SetTier(%#x)", uint16(mu.V))
	case 1:
		s.SetAdjustPTS(gots.PTS(mu.V)) // possibly wider than the field: truncated to 33 bits
		st.adjusted, st.altDelta = mu.V&m33, 0
		return fmt.Sprintf("SetAdjustPTS(%#x)", mu.V)
	case 2:
		s.SetAlignmentStuffing(uint(mu.V % 4))
		m.Stuffing = int(mu.V % 4)
		return fmt.Sprintf("SetAlignmentStuffing(%d)", mu.V%4)
	case 3, 4, 5, 6, 7, 8, 9, 10, 11, 12, 13:
		if !isIns {
			return ""
		}
		switch mu.Kind {
		case 3:
			ins.SetIsEventCanceled(mu.B)
			m.Ins.Cancel = mu.B
		case 4:
			ins.SetIsOut(mu.B)
			m.Ins.Out = mu.B
		case 5:
			ins.SetIsProgramSplice(mu.B)
			m.Ins.Prog = mu.B
		case 6:
			ins.SetHasDuration(mu.B)
			m.Ins.Dur = mu.B
		case 7:
			ins.SetSpliceImmediate(mu.B)
			m.Ins.Immediate = mu.B
		case 8:
			ins.SetDuration(gots.PTS(mu.V))
			m.Ins.Duration = mu.V & m33
		case 9:
			ins.SetIsAutoReturn(mu.B)
			m.Ins.AutoReturn = mu.B
		case 10:
			ins.SetEventID(uint32(mu.V))
			m.Ins.Event = uint32(mu.V)
		case 11:
			ins.SetUniqueProgramId(uint16(mu.V))
			m.Ins.UniqueID = uint16(mu.V)
		case 12:
			ins.SetAvailNum(uint8(mu.V))
			m.Ins.Avail = uint8(mu.V)
		case 13:
			ins.SetAvailsExpected(uint8(mu.V))
			m.Ins.Avails = uint8(mu.V)
		}
		return fmt.Sprintf("insert.set#%d(%v,%#x)", mu.Kind, mu.B, mu.V)
	case 14:
		switch m.Cmd {
		case 0x06:
			s.CommandInfo().SetHasPTS(mu.B)
			m.TSHasPTS = mu.B
		case 0x05:
			s.CommandInfo().SetHasPTS(mu.B)
			m.Ins.HasPTS = mu.B
		default:
			return ""
		}
		return fmt.Sprintf("command.SetHasPTS(%v)", mu.B)
	case 15:
		switch m.Cmd {
		case 0x06:
			s.CommandInfo().SetPTS(gots.PTS(mu.V))
			st.altDelta += mu.V&m33 - m.TSPTS
			m.TSPTS = mu.V & m33
		case 0x05:
			s.CommandInfo().SetPTS(gots.PTS(mu.V))
			st.altDelta += mu.V&m33 - m.Ins.PTS
			m.Ins.PTS = mu.V & m33
		default:
			return ""
		}
		return fmt.Sprintf("command.SetPTS(%#x)", mu.V)
	case 46:
		// edit a component of a (decoded) splice_insert through the handle Components() returns; the API has no other
		// way to reach them
		if !isIns {
			return ""
		}
		hs := ins.Components()
		if len(hs) == 0 || len(hs) != len(m.Ins.Comps) {
			return ""
		}
		i := int(mu.V>>41) % len(hs)
		tag := byte(mu.V >> 33)
		hs[i].SetComponentTag(tag)
		hs[i].SetHasPTS(mu.B)
		hs[i].SetPTS(gots.PTS(mu.V)) // possibly wider than the field: truncated to 33 bits
		m.Ins.Comps[i] = ref.SpliceComp{Tag: tag, HasPTS: mu.B, PTS: mu.V & m33}
		if g := ins.Components()[i]; g.ComponentTag() != tag || g.HasPTS() != mu.B || uint64(g.PTS()) != mu.V&m33 {
			st.getterFail = fmt.Sprintf("insert component %d after SetComponentTag(%#x) SetHasPTS(%v) SetPTS(%#x): getters report (%#x, %v, %#x)", i, tag, mu.B, mu.V, g.ComponentTag(), g.HasPTS(), uint64(g.PTS()))
		}
		return fmt.Sprintf("insert.Components()[%d].SetComponentTag(%#x)/SetHasPTS(%v)/SetPTS(%#x)", i, tag, mu.B, mu.V)
	case 36:
		c := scte35.CreateTimeSignalCommand()
		c.SetHasPTS(true)
		c.SetPTS(gots.PTS(mu.V))
		s.SetCommandInfo(c)
		st.altDelta += mu.V&m33 - st.cmdPTSField()
		m.Cmd, m.TSHasPTS, m.TSPTS = 0x06, true, mu.V&m33
		m.Ins = ref.SpliceInsert{Comps: []ref.SpliceComp{}}
		return fmt.Sprintf("SetCommandInfo(time_signal %#x)", mu.V&m33)
	case 37:
		// signal-level SetHasPTS (documented: "sets if this SCTE35 message has a PTS")
		switch m.Cmd {
		case 0x06:
			s.SetHasPTS(mu.B)
			m.TSHasPTS = mu.B
		case 0x05:
			s.SetHasPTS(mu.B)
			m.Ins.HasPTS = mu.B
		default:
			return ""
		}
		return fmt.Sprintf("SetHasPTS(%v)", mu.B)
	case 38:
		// signal-level SetPTS: command pts = value, no adjustment
		if m.Cmd != 0x06 && m.Cmd != 0x05 {
			return ""
		}
		v := mu.V & m33
		s.SetPTS(gots.PTS(mu.V)) // possibly wider than the field: truncated to 33 bits
		st.adjusted, st.altDelta = v, 0
		if m.Cmd == 0x06 {
			m.TSPTS = v
		} else {
			m.Ins.PTS = v
		}
		return fmt.Sprintf("SetPTS(%d)", v)
	case 35:
		if len(ds) < 2 {
			return ""
		}
		// replace the descriptor list: drop the last / reverse
		var segs []int
		for i := range m.Descs {
			if !m.Descs[i].Foreign {
				segs = append(segs, i)
			}
		}
		if mu.B {
			s.SetDescriptors(ds[:len(ds)-1])
			st.handlesOK = false
			last := segs[len(segs)-1]
			m.Descs = append(m.Descs[:last:last], m.Descs[last+1:]...)
		} else {
			rev := make([]scte35.SegmentationDescriptor, len(ds))
			for i := range ds {
				rev[len(ds)-1-i] = ds[i]
			}
			s.SetDescriptors(rev)
			st.handlesOK = false
			vals := make([]ref.SpliceDesc, len(segs))
			for i, ix := range segs {
				vals[len(segs)-1-i] = m.Descs[ix]
			}
			for i, ix := range segs {
				m.Descs[ix] = vals[i]
			}
		}
		return fmt.Sprintf("SetDescriptors(drop-last=%v)", mu.B)
	case 45:
		// an empty list, nil or not: every segmentation descriptor goes, the foreign ones are preserved
		if mu.B {
			s.SetDescriptors(nil)
		} else {
			s.SetDescriptors([]scte35.SegmentationDescriptor{})
		}
		st.handlesOK = false
		keep := []ref.SpliceDesc{}
		for _, md := range m.Descs {
			if md.Foreign {
				keep = append(keep, md)
			}
		}
		m.Descs = keep
		return fmt.Sprintf("SetDescriptors(empty, nil=%v)", mu.B)
	}
	if d == nil || md == nil {
		return ""
	}
	switch mu.Kind {
	case 16:
		d.SetEventID(uint32(mu.V))
		md.Event = uint32(mu.V)
	case 17:
		d.SetIsEventCanceled(mu.B)
		md.Cancel = mu.B
	case 18:
		d.SetHasProgramSegmentation(mu.B)
		md.Prog = mu.B
	case 19:
		d.SetHasDuration(mu.B)
		md.Dur = mu.B
	case 20:
		d.SetDuration(gots.PTS(mu.V))
		md.Duration = mu.V & (1<<40 - 1)
	case 21:
		d.SetIsDeliveryNotRestricted(mu.B)
		md.NotRestricted = mu.B
	case 22:
		d.SetIsWebDeliveryAllowed(mu.B)
		md.Web = mu.B
	case 23:
		d.SetHasNoRegionalBlackout(mu.B)
		md.NoBlackout = mu.B
	case 24:
		d.SetIsArchiveAllowed(mu.B)
		md.Archive = mu.B
	case 25:
		d.SetDeviceRestrictions(scte35.DeviceRestrictions(mu.V & 0xFF)) // a 2-bit field
		md.Device = byte(mu.V & 3)
	case 26:
		d.SetTypeID(scte35.SegDescType(mu.V))
		md.Type = byte(mu.V)
		// sub-segment fields exist for types 0x34 and 0x36 only: the flag is kept in step with the type
		// (what a set flag means on another type is not stated), and re-set explicitly after SetTypeID
		md.HasSub = md.HasSub && (md.Type == 0x34 || md.Type == 0x36)
		d.SetHasSubSegments(md.HasSub)
	case 27:
		d.SetSegmentNumber(uint8(mu.V))
		md.Num = uint8(mu.V)
	case 28:
		d.SetSegmentsExpected(uint8(mu.V))
		md.Expected = uint8(mu.V)
	case 29:
		md.HasSub = mu.B && (md.Type == 0x34 || md.Type == 0x36)
		d.SetHasSubSegments(md.HasSub)
	case 30:
		d.SetSubSegmentNumber(uint8(mu.V))
		md.SubNum = uint8(mu.V)
	case 31:
		d.SetSubSegmentsExpected(uint8(mu.V))
		md.SubExpected = uint8(mu.V)
	case 32:
		ty := byte(mu.V % 16)
		if ty == 0x0D {
			ty = 0x0C
		}
		// an identifier of the length SCTE 35 prescribes for the type (nothing for "not used", 8 / 12 / 32 bytes for the
		// fixed-size types): a setter may refuse anything else
		_, data := fixUPIDLen(ty, clone(mu.Data))
		d.SetUPIDType(scte35.SegUPIDType(ty))
		d.SetUPID(st.window(data))
		md.UPIDType, md.UPID, md.MID = ty, clone(data), []ref.SegUPID{}
	case 33:
		d.SetUPIDType(0x0D)
		var ms []scte35.UPID
		md.MID = []ref.SegUPID{}
		for i := 0; i < int(mu.V%3); i++ {
			u := scte35.CreateUPID()
			_, data := fixUPIDLen(byte(i+1), clone(mu.Data))
			u.SetUPIDType(scte35.SegUPIDType(byte(i + 1)))
			u.SetUPID(st.window(data))
			if mu.B {
				u = c09WrappedUPID{inner: u} // the setter takes the interface: any implementation must do
			}
			ms = append(ms, u)
			md.MID = append(md.MID, ref.SegUPID{Type: byte(i + 1), Body: clone(data)})
		}
		d.SetMID(ms)
		md.UPIDType, md.UPID = 0x0D, ref.Hex{}
	case 34:
		var cs []scte35.ComponentOffset
		md.Comps = []ref.SegOffset{}
		for i := 0; i < int(mu.V%3); i++ {
			co := scte35.CreateComponentOffset()
			co.SetComponentTag(byte(0x40 + i))
			off := (mu.V >> 8) & m33
			co.SetPTSOffset(gots.PTS(mu.V >> 8)) // possibly wider than the 33-bit field
			if mu.B {
				co = c09WrappedComp{ComponentOffset: co}
			} else if mu.V&0x80 != 0 {
				// an implementation of its own that reports the offset as it was given, wider than the 33-bit field
				co = &c09OwnComp{tag: byte(0x40 + i), off: gots.PTS(mu.V >> 8)}
			}
			cs = append(cs, co)
			md.Comps = append(md.Comps, ref.SegOffset{Tag: byte(0x40 + i), Offset: off})
		}
		d.SetComponents(cs)
	case 42:
		// adopt a descriptor that belongs to ANOTHER signal (decoded from it, or built and attached to it), then keep
		// editing it through the caller's handle: the adopting signal must reflect those edits
		nd := ref.SpliceDesc{Identifier: ref.CUEI, Event: uint32(mu.V), Prog: true, NotRestricted: true, Type: 0x30, Num: 1, Expected: 2,
			UPIDType: 0x09, UPID: ref.Hex("adopted"), Comps: []ref.SegOffset{}, MID: []ref.SegUPID{}}
		other := ref.Splice{TableID: 0xFC, Tier: 0xFFF, Cmd: 0x06, TSHasPTS: true, TSPTS: 1 + mu.V&0xFFFF, Descs: []ref.SpliceDesc{nd}}
		var od scte35.SegmentationDescriptor
		if mu.B {
			o, err := scte35.NewSCTE35(append([]byte{0}, other.Encode()...))
			if err != nil || len(o.Descriptors()) != 1 {
				return ""
			}
			od = o.Descriptors()[0]
			nd = c09DecodedView(other).Descs[0]
		} else {
			ov := apiExpressible(other)
			o := buildSpliceAPI(&ov, 0)
			if len(o.Descriptors()) != 1 {
				return ""
			}
			od = o.Descriptors()[0]
			nd = ov.Descs[0]
		}
		s.SetDescriptors(append(append([]scte35.SegmentationDescriptor{}, ds...), od))
		st.handlesOK = false
		od.SetSegmentNumber(byte(mu.V >> 8))
		od.SetEventID(uint32(mu.V >> 16))
		nd.Num, nd.Event = byte(mu.V>>8), uint32(mu.V>>16)
		m.Descs = append(m.Descs, nd)
		return fmt.Sprintf("adopt descriptor of another signal (decoded %v) and edit it through the caller's handle", mu.B)
	case 43:
		// edit an entry of the multiple-UPID list through the handle MID() returns
		if md.UPIDType != 0x0D || len(md.MID) == 0 {
			return ""
		}
		hs := d.MID()
		if len(hs) != len(md.MID) {
			return ""
		}
		i := int((mu.V >> 8) % uint64(len(hs)))
		ty := byte(1 + mu.V%12)
		data := mu.Data
		if data == nil {
			data = ref.Hex{}
		}
		hs[i].SetUPIDType(scte35.SegUPIDType(ty))
		hs[i].SetUPID(st.window(data))
		md.MID[i] = ref.SegUPID{Type: ty, Body: clone(data)}
		return fmt.Sprintf("descriptor[%d].MID()[%d].SetUPIDType(%#x)/SetUPID(%d bytes)", mu.K, i, ty, len(data))
	case 44:
		// edit a component through the handle Components() returns
		hs := d.Components()
		if len(hs) == 0 || len(hs) != len(md.Comps) {
			return ""
		}
		i := int((mu.V >> 40) % uint64(len(hs)))
		off := mu.V & m33
		hs[i].SetPTSOffset(gots.PTS(mu.V)) // possibly wider than the 33-bit field
		hs[i].SetComponentTag(byte(mu.V >> 33))
		md.Comps[i] = ref.SegOffset{Tag: byte(mu.V >> 33), Offset: off}
		return fmt.Sprintf("descriptor[%d].Components()[%d].SetPTSOffset(%d)/SetComponentTag(%#x)", mu.K, i, off, byte(mu.V>>33))
	case 40:
		// the descriptor's own component list handed back in another order (reverse / rotate / first one repeated in front)
		cs := d.Components()
		if len(cs) != len(md.Comps) {
			return ""
		}
		pc, pm := c09Permute(cs, md.Comps, int(mu.V%3))
		d.SetComponents(pc)
		md.Comps = pm
	case 41:
		if md.UPIDType != 0x0D {
			return ""
		}
		us := d.MID()
		if len(us) != len(md.MID) {
			return ""
		}
		pu, pm := c09Permute(us, md.MID, int(mu.V%3))
		d.SetMID(pu)
		md.MID = pm
	default:
		return ""
	}
	return fmt.Sprintf("descriptor[%d].set#%d(%v,%#x)", mu.K, mu.Kind, mu.B, mu.V)
}

// decorators: other implementations of the interfaces the list setters accept
type c09WrappedUPID struct{ inner scte35.UPID }

func (w c09WrappedUPID) UPIDType() scte35.SegUPIDType     { return w.inner.UPIDType() }
func (w c09WrappedUPID) UPID() []byte                     { return w.inner.UPID() }
func (w c09WrappedUPID) SetUPIDType(v scte35.SegUPIDType) { w.inner.SetUPIDType(v) }
func (w c09WrappedUPID) SetUPID(v []byte)                 { w.inner.SetUPID(v) }

type c09WrappedComp struct{ scte35.ComponentOffset }

// c09OwnComp is a ComponentOffset implementation that is not the library's.
type c09OwnComp struct {
	tag byte
	off gots.PTS
}

func (c *c09OwnComp) ComponentTag() byte      { return c.tag }
func (c *c09OwnComp) PTSOffset() gots.PTS     { return c.off }
func (c *c09OwnComp) SetComponentTag(v byte)  { c.tag = v }
func (c *c09OwnComp) SetPTSOffset(v gots.PTS) { c.off = v }

// c09Permute applies the same reordering to a list of library objects and to
// the model's list: 0 reverse, 1 rotate left by one, 2 the first element once more in front.
func c09Permute[A any, B any](a []A, b []B, how int) ([]A, []B) {
	n := len(a)
	pa, pb := make([]A, 0, n+1), make([]B, 0, n+1)
	switch {
	case n == 0:
	case how == 0:
		for i := n - 1; i >= 0; i-- {
			pa, pb = append(pa, a[i]), append(pb, b[i])
		}
	case how == 1:
		for i := 0; i < n; i++ {
			pa, pb = append(pa, a[(i+1)%n]), append(pb, b[(i+1)%n])
		}
	default:
		pa, pb = append(pa, a[0]), append(pb, b[0])
		pa, pb = append(pa, a...), append(pb, b...)
	}
	return pa, pb
}

func c09Decodable(m *ref.Splice) bool {
	switch m.Cmd {
	case 0x06:
		return m.TSHasPTS
	case 0x05:
		if !m.Ins.Cancel && m.Ins.Prog && !m.Ins.Immediate && !m.Ins.HasPTS {
			return false
		}
	}
	return true
}

func checkC09(c CaseC09, x *hx.Ctx) *hx.Failure {
	st := &c09State{}
	var before []byte
	switch c.Path {
	case "api":
		st.m = apiExpressible(c.Splice)
		st.sig = buildSpliceAPIAlloc(&st.m, c.Noise, st.window)
		st.adjusted = (st.cmdPTSField() + st.m.Adj) & m33
		// what Data() shows before the first encoding is not stated (nothing, or an encoding made at creation):
		// whatever it is, it changes only when the signal is re-encoded
		if d := st.sig.Data(); len(d) > 0 {
			before = clone(d)
		}
	case "decoded":
		sec := c.Splice.Encode()
		if len(sec) > 4096 {
			return hx.Failf("bad-case", "section too long")
		}
		in := append([]byte{0}, sec...)
		if c.BadCRC > 0 {
			// receivers would reject it, this decoder does not check: whatever it re-emits must carry a correct CRC
			in[len(in)-1-(c.BadCRC-1)/8] ^= 1 << uint((c.BadCRC-1)%8)
		}
		in = append(in, bytes.Repeat([]byte{0xFF}, c.Tail)...)
		s, err := scte35.NewSCTE35(in)
		if err != nil {
			if c.BadCRC > 0 {
				x.Label("stale-crc-input-refused")
				return nil // a decoder may verify CRC_32; only what it accepts must be re-emitted correctly
			}
			return hx.Failf("decode-error", "NewSCTE35 failed on a well-formed section: %v\n section %x", err, sec)
		}
		sec = in[1:]
		st.sig = s
		st.m = c09DecodedView(c.Splice)
		if kept, same := c09DecodedOrder(s, &st.m); !kept && same {
			// the setter histories address descriptors by their position in Descriptors(): not applicable to this library
			x.Label("decoded-descriptor-list-reordered")
			return nil
		}
		carries, cp := c.Splice.CarriesTime()
		if !carries {
			cp = 0
		}
		st.adjusted = (cp + c.Splice.Adj) & m33
		before = clone(st.sig.Data()) // whatever the raw-data accessor shows after decoding: it must not change until the next encoding
		if len(c.Muts) == 0 {
			// re-encoding a decoded canonical section reproduces it byte for byte
			re := st.sig.UpdateData()
			nm := c09Normalise(c.Splice)
			nm.Stuffing = 0
			want := nm.Encode()
			ko := c09KeepOrder(c.Splice)
			ko.Stuffing = 0
			if !bytes.Equal(re, want) && !bytes.Equal(re, ko.Encode()) {
				return hx.Failf("reencode", "re-encoding the decoded section differs from its canonical form at byte %d (canonical input: %v)\n input %x\n want  %x\n got   %x", firstDiff(re, want), c.Splice.Canonical(), sec, want, re)
			}
		}
	default:
		return hx.Failf("bad-case", "unknown path")
	}
	nt, labels := spliceNT(&c.Splice)
	var hist []string
	cleared, reencoded := false, false
	for _, mu := range c.Muts {
		if mu.Kind == 39 {
			// encode now, verify, and keep editing the same object afterwards
			hist = append(hist, "UpdateData()")
			if f := c09VerifyEncoding(st, c, fmt.Sprintf("path %s, noise %#x, after %v", c.Path, c.Noise, hist)); f != nil {
				return f
			}
			before = clone(st.sig.Data())
			reencoded = true
			continue
		}
		if h := c09Apply(st, mu); h != "" {
			hist = append(hist, h)
			if st.getterFail != "" {
				return hx.Failf("setter-getter", "%s (history %v)", st.getterFail, hist)
			}
			if !mu.B && (mu.Kind == 3 || mu.Kind == 6 || mu.Kind == 14 || mu.Kind == 17 || mu.Kind == 19 || mu.Kind == 37 || mu.Kind == 29) {
				cleared = true
			}
		}
		// the raw-data accessor changes only at UpdateData()
		if before != nil && !bytes.Equal(st.sig.Data(), before) {
			return hx.Failf("data-changed-by-setter", "Data() changed after %v without UpdateData()", hist)
		}
		if before == nil && c.Path == "api" && len(st.sig.Data()) > 0 {
			return hx.Failf("data-changed-by-setter", "Data() became non-empty after %v without UpdateData()", hist)
		}
	}
	x.NT(nt || cleared || c.Noise != 0 || len(c.Splice.Descs) >= 2)
	for _, l := range labels {
		x.Label(l)
	}
	x.Label("path=" + c.Path)
	x.LabelIf(len(hist) > 0, "setter-history")
	x.LabelIf(reencoded, "encoded-more-than-once")
	x.LabelIf(cleared, "flag-cleared-by-setter")
	x.LabelIf(c.Noise != 0, "set-then-clear-noise")
	x.LabelIf(!c09Decodable(&st.m), "time-less-form")

	what := fmt.Sprintf("path %s, noise %#x, setters %v", c.Path, c.Noise, hist)
	return c09VerifyEncoding(st, c, what)
}

// c09VerifyEncoding encodes the signal and compares bytes, structure, getters
// and the decoded result with the model. It is called at the end of every
// case and at every "encode now" step of a history.
func c09VerifyEncoding(st *c09State, c CaseC09, what string) *hx.Failure {
	for i := range st.m.Descs {
		if len(st.m.Descs[i].Bytes())-2 > 255 {
			// the setter history made a descriptor longer than descriptor_length can express: outside the domain
			return nil
		}
	}
	// expected section
	em := c09Normalise(st.m)
	if carries, _ := em.CarriesTime(); carries && st.altDelta&m33 != 0 {
		if alt := (st.adjusted + st.altDelta) & m33; u33(st.sig.PTS()) == alt {
			st.adjusted = alt // pts_adjustment kept as a field, the signal time follows the command time
		}
	}
	st.altDelta = 0
	em.Adj = (st.adjusted - st.cmdPTSField()) & m33
	want := em.Encode()
	got := st.sig.UpdateData()
	from, to := em.StuffingRange()
	carries, _ := em.CarriesTime()
	ko := c09KeepOrder(st.m)
	ko.Adj = em.Adj
	if !bytes.Equal(c09Comparable(got, from, to, !carries), c09Comparable(want, from, to, !carries)) &&
		!bytes.Equal(c09Comparable(got, from, to, !carries), c09Comparable(ko.Encode(), from, to, !carries)) {
		return hx.Failf("encode", "UpdateData() differs from the canonical section of the field values at byte %d (%s)\n want %x\n got  %x", firstDiff(got, want), what, want, got)
	}
	// independent structural facts
	if r := ref.CRC32MPEG2(got); r != 0 {
		return hx.Failf("encode-crc", "emitted section has CRC residue %08x (%s)", r, what)
	}
	if int(got[1]&0x0F)<<8|int(got[2]) != len(got)-3 {
		return hx.Failf("encode-section-length", "section_length %d but %d bytes follow", int(got[1]&0x0F)<<8|int(got[2]), len(got)-3)
	}
	if !bytes.Equal(st.sig.Data(), got) {
		return hx.Failf("data-after-update", "Data() does not return the bytes produced by UpdateData()")
	}
	if again := st.sig.UpdateData(); !bytes.Equal(again, got) {
		return hx.Failf("idempotence", "a second UpdateData() gives different bytes at %d (%s)\n first  %x\n second %x", firstDiff(again, got), what, got, again)
	}
	if len(st.m.Descs) <= 64 { // printing is quadratic in the number of descriptors
		_ = st.sig.String()
	}
	if !bytes.Equal(st.sig.Data(), got) {
		return hx.Failf("idempotence", "String() changed the encoded bytes (%s)", what)
	}
	// getters reflect the setters (descriptor level, modulo meaning)
	segs := []ref.SpliceDesc{}
	for _, d := range em.Descs {
		if !d.Foreign {
			segs = append(segs, d)
		}
	}
	ds := st.descs()
	if len(ds) != len(segs) || len(st.sig.Descriptors()) != len(segs) {
		return hx.Failf("getter-descriptors", "%d descriptors on the signal, model has %d (%s)", len(st.sig.Descriptors()), len(segs), what)
	}
	for k := range segs {
		if f := cmpSegDesc(fmt.Sprintf("getter after setters (%s): descriptor %d", what, k), &segs[k], ds[k]); f != nil {
			f.Key = "getter-" + f.Key
			return f
		}
		if ds[k].SCTE35() != st.sig {
			return hx.Failf("getter-descriptor-backref", "descriptor %d does not refer back to its signal (%s)", k, what)
		}
	}
	// command level: every getter equals the model where the syntax carries the field (values truncated to the field width)
	if ins, ok := st.sig.CommandInfo().(scte35.SpliceInsertCommand); ok && em.Cmd == 0x05 && !em.Ins.Cancel {
		if em.Ins.Dur && u33(ins.Duration()) != em.Ins.Duration {
			return hx.Failf("getter-insert-duration", "splice_insert Duration() = %#x, want %#x (the value set, truncated to 33 bits) (%s)", u33(ins.Duration()), em.Ins.Duration, what)
		}
		if em.Ins.Prog && !em.Ins.Immediate && em.Ins.HasPTS && u33(ins.PTS()) != em.Ins.PTS {
			return hx.Failf("getter-insert-pts", "splice_insert PTS() = %#x, want %#x (the value set, truncated to 33 bits) (%s)", u33(ins.PTS()), em.Ins.PTS, what)
		}
	}
	if ts, ok := st.sig.CommandInfo().(scte35.TimeSignalCommand); ok && em.Cmd == 0x06 && em.TSHasPTS && u33(ts.PTS()) != em.TSPTS {
		return hx.Failf("getter-timesignal-pts", "time_signal PTS() = %#x, want %#x (the value set, truncated to 33 bits) (%s)", u33(ts.PTS()), em.TSPTS, what)
	}
	if !st.arenaIntact() {
		return hx.Failf("setter-arg-memory-written", "the buffer the UPID slices given to SetUPID were cut from was modified by the library, at byte %d of %d (%s)", firstDiff(st.arena, st.arenaKeep), len(st.arena), what)
	}
	if st.sig.Tier() != em.Tier {
		return hx.Failf("getter-tier", "Tier() = %#x, want %#x (%s)", st.sig.Tier(), em.Tier, what)
	}
	if carries && u33(st.sig.PTS()) != st.adjusted {
		return hx.Failf("getter-pts", "PTS() = %d, want the adjusted PTS %d (%s)", u33(st.sig.PTS()), st.adjusted, what)
	}
	// decoding the encoded bytes reports the same field values
	if c09Decodable(&em) {
		s2, err := scte35.NewSCTE35(append([]byte{0}, got...))
		if err != nil {
			return hx.Failf("redecode-error", "the encoded section does not decode: %v (%s)\n section %x", err, what, got)
		}
		dv := c09DecodedView(em)
		if f := cmpSplice("decoding the encoded section ("+what+")", &dv, s2); f != nil {
			f.Key = "redecode-" + f.Key
			return f
		}
	}
	return nil
}

var propC09 = hx.Register(hx.Prop[CaseC09]{ID: "C09", Gen: genC09, Check: checkC09})

func c09Rule() {
	hx.Rec("C09").SetRule("cases: a reference-model signal (C08 generator; time-less time_signal / splice_insert forms added on the API path) realised either (api) through CreateSCTE35/Create*Command/CreateSegmentationDescriptor/CreateUPID/CreateComponentOffset and setters with a drawn selection of set-then-clear noise, out-of-width values and UPID-kind switching, or (decoded) by decoding the reference encoding; then a drawn history of 0..8 further setter calls out of 46 kinds (editing the components of a decoded splice_insert through the handles Components() returns, the descriptor list set again with one of its handles repeated, signal, command, descriptor, descriptor-list and command replacement, adopting a descriptor of another signal and editing it through the caller's handle, editing MID entries and components through the handles the getters return, a descriptor's own component / MID list handed back reordered; the byte slices given to SetUPID are adjacent windows of one caller buffer) is applied to the library object and to the model. Oracle: UpdateData() = reference encoding of the model in the library's normal form, byte for byte (alignment-stuffing byte values masked); reference CRC residue 0; section_length consistent; Data() unchanged by setters and equal to the encoding afterwards; UpdateData twice and String() leave the bytes unchanged; descriptor getters reflect the setters; decoding the encoded bytes reports the model (when the decoder supports the form); with an empty history a decoded canonical section re-encodes to itself. Non-trivial: cancelled/component/immediate splice_insert, a field with a bit >= 32, >= 2 descriptor shapes or >= 2 descriptors, set-then-clear noise, or a flag cleared by a setter.",
		"foreign descriptors after a segmentation descriptor and splice_command_length 0xFFF are compared against the library's normal form (foreign first, real length)",
		"after SetTypeID the sub-segment flag is re-set explicitly (undocumented interaction)",
		"signals the decoder does not support (time-less forms) are checked against the reference encoder only")
}

func TestC09(t *testing.T) {
	c09Rule()
	replayRegress(t, "C09")
	propC09.Run(t)
}

func FuzzC09(f *testing.F) {
	c09Rule()
	f.Fuzz(propC09.Fuzz())
}

// c09DecodedOrder compares the descriptor list a decoded signal hands out with the wire order. The statement fixes the
// order of the ENCODING ("descriptors in order"); in which order Descriptors() lists what was decoded is not stated (the
// interface documents "sorted by descriptor weight"). kept: the k-th descriptor is the k-th segmentation descriptor on
// the wire; same: the list holds the same descriptors in another order.
func c09DecodedOrder(sig scte35.SCTE35, m *ref.Splice) (kept, same bool) {
	segs := []ref.SpliceDesc{}
	for _, d := range m.Descs {
		if !d.Foreign {
			segs = append(segs, d)
		}
	}
	ds := sig.Descriptors()
	if len(ds) != len(segs) {
		return true, false // reported by the regular comparison
	}
	kept = true
	for k := range segs {
		if cmpSegDesc("order", &segs[k], ds[k]) != nil {
			kept = false
		}
	}
	if kept {
		return true, true
	}
	used := make([]bool, len(ds))
	for k := range segs {
		found := false
		for j := range ds {
			if !used[j] && cmpSegDesc("order", &segs[k], ds[j]) == nil {
				used[j], found = true, true
				break
			}
		}
		if !found {
			return false, false
		}
	}
	return false, true
}
