package props

import (
	"fmt"
	"testing"

	"github.com/Comcast/gots/v2/psi"
	"pgregory.net/rapid"

	"verifharness/hx"
	"verifharness/ref"
)

// C20 — stream types and PMT descriptor decoders.
//
// Reference: the code lists of the statement, typed in here.
var (
	c20Audio   = map[int]bool{0x0F: true, 0x81: true, 0x87: true}
	c20Video   = map[int]bool{0x02: true, 0x1B: true, 0x24: true}
	c20SCTE35  = map[int]bool{0x86: true}
	c20ID3     = map[int]bool{0x15: true}
	c20Private = map[int]bool{0x06: true}
	c20Lag     = map[int]bool{0x03: true, 0x04: true, 0x0F: true, 0x11: true, 0x81: true, 0x87: true, 0x88: true}
)

type CaseC20 struct {
	Code  int              `json:"stream_type"`
	PID   int              `json:"pid"`
	Desc  ref.Descriptor   `json:"desc"`      // a well-formed descriptor of a decoded kind
	Other int              `json:"other_tag"` // the same body under this other tag
	Types []int            `json:"types"`     // stream types of a small PMT for the by-PID query
	Extra []ref.Descriptor `json:"extra"`     // descriptors attached to the streams: classification depends on the code only
}

func genC20(t *rapid.T) CaseC20 {
	c := CaseC20{}
	c.Code = rapid.IntRange(0, 255).Draw(t, "code")
	c.PID = int(genBits(t, 13, "pid"))
	for {
		c.Desc = genDescriptor(t, 60)
		switch c.Desc.Tag {
		case 0x0A, 0x0E, 0x05, 0x7F, 0xB0:
		default:
			continue
		}
		break
	}
	c.Other = rapid.IntRange(0, 255).Draw(t, "other-tag")
	n := rapid.IntRange(1, 6).Draw(t, "ntypes")
	for i := 0; i < n; i++ {
		if rapid.Bool().Draw(t, "lag-type") {
			c.Types = append(c.Types, rapid.SampledFrom([]int{3, 4, 15, 17, 129, 135, 136, 2, 27, 36, 134, 21, 6}).Draw(t, "type-known"))
		} else {
			c.Types = append(c.Types, rapid.IntRange(0, 255).Draw(t, "type-any"))
		}
	}
	ne := rapid.IntRange(0, 3).Draw(t, "nextra")
	for i := 0; i < ne; i++ {
		switch rapid.IntRange(0, 3).Draw(t, "extra-kind") {
		case 0:
			// descriptors that announce a codec (DVB AC-3 / E-AC-3, registration format identifiers)
			c.Extra = append(c.Extra, rapid.SampledFrom([]ref.Descriptor{
				{Tag: 0x6A, Body: []byte{0x00}}, {Tag: 0x7A, Body: []byte{0x00}}, {Tag: 0x05, Body: []byte("AC-3")}, {Tag: 0x05, Body: []byte("EAC3")},
				{Tag: 0x05, Body: []byte("HEVC")}, {Tag: 0x05, Body: []byte("CUEI")}, {Tag: 0x7C, Body: []byte{0x58, 0x00}}, {Tag: 0x81, Body: []byte{0x08, 0x3C, 0x05}},
				{Tag: 0xCC, Body: []byte{0xC0, 0x00}}, {Tag: 0x28, Body: []byte{0x64, 0x00, 0x28, 0x3F}}, {Tag: 0x38, Body: []byte{0x00, 0x00, 0x00, 0x00, 0x00, 0x00, 0x00, 0x00, 0x00, 0x00, 0x00, 0x00, 0x00}}}).Draw(t, "extra-codec"))
		default:
			c.Extra = append(c.Extra, genDescriptor(t, 30))
		}
	}
	return c
}

func c20StreamType(code int, st psi.PmtStreamType, what string) *hx.Failure {
	if int(st.StreamType()) != code {
		return hx.Failf("streamtype-code", "%s: StreamType() = %#x for code %#x", what, st.StreamType(), code)
	}
	if st.StreamTypeDescription() == "" {
		return hx.Failf("streamtype-description", "%s: empty description for code %#x", what, code)
	}
	type pr struct {
		name string
		got  bool
		want bool
	}
	for _, p := range []pr{
		{"IsAudioContent", st.IsAudioContent(), c20Audio[code]},
		{"IsVideoContent", st.IsVideoContent(), c20Video[code]},
		{"IsSCTE35Content", st.IsSCTE35Content(), c20SCTE35[code]},
		{"IsID3Content", st.IsID3Content(), c20ID3[code]},
		{"IsPrivateContent", st.IsPrivateContent(), c20Private[code]},
		{"IsStreamWherePresentationLagsEbp", st.IsStreamWherePresentationLagsEbp(), c20Lag[code]},
	} {
		if p.got != p.want {
			return hx.Failf("streamtype-"+p.name, "%s: %s() = %v for stream_type %#x, the statement's list says %v", what, p.name, p.got, code, p.want)
		}
	}
	return nil
}

// c20Decoders checks the decoders on a descriptor with the given tag and body.
// matching says which decoder kind the body is well-formed for.
func c20Decoders(tag byte, body []byte, kind byte) *hx.Failure {
	d := psi.NewPmtDescriptor(tag, clone(body))
	what := fmt.Sprintf("tag %#x body %x", tag, body)
	if d.Tag() != tag {
		return hx.Failf("desc-tag", "%s: Tag() = %#x", what, d.Tag())
	}
	// "its neutral value" is not spelled out by the statement: it is whatever the decoder returns for a canonical descriptor
	// of a tag no decoder owns (tag 0, empty body), and every descriptor of another tag must return the same
	neutral := psi.NewPmtDescriptor(0x00, nil)
	// maximum bitrate
	wantRate := neutral.DecodeMaximumBitRate()
	wantESRate := psi.NewPmtElementaryStream(0x1B, 0x100, []psi.PmtDescriptor{psi.NewPmtDescriptor(0xC0, []byte{1}), neutral}).MaxBitRate()
	if tag == 0x0E && kind == 0x0E {
		wantRate = uint32(body[0]&0x1f)<<16 | uint32(body[1])<<8 | uint32(body[2])
		wantESRate = uint64(wantRate) * 50 * 8
	}
	if tag != 0x0E || kind == 0x0E {
		if got := d.DecodeMaximumBitRate(); got != wantRate {
			return hx.Failf("desc-maxbitrate", "%s: DecodeMaximumBitRate() = %d, want %d", what, got, wantRate)
		}
		es := psi.NewPmtElementaryStream(0x1B, 0x100, []psi.PmtDescriptor{psi.NewPmtDescriptor(0xC0, []byte{1}), d})
		// (a stream without the descriptor may estimate its rate from something else: only asserted with it)
		if got := es.MaxBitRate(); got != wantESRate && tag == 0x0E {
			return hx.Failf("desc-es-maxbitrate", "%s: elementary stream MaxBitRate() = %d, want %d (maximum_bitrate x 50 x 8, or what a stream without the descriptor reports)", what, got, wantESRate)
		}
		if d.IsMaximumBitrateDescriptor() != (tag == 0x0E) {
			return hx.Failf("desc-ismaxbitrate", "%s: IsMaximumBitrateDescriptor() = %v", what, d.IsMaximumBitrateDescriptor())
		}
	}
	// ISO 639
	if tag != 0x0A || kind == 0x0A {
		wantCode, wantType := neutral.DecodeIso639LanguageCode(), neutral.DecodeIso639AudioType()
		if tag == 0x0A {
			wantCode, wantType = string(body[0:3]), body[3]
		}
		if got := d.DecodeIso639LanguageCode(); got != wantCode {
			return hx.Failf("desc-iso639-code", "%s: DecodeIso639LanguageCode() = %q, want %q", what, got, wantCode)
		}
		if got := d.DecodeIso639AudioType(); got != wantType {
			return hx.Failf("desc-iso639-audiotype", "%s: DecodeIso639AudioType() = %#x, want %#x (neutral value for another tag)", what, got, wantType)
		}
		if d.IsIso639LanguageDescriptor() != (tag == 0x0A) {
			return hx.Failf("desc-isiso639", "%s: IsIso639LanguageDescriptor() = %v", what, d.IsIso639LanguageDescriptor())
		}
	}
	// TTML
	if tag != 0x7F || kind == 0x7F {
		wantLang, wantPurpose := neutral.DecodeTTMLIso639LanguageCode(), neutral.DecodeTTMLSubtitlePurpose()
		if tag == 0x7F {
			wantLang, wantPurpose = string(body[1:4]), body[4]>>2
		}
		// an extension descriptor (tag 0x7F) whose descriptor_tag_extension is not 0x20 is neither a TTML descriptor nor
		// "a descriptor of another tag": what the TTML decoders say about it is not asserted
		ttmlProper := tag == 0x7F && len(body) >= 1 && body[0] == 0x20
		if tag != 0x7F || ttmlProper {
			if got := d.DecodeTTMLIso639LanguageCode(); got != wantLang {
				return hx.Failf("desc-ttml-lang", "%s: DecodeTTMLIso639LanguageCode() = %q, want %q", what, got, wantLang)
			}
			if got := d.DecodeTTMLSubtitlePurpose(); got != wantPurpose {
				return hx.Failf("desc-ttml-purpose", "%s: DecodeTTMLSubtitlePurpose() = %#x, want %#x", what, got, wantPurpose)
			}
			if d.IsTTMLSubtitlingDescriptor() != (tag == 0x7F) {
				return hx.Failf("desc-isttml", "%s: IsTTMLSubtitlingDescriptor() = %v", what, d.IsTTMLSubtitlingDescriptor())
			}
		}
		// the tag-extension test belongs to the extension descriptor: under any other tag it has nothing to say
		if got, want := d.IsTTMLDescTagExtension(), tag == 0x7F && len(body) >= 1 && body[0] == 0x20; got != want {
			return hx.Failf("desc-ttml-tagext", "%s: IsTTMLDescTagExtension() = %v, want %v", what, got, want)
		}
		es := psi.NewPmtElementaryStream(0x06, 0x100, []psi.PmtDescriptor{d})
		if got := es.IsTTMLSubtitling(); got != (tag == 0x7F && len(body) >= 1 && body[0] == 0x20) {
			return hx.Failf("desc-es-isttml", "%s: elementary stream IsTTMLSubtitling() = %v", what, got)
		}
	}
	// DOVI registration
	if tag != 0x05 || kind == 0x05 {
		want := tag == 0x05 && string(body[:4]) == "DOVI"
		if got := d.IsDolbyVision(); got != want {
			return hx.Failf("desc-dovi", "%s: IsDolbyVision() = %v, want %v", what, got, want)
		}
	}
	// Dolby Vision codec string
	if tag != 0xB0 || kind == 0xB0 {
		for _, orig := range []string{"hvc1", "", "hev1.2.4.L120.90", "avc1.640028", "avc3", "dvh1.05.06", "dvav.09.05", "mp4a.40.2",
			// RFC 6381 lists, as a manifest's CODECS attribute carries them
			"hvc1.2.4.L120.90", "hvc1.1.6.L93.B0", "hvc1,ec-3", "hev1.1.6.L93.B0,mp4a.40.2", "hvc1,", ",hev1", "mp4a.40.2,hvc1.2.4.L120.90", "avc1.640028,ac-3"} {
			want := neutral.DecodeDolbyVisionCodec(orig)
			if tag == 0xB0 {
				num := uint16(body[2])<<8 | uint16(body[3])
				want = fmt.Sprintf("dvhe.%02d.%02d", num>>9, (num>>3)&0x3F)
			}
			if got := d.DecodeDolbyVisionCodec(orig); got != want {
				return hx.Failf("desc-dolbyvision-codec", "%s: DecodeDolbyVisionCodec(%q) = %q, want %q", what, orig, got, want)
			}
		}
	}
	return nil
}

func c20PMTQuery(types []int, extra []ref.Descriptor) *hx.Failure {
	m := &ref.PMT{Program: 1, Version: 3, CurrentNext: true, PCRPID: 0x100}
	for i, ty := range types {
		m.Streams = append(m.Streams, ref.ESInfo{StreamType: byte(ty), PID: 0x100 + i, Descs: extra})
	}
	pmt, err := psi.NewPMT(append([]byte{0}, m.Section()...))
	if err != nil {
		return nil // decoding as such is C06's business (the extra descriptors carry arbitrary bodies)
	}
	for i, ty := range types {
		if got := pmt.IsPidForStreamWherePresentationLagsEbp(0x100 + i); got != c20Lag[ty] {
			return hx.Failf("pmt-lag-query", "IsPidForStreamWherePresentationLagsEbp(pid of a stream_type %#x stream) = %v, the statement's list says %v", ty, got, c20Lag[ty])
		}
		if f := c20StreamType(ty, pmt.ElementaryStreams()[i], "decoded elementary stream"); f != nil {
			return f
		}
	}
	if pmt.IsPidForStreamWherePresentationLagsEbp(0x1F00) {
		return hx.Failf("pmt-lag-query", "IsPidForStreamWherePresentationLagsEbp is true for a PID that is not in the PMT")
	}
	return nil
}

func checkC20(c CaseC20, x *hx.Ctx) *hx.Failure {
	near := false
	for _, m := range []map[int]bool{c20Audio, c20Video, c20SCTE35, c20ID3, c20Private, c20Lag} {
		if m[c.Code] || m[c.Code-1] || m[c.Code+1] {
			near = true
		}
	}
	x.NT(near || (byte(c.Other) != c.Desc.Tag))
	x.LabelIf(near, "code-in-or-next-to-a-list")
	x.Label(fmt.Sprintf("desc-kind=%#x", c.Desc.Tag))
	if f := c20StreamType(c.Code, psi.LookupPmtStreamType(uint8(c.Code)), "LookupPmtStreamType"); f != nil {
		return f
	}
	es := psi.NewPmtElementaryStream(uint8(c.Code), c.PID, nil)
	if es.ElementaryPid() != c.PID {
		return hx.Failf("es-pid", "NewPmtElementaryStream(pid %d).ElementaryPid() = %d", c.PID, es.ElementaryPid())
	}
	if f := c20StreamType(c.Code, es, "NewPmtElementaryStream"); f != nil {
		return f
	}
	if f := c20Decoders(c.Desc.Tag, c.Desc.Body, c.Desc.Tag); f != nil {
		return f
	}
	if f := c20Decoders(byte(c.Other), c.Desc.Body, c.Desc.Tag); f != nil {
		return f
	}
	// with descriptors attached the classification must be the same
	var ds []psi.PmtDescriptor
	for _, d := range c.Extra {
		ds = append(ds, psi.NewPmtDescriptor(d.Tag, clone(d.Body)))
	}
	if len(ds) > 0 {
		if f := c20StreamType(c.Code, psi.NewPmtElementaryStream(uint8(c.Code), c.PID, ds), fmt.Sprintf("NewPmtElementaryStream with %d descriptors (tags %v)", len(ds), c20Tags(c.Extra))); f != nil {
			return f
		}
	}
	if f := c20PMTQuery(append([]int{c.Code}, c.Types...), c.Extra); f != nil {
		return f
	}
	return c20PMTQuery(c.Types, nil)
}

var propC20 = hx.Register(hx.Prop[CaseC20]{ID: "C20", Gen: genC20, Check: checkC20})

func c20Rule() {
	hx.Rec("C20").SetRule("cases: a stream_type code, a PID, a well-formed descriptor of one of the decoded kinds (ISO-639 with 4k-byte body, maximum_bitrate < 2^21 with random reserved bits, registration 4..12 bytes with/without DOVI, TTML extension body >= 5 bytes with tag extension 0x20 (bodies with another tag extension are generated but only the tag-extension test and the stream-level TTML test are asserted on them), Dolby Vision with profile 0..127 and level 0..31, decoded with sixteen different originalCodec arguments (single codecs and comma-separated lists)), the same body under another drawn tag, and a small list of stream types for the PMT-level by-PID query (through a reference-built PMT decoded by NewPMT). Oracle: the statement's code lists typed into the harness; decoder definitions; under another tag the same value as for a canonical descriptor of tag 0 with an empty body (the decoder's neutral value; false for the tests). Enumerated: all 256 stream types (lookup, constructor, decoded-from-PMT, by-PID query); every decoder's body under all 256 tags. Non-trivial: code in or adjacent to a positive list, or the descriptor's tag differs from the decoder's tag.",
		"maximum_bitrate below 2^21 and Dolby Vision level below 32 (the ranges the quantifier text gives)",
		"a decoder is only applied to bodies that are well-formed for it, or under a tag it does not decode")
}

func TestC20(t *testing.T) {
	c20Rule()
	replayRegress(t, "C20")
	propC20.Run(t)
}

func TestC20Exhaustive(t *testing.T) {
	c20Rule()
	if !hx.FirstShard() {
		t.Skip("enumeration runs on shard 0")
	}
	bodies := []ref.Descriptor{
		{Tag: 0x0A, Body: []byte("eng\x03")},
		{Tag: 0x0A, Body: []byte("fra\x80spa\x01")},
		{Tag: 0x0E, Body: []byte{0xDF, 0xFF, 0xFF}},
		{Tag: 0x0E, Body: []byte{0xC0, 0x12, 0x34}},
		{Tag: 0x05, Body: []byte("DOVI")},
		{Tag: 0x05, Body: []byte("CUEIxx")},
		{Tag: 0x7F, Body: []byte{0x20, 'd', 'e', 'u', 0x44, 0x30, 0x00}},
		{Tag: 0x7F, Body: []byte{0x21, 'd', 'e', 'u', 0xC4, 0x00}},
		{Tag: 0xB0, Body: []byte{1, 0, 0x10<<1 | 0, 0x1F<<3 | 5, 0x10}},
		{Tag: 0xB0, Body: []byte{1, 0, 0xFE, 0x08, 0xE0, 0x23, 0x20}},
	}
	for code := 0; code < 256; code++ {
		for bi, b := range bodies {
			c := CaseC20{Code: code, PID: code * 31 & 0x1FFF, Desc: b, Other: code, Types: []int{code, (code + 1) & 0xFF, 0x0F}}
			if f := propC20.EvalFast(c, hx.HashInts(uint64(code), uint64(bi))); f != nil {
				t.Fatalf("VIOLATION-CANDIDATE property=C20 key=%s: %s", f.Key, f.Msg)
			}
		}
	}
	hx.Rec("C20").Subspace("all 256 stream_type codes (lookup, constructor, decoded from a PMT, by-PID query) x 10 well-formed descriptor bodies, each body also under every one of the 256 tags")
}

func FuzzC20(f *testing.F) {
	c20Rule()
	f.Fuzz(propC20.Fuzz())
}

func c20Tags(ds []ref.Descriptor) []string {
	var out []string
	for _, d := range ds {
		out = append(out, fmt.Sprintf("%#x", d.Tag))
	}
	return out
}
