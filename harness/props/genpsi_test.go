package props

import (
	"bytes"
	"pgregory.net/rapid"

	"verifharness/ref"
)

// genDescriptor draws a descriptor. Bodies of the tags that the library
// decodes are well-formed for their decoder ("probe" descriptors make body
// content observable, the API has no raw body accessor).
func genDescriptor(t *rapid.T, maxBody int) ref.Descriptor {
	if maxBody < 5 {
		n := rapid.IntRange(0, maxBody).Draw(t, "tiny-body")
		return ref.Descriptor{Tag: rapid.SampledFrom([]byte{0x02, 0x03, 0x09, 0x0B, 0x0D, 0x28, 0x97, 0xC0, 0xFE}).Draw(t, "tiny-tag"), Body: genBytes(t, n, n, "tiny")}
	}
	switch rapid.IntRange(0, 8).Draw(t, "desc-kind") {
	case 0: // ISO 639 language, 4*k bytes
		k := rapid.IntRange(1, min(3, maxBody/4)).Draw(t, "lang-k")
		b := make([]byte, 0, 4*k)
		for i := 0; i < k; i++ {
			b = append(b, []byte(rapid.StringMatching("[a-z]{3}").Draw(t, "lang"))...)
			b = append(b, rapid.SampledFrom([]byte{0, 1, 2, 3, 0x80, 0x81, 0x7F}).Draw(t, "audio-type"))
		}
		return ref.Descriptor{Tag: 0x0A, Body: b}
	case 1: // maximum bitrate: 2 reserved bits + 22 bit value (the decoder is written for < 2^21)
		v := genBits(t, 21, "maxrate")
		res := byte(rapid.IntRange(0, 7).Draw(t, "maxrate-res")) << 5
		return ref.Descriptor{Tag: 0x0E, Body: []byte{res&0xC0 | byte(v>>16)&0x1F, byte(v >> 8), byte(v)}}
	case 2: // registration
		n := rapid.IntRange(4, min(12, maxBody)).Draw(t, "reg-len")
		b := genBytes(t, n, n, "reg")
		switch rapid.IntRange(0, 3).Draw(t, "reg-id") {
		case 0:
			copy(b, "DOVI")
		case 1:
			copy(b, "CUEI")
		case 2:
			// format identifiers are four exact bytes: spellings that differ in case only are other identifiers
			copy(b, rapid.SampledFrom([]string{"dovi", "Dovi", "DOVi", "dOVI", "DoVi", "cuei", "Cuei"}).Draw(t, "reg-id-case"))
		}
		return ref.Descriptor{Tag: 0x05, Body: b}
	case 3: // TTML subtitling (extension descriptor)
		if rapid.IntRange(0, 3).Draw(t, "ttml-ext") == 0 {
			// some other extension descriptor (not TTML): arbitrary bytes behind another descriptor_tag_extension
			n := rapid.IntRange(5, min(20, maxBody)).Draw(t, "ext-len")
			b := genBytes(t, n, n, "ext")
			if b[0] == 0x20 {
				b[0] = 0x21
			}
			return ref.Descriptor{Tag: 0x7F, Body: b}
		}
		// TTML_subtitling_descriptor in the syntax of ETSI EN 303 560: tag extension 0x20, language, purpose + TTS
		// suitability, flags + profile count, the profiles, optional qualifier, optional font list, service name
		b := []byte{0x20}
		b = append(b, rapid.StringMatching("[a-z]{3}").Draw(t, "ttml-lang")...)
		b = append(b, rapid.Byte().Draw(t, "ttml-purpose"))
		fonts, qual := rapid.Bool().Draw(t, "ttml-fonts"), rapid.Bool().Draw(t, "ttml-qualifier")
		np := rapid.IntRange(0, 2).Draw(t, "ttml-profiles")
		fl := byte(0x30) | byte(np)
		if fonts {
			fl |= 0x80
		}
		if qual {
			fl |= 0x40
		}
		b = append(b, fl)
		b = append(b, genBytes(t, np, np, "ttml-profile")...)
		if qual {
			b = append(b, genBytes(t, 4, 4, "ttml-qual")...)
		}
		if fonts {
			nf := rapid.IntRange(0, 2).Draw(t, "ttml-nfonts")
			b = append(b, byte(nf))
			for i := 0; i < nf; i++ {
				b = append(b, 0x80|byte(rapid.IntRange(0, 127).Draw(t, "ttml-font")))
			}
		}
		name := rapid.StringMatching("[a-z]{0,3}").Draw(t, "ttml-name")
		b = append(b, byte(len(name)))
		b = append(b, name...)
		if len(b) > maxBody {
			b = []byte{0x20, b[1], b[2], b[3], b[4], 0x30, 0x00}
		}
		return ref.Descriptor{Tag: 0x7F, Body: b}
	case 4: // Dolby Vision
		// the Dolby Vision descriptor: version 1.0 (the only one defined), profile, level, rpu/el/bl flags, then - without a
		// base layer - the dependency PID, then the compatibility id: 5 bytes with a base layer, 7 without
		bl := rapid.Bool().Draw(t, "dv-bl-present") || maxBody < 7
		n := 7
		if bl {
			n = 5
		}
		b := genBytes(t, n, n, "dv")
		b[0], b[1] = 1, 0
		profile := rapid.IntRange(0, 127).Draw(t, "dv-profile")
		level := rapid.IntRange(0, 31).Draw(t, "dv-level")
		flags := uint16(b[3]&6) | 0
		if bl {
			flags |= 1
		}
		num := uint16(profile)<<9 | uint16(level)<<3 | flags
		b[2], b[3] = byte(num>>8), byte(num)
		return ref.Descriptor{Tag: 0xB0, Body: b}
	case 5: // stream identifier
		return ref.Descriptor{Tag: 0x52, Body: []byte{rapid.Byte().Draw(t, "sid")}}
	default:
		// incl. the DVB / ATSC descriptors that announce a codec carried in a private stream (AC-3, E-AC-3, DTS, AAC, subtitling, teletext)
		tag := rapid.SampledFrom([]byte{0x02, 0x03, 0x09, 0x0B, 0x0C, 0x0D, 0x28, 0x97, 0xC0, 0xFE, 0x11, 0x40, 0x86, 0x6A, 0x7A, 0x6A, 0x7A, 0x7B, 0x7C, 0x81, 0xCC, 0x56, 0x59, 0x8A, 0x8A}).Draw(t, "tag")
		n := rapid.IntRange(0, min(40, maxBody)).Draw(t, "body-len")
		if rapid.IntRange(0, 3).Draw(t, "body-empty") == 0 {
			n = 0 // descriptors may be empty (descriptor_length 0)
		}
		return ref.Descriptor{Tag: tag, Body: genBytes(t, n, n, "body")}
	}
}

func min(a, b int) int {
	if a < b {
		return a
	}
	return b
}

func genDescriptors(t *rapid.T, maxN int, budget *int) []ref.Descriptor {
	n := rapid.IntRange(0, maxN).Draw(t, "ndesc")
	var ds []ref.Descriptor
	for i := 0; i < n; i++ {
		room := *budget - 2
		if room < 0 {
			break
		}
		d := genDescriptor(t, min(room, 60))
		ds = append(ds, d)
		*budget -= 2 + len(d.Body)
	}
	return ds
}

// genPMT draws a program map section of at most 1021 bytes section_length
// with distinct elementary PIDs.
func genPMT(t *rapid.T, minStreams, maxStreams int) *ref.PMT {
	p := &ref.PMT{}
	p.Program = uint16(genBits(t, 16, "program"))
	p.Version = rapid.IntRange(0, 31).Draw(t, "version")
	p.CurrentNext = rapid.Bool().Draw(t, "current-next")
	p.PCRPID = int(genBits(t, 13, "pcr-pid"))
	if p.PCRPID < 0x10 {
		p.PCRPID += 0x10 // PIDs 0x0000-0x000F are reserved (ISO table 2-3); 0x1FFF stays: "no PCR"
	}
	budget := 1021 - 13 // section_length limit minus fixed part and CRC
	p.ProgDescs = genDescriptors(t, 3, &budget)
	n := rapid.IntRange(minStreams, maxStreams).Draw(t, "nstreams")
	used := map[int]bool{}
	types := []byte{0x02, 0x1B, 0x24, 0x0F, 0x81, 0x87, 0x86, 0x15, 0x06, 0x03, 0x04, 0x11, 0x88, 0x00, 0xFF}
	for i := 0; i < n && budget >= 5; i++ {
		budget -= 5
		s := ref.ESInfo{}
		if rapid.Bool().Draw(t, "known-type") {
			s.StreamType = rapid.SampledFrom(types).Draw(t, "stream-type")
		} else {
			s.StreamType = rapid.Byte().Draw(t, "stream-type-any")
		}
		// elementary PIDs from the range ISO table 2-3 allows them (0x0010-0x1FFE): a PMT that lists the PAT, CAT or null
		// PID as an elementary stream is not well-formed, and a strict decoder or filter may refuse it
		for s.PID = legalPID(int(genBits(t, 13, "es-pid"))); used[s.PID]; s.PID = nextLegalPID(s.PID) {
		}
		used[s.PID] = true
		s.Descs = genDescriptors(t, 4, &budget)
		if s.StreamType == 0x86 && budget >= 4 && rapid.IntRange(0, 2).Draw(t, "cue-desc") == 0 {
			// an SCTE-35 stream with its cue_identifier_descriptor (tag 0x8A), with or without the cue_stream_type byte
			d := ref.Descriptor{Tag: 0x8A, Body: genBytes(t, 0, 1, "cue-body")}
			s.Descs = append(s.Descs, d)
			budget -= 2 + len(d.Body)
		}
		if (s.StreamType == 0x06 || s.StreamType >= 0x80) && budget >= 6 && rapid.IntRange(0, 2).Draw(t, "codec-desc") == 0 {
			// a private stream announcing its codec through a descriptor: the stream_type reported stays the one carried
			d := ref.Descriptor{Tag: rapid.SampledFrom([]byte{0x6A, 0x7A, 0x7B, 0x7C, 0x81, 0xCC}).Draw(t, "codec-tag"), Body: genBytes(t, 1, 4, "codec-body")}
			s.Descs = append(s.Descs, d)
			budget -= 2 + len(d.Body)
		}
		p.Streams = append(p.Streams, s)
	}
	// sometimes fill the section to exactly the 1021-byte limit with one more stream
	if budget >= 7 && rapid.IntRange(0, 9).Draw(t, "fill-to-limit") == 0 {
		s := ref.ESInfo{StreamType: 0x06}
		for s.PID = 0x1F00; used[s.PID]; s.PID++ {
		}
		budget -= 5
		// (bodies of zeros or of 0xFF: a run of 0xFF as long as a packet payload is section data, not padding)
		fillByte := rapid.SampledFrom([]byte{0x00, 0xFF}).Draw(t, "fill-byte")
		for budget >= 2 {
			n := min(budget-2, 200)
			s.Descs = append(s.Descs, ref.Descriptor{Tag: 0xC1, Body: bytes.Repeat([]byte{fillByte}, n)})
			budget -= 2 + n
		}
		if budget == 0 || budget == 1 {
			// a remainder of 1 byte cannot be used by a descriptor; shave the previous one instead
			if budget == 1 && len(s.Descs) > 0 && len(s.Descs[0].Body) > 0 {
				// grow is impossible, leave one byte unused
			}
		}
		p.Streams = append(p.Streams, s)
	}
	return p
}

// genCarrier draws pointer_field, preceding complete sections and trailing stuffing.
func genCarrier(t *rapid.T, allowBefore bool) ref.Carrier {
	c := ref.Carrier{}
	switch rapid.IntRange(0, 3).Draw(t, "ptr-kind") {
	case 0, 1:
		c.Pointer = 0
	case 2:
		// up to what the 8-bit field can say (more than fits in one packet: only meaningful for the payload-level API)
		c.Pointer = rapid.SampledFrom([]int{1, 2, 3, 120, 182, 183, 184, 185, 200, 254, 255}).Draw(t, "ptr-b")
	default:
		c.Pointer = rapid.IntRange(0, 120).Draw(t, "ptr")
	}
	if allowBefore {
		nb := rapid.SampledFrom([]int{0, 0, 0, 1, 2}).Draw(t, "nbefore")
		for i := 0; i < nb; i++ {
			tid := rapid.SampledFrom([]byte{0x00, 0x01, 0x03, 0x04, 0x05, 0x06, 0x07, 0x40, 0x42, 0xC8, 0xFC, 0xFE}).Draw(t, "before-tid")
			n := rapid.IntRange(5, 60).Draw(t, "before-len") // the long section syntax has five bytes between section_length and the data
			if (tid >= 0x40 || (tid >= 0x04 && tid <= 0x07)) && rapid.IntRange(0, 5).Draw(t, "before-long") == 0 {
				// private sections (table ids from 0x40) and the ISO 14496 / metadata / IPMP sections (0x04..0x07) may be up to 4093
				// bytes behind the length field (12 bits); the other ISO tables stay within 1021
				n = rapid.SampledFrom([]int{1017, 1018, 1019, 1020, 1021, 1500, 2044, 4089}).Draw(t, "before-long-len")
			}
			c.Before = append(c.Before, ref.ForeignSection(tid, genBytes(t, n, n, "before-body")))
		}
	}
	switch rapid.IntRange(0, 3).Draw(t, "trail-kind") {
	case 0:
		c.Trailing = 0
	case 1:
		c.Trailing = rapid.IntRange(0, 4).Draw(t, "trail-s")
	default:
		c.Trailing = rapid.IntRange(0, 200).Draw(t, "trail")
	}
	return c
}

// genSizes draws the payload size of each packet so that every size 1..184
// can occur; forbidden lists cumulative offsets at which no packet boundary
// may fall. The last packet either ends exactly with the payload (adaptation
// field stuffing) or carries 0xFF padding on the payload side.
func genSizes(t *rapid.T, total int, forbidden map[int]bool) []int {
	var sizes []int
	off := 0
	for off < total {
		var s int
		switch rapid.IntRange(0, 5).Draw(t, "size-kind") {
		case 0, 1, 2:
			s = 184
		case 3:
			s = rapid.SampledFrom([]int{183, 182, 1, 2, 3, 4, 100}).Draw(t, "size-b")
		default:
			s = rapid.IntRange(1, 184).Draw(t, "size")
		}
		if off+s >= total {
			// last packet: exact (AF stuffing) or padded on the payload side
			if rapid.Bool().Draw(t, "last-exact") {
				s = total - off
				if s > 184 {
					s = 184
				}
			}
		}
		for forbidden[off+s] && off+s < total {
			if s < 184 {
				s++
			} else {
				s--
				for forbidden[off+s] && s > 1 {
					s--
				}
				break
			}
		}
		sizes = append(sizes, s)
		off += s
	}
	if len(sizes) == 0 {
		sizes = []int{rapid.IntRange(1, 184).Draw(t, "size-empty")}
	}
	return sizes
}

// genOtherPacket draws a packet of a PID other than avoid (null, PAT or some other PID).
func genOtherPacket(t *rapid.T, avoid int) []byte {
	p := &ref.Packet{}
	genHeader(t, p)
	p.PID = rapid.SampledFrom([]int{0x1FFF, 0, 0x11, 0x1000}).Draw(t, "other-pid")
	if p.PID == avoid {
		p.PID = (avoid + 1) & 0x1FFF
	}
	p.AFC = 1
	p.Payload = genBytes(t, 184, 184, "other-payload")
	if rapid.IntRange(0, 2).Draw(t, "other-shaped") == 0 {
		// a complete, CRC-correct program association section at a unit start (on PID 0 it is the stream's PAT): it lists
		// another PID only, the PID under test, or nothing
		pat := ref.PAT{TSID: 1, Version: 1, CurrentNext: true}
		switch rapid.IntRange(0, 2).Draw(t, "other-pat-kind") {
		case 0:
			pat.Entries = []ref.PATEntry{{Program: 1, PID: (avoid + 5) & 0x1FFF}}
		case 1:
			pat.Entries = []ref.PATEntry{{Program: 1, PID: avoid}, {Program: 2, PID: (avoid + 6) & 0x1FFF}}
		}
		pl := append([]byte{0}, pat.Section()...)
		for len(pl) < 184 {
			pl = append(pl, 0xFF)
		}
		p.PUSI = true
		p.Payload = pl
	}
	b := p.MustBytes()
	return b[:]
}

// legalPID maps the reserved PIDs (0x0000-0x000F, 0x1FFF) into the range a PMT or an elementary stream may use.
func legalPID(pid int) int {
	if pid < 0x10 {
		return pid + 0x10
	}
	if pid >= 0x1FFF {
		return 0x1FFE
	}
	return pid
}

// nextLegalPID steps through 0x0010..0x1FFE cyclically.
func nextLegalPID(pid int) int {
	if pid+1 > 0x1FFE {
		return 0x10
	}
	return pid + 1
}
