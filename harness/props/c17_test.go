package props

import (
	"bytes"
	"errors"
	"fmt"
	"testing"

	gots "github.com/Comcast/gots/v2"
	"github.com/Comcast/gots/v2/packet"
	"pgregory.net/rapid"

	"verifharness/hx"
	"verifharness/ref"
)

// C17 — payload accumulator.

type OpC17 struct {
	Kind string  `json:"op"` // write, write-same (the previous packet again, byte for byte), bytes, packets, reset
	Pkt  ref.Hex `json:"pkt,omitempty"`
}

type CaseC17 struct {
	Pred string  `json:"pred"` // done-at, err-at, never, always
	K    int     `json:"k"`
	Ops  []OpC17 `json:"ops"`
}

var errC17Pred = errors.New("harness: predicate failed")

var errC17WrapsDone = fmt.Errorf("harness: predicate gave up: %w", gots.ErrAccumulatorDone)

func c17Pred(kind string, k int) func([]byte) (bool, error) {
	switch kind {
	case "done-at":
		return func(b []byte) (bool, error) { return len(b) >= k, nil }
	case "err-at":
		return func(b []byte) (bool, error) {
			if len(b) >= k {
				return false, errC17Pred
			}
			return false, nil
		}
	case "always":
		return func(b []byte) (bool, error) { return true, nil }
	case "err-once-at", "err-sentinel-once-at", "err-wrapped-sentinel-once-at":
		// fails when the length first reaches k and is simply "not yet done" once it has grown past k+184; the
		// error may be the library's own completion sentinel or wrap it - it still is the predicate's error
		e := errC17Pred
		if kind == "err-sentinel-once-at" {
			e = gots.ErrAccumulatorDone
		} else if kind == "err-wrapped-sentinel-once-at" {
			e = errC17WrapsDone
		}
		// a pure function of the bytes (the model evaluates it too): fails only while the length is within one packet of k
		return func(b []byte) (bool, error) {
			if len(b) >= k && len(b) < k+184 {
				return false, e
			}
			return false, nil
		}
	case "done-first-byte", "err-first-byte", "done-last-byte":
		// predicates that look at the content, not at the length (as the section predicates of the psi package do): two
		// units of the same length get different answers
		th := byte(k)
		return func(b []byte) (bool, error) {
			if len(b) == 0 {
				return false, nil
			}
			switch kind {
			case "done-first-byte":
				return b[0] >= th, nil
			case "done-last-byte":
				return b[len(b)-1] >= th, nil
			}
			if b[0] >= th {
				return false, errC17Pred
			}
			return false, nil
		}
	case "done-and-err-at":
		// complete and failing at once: the error must not be lost
		return func(b []byte) (bool, error) {
			if len(b) >= k {
				return true, errC17Pred
			}
			return false, nil
		}
	default:
		return func(b []byte) (bool, error) { return false, nil }
	}
}

func genC17Packet(t *rapid.T) []byte {
	p := &ref.Packet{}
	genHeader(t, p)
	p.PID = 0x100
	// packets a demultiplexer would hand to an accumulator: no transport error, not scrambled (one that refuses others conforms)
	p.TEI, p.TSC = false, 0
	p.PUSI = rapid.IntRange(0, 3).Draw(t, "pusi3") == 0
	switch rapid.IntRange(0, 5).Draw(t, "shape") {
	case 0: // no payload
		p.AFC = 2
		p.AF = &ref.AF{Len: 183}
		p.Payload = ref.Hex{}
	case 1: // af_len 0
		p.AFC = 3
		p.AF = &ref.AF{Len: 0}
		p.Payload = genBytes(t, 183, 183, "pl")
	case 2: // short payload behind stuffing
		l := rapid.IntRange(100, 183).Draw(t, "afl") // 183: the payload flag is set but no payload byte is left
		p.AFC = 3
		p.AF = &ref.AF{Len: l}
		p.Payload = genBytes(t, 183-l, 183-l, "pl")
	case 3:
		l := rapid.IntRange(1, 182).Draw(t, "afl2")
		p.AFC = 3
		p.AF = &ref.AF{Len: l, RA: true}
		p.Payload = genBytes(t, 183-l, 183-l, "pl")
	default:
		p.AFC = 1
		p.Payload = genBytes(t, 184, 184, "pl")
	}
	b := p.MustBytes()
	return clone(b[:])
}

func genC17(t *rapid.T) CaseC17 {
	c := CaseC17{}
	c.Pred = rapid.SampledFrom([]string{"done-at", "done-at", "err-at", "never", "always", "done-and-err-at", "err-once-at", "err-sentinel-once-at", "err-wrapped-sentinel-once-at",
		"done-first-byte", "err-first-byte", "done-last-byte", "done-first-byte"}).Draw(t, "pred")
	c.K = rapid.SampledFrom([]int{0, 1, 10, 184, 185, 300, 368, 500, 1000}).Draw(t, "k")
	if rapid.IntRange(0, 7).Draw(t, "packed-sections") == 0 {
		// a packed PSI stream: section A (pointer_field 0) runs over several packets, and its last m bytes sit in front of the
		// next section in a packet that is itself a unit start (pointer_field m). The accumulator is payload-agnostic: that
		// packet discards what came before, whatever the bytes look like. The threshold is the size of the complete section A.
		l := rapid.IntRange(190, 600).Draw(t, "section-length")
		for (1+3+l)%184 == 0 {
			l++
		}
		a := append([]byte{rapid.SampledFrom([]byte{0x02, 0x00, 0xFC, 0x42}).Draw(t, "table-id"), 0xB0 | byte(l>>8), byte(l)}, genBytes(t, l, l, "section-body")...)
		stream := append([]byte{0x00}, a...)
		c.Pred, c.K = rapid.SampledFrom([]string{"done-at", "done-at", "never", "err-at"}).Draw(t, "packed-pred"), len(stream)
		cc := rapid.IntRange(0, 15).Draw(t, "cc")
		mk := func(pusi bool, payload []byte) OpC17 {
			p := &ref.Packet{Sync: 0x47, PID: 0x100, PUSI: pusi, AFC: 1, CC: cc & 15, Payload: payload}
			cc++
			b := p.MustBytes()
			return OpC17{Kind: "write", Pkt: clone(b[:])}
		}
		for off := 0; off+184 <= len(stream); off += 184 {
			c.Ops = append(c.Ops, mk(off == 0, clone(stream[off:off+184])))
		}
		m := len(stream) % 184
		last := append([]byte{byte(m)}, stream[len(stream)-m:]...)
		last = append(last, 0x02, 0xB0, 0x2D)
		last = append(last, genBytes(t, 184, 184, "next-section")...)
		c.Ops = append(c.Ops, mk(true, clone(last[:184])), OpC17{Kind: "bytes"}, OpC17{Kind: "packets"})
		return c
	}
	n := rapid.IntRange(1, 30).Draw(t, "steps")
	for i := 0; i < n; i++ {
		switch rapid.IntRange(0, 9).Draw(t, "opk") {
		case 0:
			c.Ops = append(c.Ops, OpC17{Kind: "bytes"})
		case 1:
			c.Ops = append(c.Ops, OpC17{Kind: "packets"})
		case 2:
			c.Ops = append(c.Ops, OpC17{Kind: "reset"})
		case 3:
			c.Ops = append(c.Ops, OpC17{Kind: "write-same"})
		default:
			c.Ops = append(c.Ops, OpC17{Kind: "write", Pkt: genC17Packet(t)})
		}
	}
	return c
}

type c17Model struct {
	state int // 0 starting, 1 accumulating, 2 done
	buf   []byte
	must  [][]byte // packets that contributed (must appear, in order)
	may   [][]byte // all packets submitted since the last unit start that passed the gate (super-sequence bound)
	perr  error    // the predicate's error, once it has failed in this unit (an accumulator may go on refusing with it)
	soft  bool     // the unit was opened by a unit-start packet WITHOUT payload (refused with an error) and nothing was accepted since
	opt   int      // packets of may that may or may not be listed (empty payload, predicate failed: a rollback is invisible)
}

func checkC17(c CaseC17, x *hx.Ctx) *hx.Failure {
	pred := c17Pred(c.Pred, c.K)
	acc := packet.NewAccumulator(pred)
	var shadow packet.Accumulator // a fresh accumulator started at the last Reset, driven in lockstep
	m := &c17Model{}
	var nRestart, nAfterDone, nPredErr, nReset, nNoPayload, nSame int
	var lastPkt []byte
	unitStarts := 0

	observe := func(step int, where string) *hx.Failure {
		got := acc.Bytes()
		if !bytes.Equal(got, m.buf) {
			return hx.Failf("bytes", "%s: Bytes() has %d bytes, the payloads accepted since the last unit start are %d bytes (first difference at %d)", where, len(got), len(m.buf), firstDiff(got, m.buf))
		}
		// (the statement promises an independent copy for the packet list only: Bytes() is read, not written to)
		if again := acc.Bytes(); !bytes.Equal(again, m.buf) {
			return hx.Failf("bytes-unstable", "%s: a second Bytes() call returns other bytes than the first", where)
		}
		pk := acc.Packets()
		// must be a super-sequence of m.must and a sub-sequence of m.may
		if f := c17Seq(pk, m, where); f != nil {
			return f
		}
		// an independent copy: neither the slice nor the packets in it belong to the accumulator any more
		for i := range pk {
			if pk[i] != nil {
				pk[i][0], pk[i][1], pk[i][99] = 0xEE, pk[i][1]^0xFF, pk[i][99]^0xFF
			}
			pk[i] = nil
		}
		pk2 := acc.Packets()
		if f := c17Seq(pk2, m, where+" (after clearing the returned slice)"); f != nil {
			f.Key = "packets-alias"
			return f
		}
		if shadow != nil {
			if !bytes.Equal(shadow.Bytes(), m.buf) || len(shadow.Packets()) != len(pk2) {
				return hx.Failf("reset-differs-from-fresh", "%s: after Reset the accumulator differs from a fresh one fed the same packets (fresh: %d bytes %d packets; reset: %d bytes %d packets)", where, len(shadow.Bytes()), len(shadow.Packets()), len(m.buf), len(pk2))
			}
		}
		return nil
	}

	// a second, unrelated accumulator lives next to the one under test, is fed OTHER packets between its
	// steps and is Reset at the same moments: accumulators are independent objects
	by := packet.NewAccumulator(func([]byte) (bool, error) { return false, nil })
	var byBuf []byte
	var byPk [][]byte
	byN := 0
	feedBy := func(start bool, where string) *hx.Failure {
		bm := &ref.Packet{Sync: 0x47, PID: 0x222, PUSI: start, AFC: 1, CC: byN & 15, Payload: bytes.Repeat([]byte{byte(0xB0 + byN%64)}, 184)}
		byN++
		bb := bm.MustBytes()
		q := packet.Packet(bb)
		if _, err := by.WritePacket(&q); err != nil {
			return hx.Failf("bystander-error", "%s: a second accumulator (predicate never done) refused a packet with payload: %v", where, err)
		}
		if start {
			byBuf, byPk = nil, nil
		}
		byBuf = append(byBuf, bm.Payload...)
		byPk = append(byPk, clone(bb[:]))
		return nil
	}
	checkBy := func(where string) *hx.Failure {
		if got := by.Bytes(); !bytes.Equal(got, byBuf) {
			return hx.Failf("bystander-bytes", "%s: Bytes() of a second accumulator fed other packets is wrong (%d bytes, want %d, first difference at %d)", where, len(got), len(byBuf), firstDiff(got, byBuf))
		}
		pk := by.Packets()
		if len(pk) != len(byPk) {
			return hx.Failf("bystander-packets", "%s: Packets() of a second accumulator fed other packets has %d entries, want %d", where, len(pk), len(byPk))
		}
		for i := range pk {
			if pk[i] == nil || !bytes.Equal(pk[i][:], byPk[i]) {
				return hx.Failf("bystander-packets", "%s: Packets()[%d] of a second accumulator is not the packet it was given", where, i)
			}
		}
		return nil
	}
	if f := feedBy(true, "start"); f != nil {
		return f
	}

	for i, o := range c.Ops {
		where := fmt.Sprintf("step %d %s (pred %s k=%d)", i, o.Kind, c.Pred, c.K)
		if f := feedBy(false, where); f != nil {
			return f
		}
		switch o.Kind {
		case "bytes", "packets":
			// observation happens after every step anyway
		case "reset":
			nReset++
			acc.Reset()
			shadow = packet.NewAccumulator(pred)
			m = &c17Model{}
			by.Reset()
			if f := feedBy(true, where); f != nil {
				return f
			}
		case "write", "write-same":
			var b [188]byte
			if o.Kind == "write-same" {
				if lastPkt == nil {
					continue
				}
				copy(b[:], lastPkt)
				nSame++
			} else {
				copy(b[:], o.Pkt)
			}
			lastPkt = clone(b[:])
			rp, ok := ref.ParsePacket(b)
			if !ok {
				return hx.Failf("bad-case", "case packets must be well-formed")
			}
			p := packet.Packet(b)
			n, err := acc.WritePacket(&p)
			var sn int
			var serr error
			if shadow != nil {
				sp := packet.Packet(b)
				sn, serr = shadow.WritePacket(&sp)
				// the message text may carry per-object detail (a lifetime counter, an address): only the outcome and the
				// library's sentinels are compared
				if sn != n || (serr == nil) != (err == nil) || !c17SameSentinels(err, serr) {
					return hx.Failf("reset-differs-from-fresh", "%s: after Reset WritePacket returned (%d,%v), a fresh accumulator returned (%d,%v)", where, n, err, sn, serr)
				}
			}
			if p != packet.Packet(b) {
				return hx.Failf("write-mutates", "%s: WritePacket modified the packet it was given", where)
			}
			desc := fmt.Sprintf("%s pusi=%v afc=%d payload=%d", where, rp.PUSI, rp.AFC, len(rp.Payload))
			switch {
			case m.state == 2:
				nAfterDone++
				if err == nil {
					return hx.Failf("accepts-after-done", "%s: a packet was accepted after completion was reported", desc)
				}
			case m.state == 0 && !rp.PUSI:
				if err == nil {
					return hx.Failf("accepts-before-unit-start", "%s: a packet without payload_unit_start_indicator was accepted before the first unit start", desc)
				}
			default:
				if rp.PUSI {
					if m.state == 1 {
						nRestart++
					}
					unitStarts++
					m.state = 1
					m.buf = nil
					m.must = nil
					m.may = nil
					m.opt = 0
					m.perr = nil
					m.soft = false
				}
				m.may = append(m.may, clone(b[:]))
				// payload flag set but adaptation_field_length 183 leaves no payload byte (ISO allows 182 at most there): an
				// accumulator may treat the packet as one without payload
				emptyRefused := rp.AFC&1 != 0 && len(rp.Payload) == 0 && err != nil && bytes.Equal(acc.Bytes(), m.buf)
				if d0, e0 := pred(m.buf); emptyRefused && (d0 || e0 != nil) && (errors.Is(err, gots.ErrAccumulatorDone) || (e0 != nil && errors.Is(err, e0))) {
					emptyRefused = false // that is the predicate's answer on the (unchanged) bytes, not a refusal
				}
				if rp.AFC&1 == 0 || emptyRefused {
					nNoPayload++
					if err == nil {
						return hx.Failf("no-payload-no-error", "%s: a packet without payload was not reported as an error", desc)
					}
					if rp.PUSI {
						m.soft = true
					}
					break
				}
				if m.soft && len(m.buf) == 0 && err != nil && len(acc.Bytes()) == 0 {
					if d2, e2 := pred(rp.Payload); !(d2 && errors.Is(err, gots.ErrAccumulatorDone)) && !(e2 != nil && errors.Is(err, e2)) {
						// the unit start was a packet without payload, which was refused: whether that refused packet opened the
						// unit (continuation packets are taken) or not (they are refused until a unit start with payload) is not stated
						x.Label("payloadless-unit-start-did-not-open-a-unit")
						m.state, m.may, m.soft = 0, nil, false
						break
					}
				}
				m.soft = false
				if m.perr != nil && err != nil && errors.Is(err, m.perr) && bytes.Equal(acc.Bytes(), m.buf) {
					if d2, e2 := pred(append(clone(m.buf), rp.Payload...)); !d2 && !errors.Is(e2, m.perr) {
						// the predicate failed earlier in this unit and the accumulator keeps refusing with that error until
						// the next unit start (as bufio.Writer does): what happens after a predicate error is not stated
						x.Label("predicate-error-sticky")
						break
					}
				}
				m.buf = append(m.buf, rp.Payload...)
				m.must = append(m.must, clone(b[:]))
				done, perr := pred(m.buf)
				switch {
				case perr != nil:
					nPredErr++
					m.perr = perr
					if !errors.Is(err, perr) {
						return hx.Failf("predicate-error-lost", "%s: the predicate failed (done=%v) but WritePacket returned %v", desc, done, err)
					}
					if !done {
						// whether the packet on which the predicate failed stays accumulated is not stated: follow the implementation
						if got := acc.Bytes(); len(got) == len(m.buf)-len(rp.Payload) && bytes.Equal(got, m.buf[:len(got)]) && len(rp.Payload) > 0 {
							m.buf = m.buf[:len(got)]
							m.must = m.must[:len(m.must)-1]
							x.Label("predicate-error-rolled-back")
						} else if len(rp.Payload) == 0 {
							// a rollback of a packet with an empty payload cannot be seen in the bytes: the packet may or may not be listed
							m.must = m.must[:len(m.must)-1]
							m.opt++
						}
					}
					if done {
						// complete and failing at once: what the accumulator does afterwards is not fixed by the statement
						x.NonTrivial()
						x.Label("predicate-done-and-error")
						return nil
					}
				case done:
					m.state = 2
					if !errors.Is(err, gots.ErrAccumulatorDone) {
						return hx.Failf("done-not-reported", "%s: the predicate holds on the %d accumulated bytes but WritePacket returned %v, want ErrAccumulatorDone", desc, len(m.buf), err)
					}
				default:
					if err != nil {
						return hx.Failf("spurious-error", "%s: packet with payload, predicate false on %d bytes, but WritePacket returned %v", desc, len(m.buf), err)
					}
				}
			}
			// the caller may reuse its packet: later observations must not change
			p[100] ^= 0xFF
			p[4] ^= 0xFF
		default:
			return hx.Failf("bad-case", "unknown op %q", o.Kind)
		}
		if f := observe(i, where); f != nil {
			return f
		}
		if f := checkBy(where); f != nil {
			return f
		}
	}
	x.NT(nRestart > 0 || nAfterDone > 0 || nPredErr > 0 || nReset > 0)
	x.LabelIf(nRestart > 0, "second-unit-start")
	x.LabelIf(nAfterDone > 0, "write-after-done")
	x.LabelIf(nPredErr > 0, "predicate-error")
	x.LabelIf(nReset > 0, "reset")
	x.LabelIf(nSame > 0, "same-packet-twice-in-a-row")
	x.LabelIf(nNoPayload > 0, "payload-less-packet-after-start")
	x.LabelIf(unitStarts == 0, "never-started")
	return nil
}

func firstDiff(a, b []byte) int {
	n := len(a)
	if len(b) < n {
		n = len(b)
	}
	for i := 0; i < n; i++ {
		if a[i] != b[i] {
			return i
		}
	}
	return n
}

// c17Seq checks must ⊑ got ⊑ may (as subsequences, comparing packet contents).
func c17Seq(got []*packet.Packet, m *c17Model, where string) *hx.Failure {
	gb := make([][]byte, len(got))
	for i, g := range got {
		if g == nil {
			return hx.Failf("packets-nil", "%s: Packets() contains a nil entry", where)
		}
		gb[i] = g[:]
	}
	if !isSubseq(m.must, gb) {
		return hx.Failf("packets-missing", "%s: Packets() (%d entries) does not contain, in order, the %d packets whose payloads were accumulated since the last unit start", where, len(gb), len(m.must))
	}
	if !isSubseq(gb, m.may) {
		return hx.Failf("packets-extra", "%s: Packets() (%d entries) contains something other than the packets submitted since the last unit start (%d), in order", where, len(gb), len(m.may))
	}
	// "exactly those packets": a packet that was refused with an error (no payload) was not accepted and is not listed
	if len(gb) < len(m.must) || len(gb) > len(m.must)+m.opt {
		return hx.Failf("packets-refused-listed", "%s: Packets() has %d entries, %d packets were accepted since the last unit start (a packet refused with an error is listed)", where, len(gb), len(m.must))
	}
	return nil
}

func isSubseq(small, big [][]byte) bool {
	j := 0
	for _, s := range small {
		for j < len(big) && !bytes.Equal(big[j], s) {
			j++
		}
		if j == len(big) {
			return false
		}
		j++
	}
	return true
}

var propC17 = hx.Register(hx.Prop[CaseC17]{ID: "C17", Gen: genC17, Check: checkC17})

func c17Rule() {
	hx.Rec("C17").SetRule("cases: histories of 1..30 calls (WritePacket with a generated well-formed packet: PUSI on/off, payload-less, af_len 0, short payload behind stuffing, full payload, or the previous packet again byte for byte; Bytes; Packets; Reset) on one accumulator (one history in eight is a packed PSI stream: a section over several packets whose tail sits in front of the next section in a packet that is itself a unit start) with a drawn predicate (done when >= k bytes, error when >= k bytes, done and error at once when >= k bytes, error exactly once (own error, the library's completion sentinel, or a wrapper of it) and not done afterwards, never, always, and predicates that look at the content: done / error when the first byte, done when the last byte is >= byte(k); k from {0,1,10,184,185,300,368,500,1000}). Oracle: a three-state reference model (starting/accumulating/done, byte buffer, packet list); after EVERY call Bytes() and Packets() are compared with the model, returned slices and the packets they point to are scribbled on and the caller's packet is modified to detect aliasing, and after a Reset a fresh accumulator is driven in lockstep (differential); a second accumulator is fed other packets between the steps, Reset at the same moments, and checked as well. Non-trivial: the history contains a second unit start, a write after completion, a predicate error, or a Reset.",
		"Packets() is compared by content with the packets accepted since the last unit start (a packet refused with an error is not one of them)",
		"only well-formed packets are written (malformed ones are C05's business)")
}

func TestC17(t *testing.T) {
	c17Rule()
	replayRegress(t, "C17")
	propC17.Run(t)
}

func FuzzC17(f *testing.F) {
	c17Rule()
	f.Fuzz(propC17.Fuzz())
}

// ---------------------------------------------------------------------------
// long units: tens of thousands of continuation packets after one unit start

type CaseC17Long struct {
	Packets int  `json:"packets"`
	Seed    byte `json:"seed"`
}

func checkC17Long(c CaseC17Long, x *hx.Ctx) *hx.Failure {
	x.NonTrivial()
	x.Label("long-unit")
	acc := packet.NewAccumulator(func(b []byte) (bool, error) { return false, nil })
	var want []byte
	for i := 0; i < c.Packets; i++ {
		m := &ref.Packet{Sync: 0x47, PID: 0x100, CC: i & 0xF, PUSI: i == 0, AFC: 1, Payload: bytes.Repeat([]byte{byte(i) ^ c.Seed}, 184)}
		p := packet.Packet(m.MustBytes())
		if _, err := acc.WritePacket(&p); err != nil {
			return hx.Failf("long-unit-refused", "continuation packet %d of one unit (%d bytes accumulated so far) was refused: %v", i, len(want), err)
		}
		want = append(want, m.Payload...)
		if i%4096 == 4095 || i == c.Packets-1 {
			if got := acc.Bytes(); !bytes.Equal(got, want) {
				return hx.Failf("long-unit-bytes", "after %d packets Bytes() has %d bytes, want %d (first difference at %d)", i+1, len(got), len(want), firstDiff(got, want))
			}
		}
	}
	if n := len(acc.Packets()); n != c.Packets {
		return hx.Failf("long-unit-packets", "Packets() has %d entries after %d accepted packets", n, c.Packets)
	}
	return nil
}

var propC17Long = hx.Register(hx.Prop[CaseC17Long]{ID: "C17", Variant: "long-unit", Check: checkC17Long})

func TestC17LongUnit(t *testing.T) {
	c17Rule()
	if !hx.FirstShard() {
		t.Skip("runs on shard 0")
	}
	sizes := []int{400, 23000}
	if hx.Thorough() {
		sizes = append(sizes, 48000)
	}
	for i, n := range sizes {
		if f := propC17Long.EvalFast(CaseC17Long{Packets: n, Seed: byte(0x30 + i)}, hx.HashInts(uint64(n))); f != nil {
			t.Fatalf("VIOLATION-CANDIDATE property=C17 key=%s: %s", f.Key, f.Msg)
		}
	}
	hx.Rec("C17").Subspace("single units of 400 and 23000 (thorough: 48000) full-payload packets, i.e. more than 4 MiB accumulated after one unit start")
}

// c17SameSentinels: two accumulators fed the same packets fail with the same library sentinels.
func c17SameSentinels(a, b error) bool {
	for _, s := range []error{gots.ErrAccumulatorDone, gots.ErrNoPayload, gots.ErrNoPayloadUnitStartIndicator} {
		if errors.Is(a, s) != errors.Is(b, s) {
			return false
		}
	}
	return true
}
