package props

import (
	"bytes"
	"testing"

	gots "github.com/Comcast/gots/v2"
	"github.com/Comcast/gots/v2/packet"
	"github.com/Comcast/gots/v2/psi"
	"github.com/Comcast/gots/v2/scte35"
	"pgregory.net/rapid"

	"verifharness/hx"
	"verifharness/ref"
)

// C13, emitted sections: every section the library emits (encoded
// splice_info_section, filtered PMT) must have CRC residue zero under the
// independent reference CRC. The generators are those of C09 and C14.

type CaseC13Scte struct {
	C        CaseC09 `json:"signal"`
	Stuffing int     `json:"stuffing"`
	// Sap: the two bits behind private_indicator of a decoded input (reserved '11' in older editions of SCTE 35, sap_type in
	// newer ones: every value is legal), with the input's CRC_32 computed over them. Stored as value+1; 0 = leave as encoded.
	Sap int `json:"sap_type_plus_1,omitempty"`
	// Fill: k > 0 chooses the alignment stuffing so that section_length comes out as 4093-(k-1), the largest values the
	// 12-bit field may announce (SCTE 35 limits the section to 4093 bytes behind the length field)
	Fill int `json:"fill_to_limit,omitempty"`
}

func genC13Scte(t *rapid.T) CaseC13Scte {
	c := CaseC13Scte{C: genC09(t), Stuffing: rapid.SampledFrom([]int{0, 0, 1, 2, 3, 7}).Draw(t, "stuffing")}
	if rapid.Bool().Draw(t, "sap-type") {
		c.Sap = 1 + rapid.IntRange(0, 3).Draw(t, "sap-type-value")
	}
	if rapid.IntRange(0, 5).Draw(t, "fill-to-limit") == 0 {
		c.Fill = rapid.IntRange(1, 5).Draw(t, "fill-k")
	}
	return c
}

func checkC13Scte(c CaseC13Scte, x *hx.Ctx) *hx.Failure {
	st := &c09State{}
	switch c.C.Path {
	case "api":
		st.m = apiExpressible(c.C.Splice)
		st.sig = buildSpliceAPI(&st.m, c.C.Noise)
	default:
		in := append([]byte{0}, c.C.Splice.Encode()...)
		if c.Sap > 0 && len(in) >= 8 {
			in[2] = in[2]&^0x30 | byte(c.Sap-1)<<4
			crc := ref.CRC32MPEG2(in[1 : len(in)-4])
			in[len(in)-4], in[len(in)-3], in[len(in)-2], in[len(in)-1] = byte(crc>>24), byte(crc>>16), byte(crc>>8), byte(crc)
			x.Label("input-sap-type-bits")
		}
		if c.C.BadCRC > 0 {
			// the input's own CRC_32 is stale: whatever the decoder accepts and the encoder emits must carry a correct one
			in[len(in)-1-(c.C.BadCRC-1)/8] ^= 1 << uint((c.C.BadCRC-1)%8)
			x.Label("input-crc-stale")
		}
		s, err := scte35.NewSCTE35(in)
		if err != nil {
			if c.C.BadCRC > 0 || c.Sap > 0 {
				return nil // a decoder may verify CRC_32 (or insist on the reserved bits of its edition); only what it accepts must be re-emitted correctly
			}
			return hx.Failf("decode-error", "NewSCTE35 failed on a well-formed section: %v", err)
		}
		st.sig = s
		st.m = c09DecodedView(c.C.Splice)
	}
	for _, mu := range c.C.Muts {
		c09Apply(st, mu)
	}
	if c.Fill > 0 {
		st.sig.SetAlignmentStuffing(0)
		if room := 4096 - (c.Fill - 1) - len(st.sig.UpdateData()); room > 0 {
			c.Stuffing = room
			x.Label("section-filled-to-the-length-limit")
		}
	}
	st.sig.SetAlignmentStuffing(uint(c.Stuffing))
	x.NonTrivial()
	x.Label("emitted=splice_info_section")
	x.LabelIf(c.Stuffing > 0, "alignment-stuffing>0")
	sec := st.sig.UpdateData()
	if len(sec) < 3 {
		return hx.Failf("emitted-scte-length", "encoded splice_info_section has %d bytes", len(sec))
	}
	if len(sec) > 4096 {
		return nil // the setter history made the section longer than section_length can announce: outside the domain
	}
	// a receiver delimits the section by section_length and applies the CRC condition to exactly those bytes
	if sl := int(sec[1]&0x0F)<<8 | int(sec[2]); 3+sl > len(sec) {
		return hx.Failf("emitted-scte-length", "encoded splice_info_section announces %d bytes behind section_length, only %d present (alignment stuffing %d)", sl, len(sec)-3, c.Stuffing)
	} else if r := ref.CRC32MPEG2(sec[:3+sl]); r != 0 {
		return hx.Failf("emitted-scte-crc-as-delimited", "the %d bytes that section_length (%d) delimits have CRC-32/MPEG-2 residue %08x, want 0 (%d bytes emitted, alignment stuffing %d)", 3+sl, sl, r, len(sec), c.Stuffing)
	}
	if r := ref.CRC32MPEG2(sec); r != 0 {
		return hx.Failf("emitted-scte-crc", "encoded splice_info_section (%d bytes, alignment stuffing %d) has CRC-32/MPEG-2 residue %08x, want 0\n section %x", len(sec), c.Stuffing, r, sec)
	}
	if !bytes.Equal(gots.ComputeCRC(sec), []byte{0, 0, 0, 0}) {
		return hx.Failf("emitted-scte-crc-lib", "ComputeCRC over the emitted section is %x, want 00000000", gots.ComputeCRC(sec))
	}
	n := len(sec)
	if want := ref.CRC32MPEG2(sec[:n-4]); uint32(sec[n-4])<<24|uint32(sec[n-3])<<16|uint32(sec[n-2])<<8|uint32(sec[n-1]) != want {
		return hx.Failf("emitted-scte-crc", "CRC_32 field is not the CRC of the bytes before it")
	}
	return nil
}

var propC13Scte = hx.Register(hx.Prop[CaseC13Scte]{ID: "C13", Variant: "emitted-scte", Gen: genC13Scte, Check: checkC13Scte})

func checkC13Pmt(c CaseC14, x *hx.Ctx) *hx.Failure {
	m := &c.PMT
	car := ref.Carrier{Pointer: c.Pointer, Trailing: c.Trailing}
	payload := car.Payload(m.Section())
	// the input's own CRC_32 may be stale (the flip is derived from the case): "every section the library emits" carries no
	// restriction to well-formed input, and what the filter accepts and re-emits must be valid (a pass-through has to verify first)
	flip := c.CRCFlip
	if flip == 0 && (c.CC+c.Pointer+len(c.Request))%3 == 0 {
		flip = uint32(c.CC+1) << uint(c.Pointer%28)
	}
	if flip != 0 {
		end := 1 + c.Pointer + len(m.Section())
		for i := 0; i < 4; i++ {
			payload[end-4+i] ^= byte(flip >> uint(24-8*i))
		}
		x.Label("input-crc-stale")
	}
	pkts, err := ref.Packetise(payload, c.PID, c.CC, c.Sizes)
	if err != nil {
		return hx.Failf("bad-case", "packetise: %v", err)
	}
	in := make([]*packet.Packet, len(pkts))
	for i, p := range pkts {
		b := packet.Packet(p.MustBytes())
		in[i] = &b
	}
	out, _ := psi.FilterPMTPacketsToPids(in, append([]int{}, c.Request...))
	x.Label("emitted=filtered-pmt")
	if len(out) == 0 || len(c.Request) == 0 {
		return nil
	}
	x.NonTrivial()
	var got []byte
	for _, o := range out {
		pl, err := packet.Payload(o)
		if err != nil {
			return hx.Failf("emitted-pmt", "output packet without payload: %v", err)
		}
		got = append(got, pl...)
	}
	if len(got) == 0 {
		return hx.Failf("emitted-pmt", "the filter returned packets without payload bytes")
	}
	start := 1 + int(got[0])
	if start+3 > len(got) {
		return hx.Failf("emitted-pmt", "filtered payload too short")
	}
	sl := int(got[start+1]&0x0F)<<8 | int(got[start+2])
	if start+3+sl > len(got) {
		return hx.Failf("emitted-pmt-length", "filtered section announces %d bytes, only %d present", sl, len(got)-start-3)
	}
	sec := got[start : start+3+sl]
	if r := ref.CRC32MPEG2(sec); r != 0 {
		return hx.Failf("emitted-pmt-crc", "filtered PMT section (%d bytes) has CRC-32/MPEG-2 residue %08x, want 0\n section %x", len(sec), r, sec)
	}
	return nil
}

var propC13Pmt = hx.Register(hx.Prop[CaseC14]{ID: "C13", Variant: "emitted-pmt", Gen: genC14, Check: checkC13Pmt})

func TestC13_EmittedScte(t *testing.T) {
	c13Rule()
	propC13Scte.Run(t)
}

func TestC13_EmittedPmt(t *testing.T) {
	c13Rule()
	propC13Pmt.Run(t)
}
