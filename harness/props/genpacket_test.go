package props

import (
	"pgregory.net/rapid"

	"verifharness/ref"
)

// genHeader draws the 4-byte header fields (sync byte always 0x47).
func genHeader(t *rapid.T, p *ref.Packet) {
	p.Sync = 0x47
	p.TEI = rapid.Bool().Draw(t, "tei")
	p.PUSI = rapid.Bool().Draw(t, "pusi")
	p.TP = rapid.Bool().Draw(t, "tp")
	p.PID = int(genBits(t, 13, "pid"))
	p.TSC = rapid.SampledFrom([]int{0, 0, 2, 3}).Draw(t, "tsc")
	p.CC = rapid.IntRange(0, 15).Draw(t, "cc")
}

func hexp(b []byte) *ref.Hex {
	h := ref.Hex(append([]byte{}, b...))
	return &h
}

// genAFContent fills the optional fields of an adaptation field of length
// a.Len (>0) so that the content fits. Every subset of the five optional
// fields that fits can be produced; variable fields get lengths from 0 up to
// the remaining room, biased to "exactly fills".
func genAFContent(t *rapid.T, a *ref.AF) {
	a.Disc = rapid.Bool().Draw(t, "disc")
	a.RA = rapid.Bool().Draw(t, "ra")
	a.ESP = rapid.Bool().Draw(t, "esp")
	room := a.Len - 1 // after the flags byte
	want := rapid.IntRange(0, 31).Draw(t, "af-subset")
	if rapid.IntRange(0, 3).Draw(t, "af-sparse") == 0 {
		want = 0
	}
	// clock fields in canonical form (reserved bits 1, extension < 300): what "the ISO serialisation of the value" is
	canon := func(label string) *ref.Hex {
		e := ref.EncodePCR(genBits(t, 33, label+"-base"), uint16(rapid.IntRange(0, 299).Draw(t, label+"-ext")))
		return hexp(e[:])
	}
	if want&16 != 0 && room >= 6 {
		a.PCR = canon("pcr")
		room -= 6
	}
	if want&8 != 0 && room >= 6 {
		a.OPCR = canon("opcr")
		room -= 6
	}
	if want&4 != 0 && room >= 1 {
		s := rapid.Byte().Draw(t, "splice")
		a.Splice = &s
		room--
	}
	varLen := func(label string, reserve int) int {
		max := room - 1 - reserve
		if max < 0 {
			max = 0
		}
		switch rapid.IntRange(0, 3).Draw(t, label+"-lk") {
		case 0:
			return 0
		case 1:
			return max
		default:
			return rapid.IntRange(0, max).Draw(t, label+"-l")
		}
	}
	if want&2 != 0 && room >= 1 {
		reserve := 0
		if want&1 != 0 && room >= 2 {
			reserve = 1
		}
		n := varLen("tpd", reserve)
		a.TPD = hexp(genBytes(t, n, n, "tpd"))
		room -= 1 + n
	}
	if want&1 != 0 && room >= 1 {
		n := varLen("ext", 0)
		a.Ext = hexp(genBytes(t, n, n, "ext"))
		room -= 1 + n
	}
}

// genWellFormedPacket draws a well-formed packet: AFC 1, 2 or 3; adaptation
// field length 0..182 next to a payload (183 allowed when allow183WithPayload,
// which leaves a zero-length payload) and 183 alone.
func genWellFormedPacket(t *rapid.T, afcChoices []int, minAF int) *ref.Packet {
	p := &ref.Packet{}
	genHeader(t, p)
	p.AFC = rapid.SampledFrom(afcChoices).Draw(t, "afc")
	switch p.AFC {
	case 1:
		p.Payload = genPayloadBytes(t, 184, "payload")
	case 2:
		p.AF = &ref.AF{Len: 183}
		genAFContent(t, p.AF)
		p.Payload = ref.Hex{}
	case 3:
		var l int
		switch rapid.IntRange(0, 5).Draw(t, "aflen-kind") {
		case 0:
			l = rapid.SampledFrom([]int{0, 1, 2, 7, 8, 13, 14, 20, 181, 182, 183}).Draw(t, "aflen-b")
		default:
			l = rapid.IntRange(0, 183).Draw(t, "aflen")
		}
		if l < minAF {
			l = minAF
		}
		p.AF = &ref.AF{Len: l}
		if l > 0 {
			genAFContent(t, p.AF)
		}
		p.Payload = genPayloadBytes(t, 183-l, "payload")
	}
	return p
}
