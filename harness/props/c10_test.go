package props

import (
	"errors"
	"fmt"
	"testing"

	gots "github.com/Comcast/gots/v2"
	"github.com/Comcast/gots/v2/scte35"
	"pgregory.net/rapid"

	"verifharness/hx"
	"verifharness/ref"
)

// C10 — SCTE-35 state tracker: open/closed bookkeeping over any history.

type OpC10 struct {
	Kind    string `json:"op"` // process, reprocess, process-nopts, close, open
	Type    byte   `json:"type,omitempty"`
	Event   uint32 `json:"event,omitempty"`
	Num     byte   `json:"num,omitempty"`
	Exp     byte   `json:"exp,omitempty"`
	SamePTS bool   `json:"same_pts,omitempty"` // reuse the previous signal time instead of advancing
	OldPTS  int    `json:"old_pts,omitempty"`  // process: use the signal time that was current this many distinct signal times ago (a late sibling)
	Decoded bool   `json:"decoded,omitempty"`  // build the descriptor by decoding a reference encoding
	Idx     int    `json:"idx,omitempty"`      // close: which previously seen descriptor (mod count); -1 = a fresh one
	// sub-segment fields (types 0x34/0x36 only)
	HasSub bool `json:"has_sub,omitempty"`
	SubNum byte `json:"sub_num,omitempty"`
	SubExp byte `json:"sub_exp,omitempty"`
	// VSS: the descriptor carries a multiple-UPID list shaped like a stream-switch signal (delivery restricted):
	// 1 ADI "BLACKOUT:<id>" + ADS licenserotation, 2 ADI is the bare keyword, 3 keyword inside other text, 4 two entries of other types, 5 one entry only
	VSS   int `json:"vss,omitempty"`
	VSSId int `json:"vss_id,omitempty"`
	// Wrapped: the descriptor is handed to the tracker inside a decorator type (another implementation of the interface)
	Wrapped bool `json:"wrapped,omitempty"`
	// Cancel: the cancel indicator is set on the (API-built) descriptor; Adj: part of the signal time comes from pts_adjustment
	Cancel bool   `json:"cancel,omitempty"`
	Adj    uint64 `json:"pts_adjustment,omitempty"`
	// SigKind: which command the descriptor's signal carries (see DescC19.SigKind)
	SigKind int `json:"signal_kind,omitempty"`
	// Unattached (process-nopts only): the descriptor comes straight from the creation API, no signal owns it
	Unattached bool `json:"unattached,omitempty"`
}

type CaseC10 struct {
	Ops       []OpC10 `json:"ops"`
	MaxPerPTS int     `json:"max_per_pts,omitempty"` // descriptors allowed on one signal time (default 5)
}

var c10Alphabet = []byte{0x10, 0x11, 0x12, 0x13, 0x14, 0x17, 0x19, 0x20, 0x21, 0x22, 0x23, 0x30, 0x31, 0x32, 0x34, 0x35, 0x36, 0x37, 0x40, 0x41, 0x44, 0x45, 0x50, 0x51, 0x00, 0x15,
	0x13, 0x14, 0x13, 0x14, 0x41, 0x50, 0x51, 0x40} // weighted towards breakaway/resumption/network/unscheduled

func genC10Op(t *rapid.T) OpC10 {
	o := OpC10{}
	switch k := rapid.IntRange(0, 19).Draw(t, "opk"); {
	case k < 12:
		o.Kind = "process"
	case k < 13:
		o.Kind = "reprocess"
	case k < 14:
		o.Kind = "reprocess-open"
		o.Idx = rapid.IntRange(0, 3).Draw(t, "reopen-idx")
	case k < 15:
		o.Kind = "process-nopts"
	case k < 19:
		o.Kind = "close"
	default:
		o.Kind = "open"
	}
	if o.Kind == "process" || o.Kind == "process-nopts" || o.Kind == "close" {
		o.Type = rapid.SampledFrom(c10Alphabet).Draw(t, "type")
		o.Event = uint32(rapid.IntRange(1, 3).Draw(t, "event"))
		o.Num = byte(rapid.IntRange(0, 2).Draw(t, "num"))
		o.Exp = byte(rapid.IntRange(0, 2).Draw(t, "exp"))
		o.SamePTS = rapid.IntRange(0, 3).Draw(t, "same-pts") == 0
		if o.Kind == "process" && rapid.IntRange(0, 9).Draw(t, "late-sibling") == 0 {
			o.OldPTS = rapid.IntRange(1, 12).Draw(t, "old-pts")
		}
		o.Decoded = rapid.IntRange(0, 3).Draw(t, "decoded") == 0
		if (o.Type == 0x34 || o.Type == 0x36) && rapid.Bool().Draw(t, "has-sub") {
			o.HasSub = true
			o.SubNum = byte(rapid.IntRange(0, 3).Draw(t, "sub-num"))
			o.SubExp = byte(rapid.IntRange(0, 3).Draw(t, "sub-exp"))
		}
		if (o.Type == 0x40 && rapid.Bool().Draw(t, "vss")) || rapid.IntRange(0, 15).Draw(t, "vss-any-type") == 0 {
			o.VSS = rapid.IntRange(1, 5).Draw(t, "vss-shape")
			o.VSSId = rapid.IntRange(0, 2).Draw(t, "vss-id")
		}
		o.Wrapped = rapid.IntRange(0, 7).Draw(t, "wrapped") == 0
		o.Cancel = !o.Decoded && rapid.IntRange(0, 7).Draw(t, "cancel") == 0
		o.SigKind = rapid.IntRange(0, 3).Draw(t, "signal-kind")
		o.Unattached = o.Kind == "process-nopts" && !o.Decoded && rapid.IntRange(0, 2).Draw(t, "unattached") == 0
		if rapid.IntRange(0, 3).Draw(t, "adjusted") == 0 {
			o.Adj = rapid.SampledFrom([]uint64{1, 500, 1 << 32, 1<<33 - 1}).Draw(t, "adj")
		}
	}
	if o.Kind == "close" {
		o.Idx = rapid.IntRange(-1, 12).Draw(t, "idx")
		if rapid.Bool().Draw(t, "close-recent") {
			o.Idx = rapid.IntRange(0, 2).Draw(t, "idx-recent") + 1000 // counted from the most recent
		}
	}
	return o
}

func genC10(t *rapid.T) CaseC10 {
	if rapid.IntRange(0, 5).Draw(t, "late-sibling-history") == 0 {
		// k descriptors on k different signal times, then a late sibling on one of the earlier signal times, processed twice in
		// a row (a tracker that remembers a bounded number of signal times is exercised at and around its bound), then anything
		if rapid.IntRange(0, 2).Draw(t, "late-diff-pts-family") == 0 {
			// the same over the types whose closing rule compares signal times (0x34 / 0x36 / 0x44 close 0x30 / 0x3C / 0x44 of
			// another signal time): a few of them open on two or three signal times, event ids from a set of two, then a late one
			k := rapid.IntRange(2, 5).Draw(t, "dfam-n")
			var ops []OpC10
			for i := 0; i < k; i++ {
				ops = append(ops, OpC10{Kind: "process", Type: rapid.SampledFrom([]byte{0x30, 0x44, 0x3C, 0x30, 0x44}).Draw(t, "dfam-type"),
					Event: uint32(rapid.IntRange(1, 2).Draw(t, "dfam-event")), SamePTS: i > 0 && rapid.Bool().Draw(t, "dfam-same")})
			}
			ops = append(ops, OpC10{Kind: "process", Type: rapid.SampledFrom([]byte{0x34, 0x36, 0x44, 0x44}).Draw(t, "dfam-late-type"),
				Event: uint32(rapid.IntRange(1, 3).Draw(t, "dfam-late-event")), OldPTS: rapid.IntRange(1, 3).Draw(t, "dfam-old")})
			if rapid.Bool().Draw(t, "dfam-repeat") {
				ops = append(ops, OpC10{Kind: "reprocess"})
			}
			ops = append(ops, rapid.SliceOfN(rapid.Custom(genC10Op), 0, 4).Draw(t, "dfam-tail")...)
			return CaseC10{Ops: ops}
		}
		k := rapid.IntRange(2, 14).Draw(t, "distinct-times")
		var ops []OpC10
		for i := 0; i < k; i++ {
			o := genC10Op(t)
			o.Kind, o.SamePTS, o.OldPTS = "process", false, 0
			if o.Type == 0 && o.Event == 0 {
				o.Type, o.Event = rapid.SampledFrom(c10Alphabet).Draw(t, "fill-type"), uint32(rapid.IntRange(1, 3).Draw(t, "fill-event"))
			}
			ops = append(ops, o)
		}
		late := genC10Op(t)
		late.Kind, late.SamePTS = "process", false
		if late.Type == 0 && late.Event == 0 {
			late.Type, late.Event = rapid.SampledFrom(c10Alphabet).Draw(t, "late-type"), uint32(rapid.IntRange(1, 3).Draw(t, "late-event"))
		}
		late.OldPTS = rapid.IntRange(1, k-1).Draw(t, "late-old")
		ops = append(ops, late, OpC10{Kind: "reprocess"})
		ops = append(ops, rapid.SliceOfN(rapid.Custom(genC10Op), 0, 6).Draw(t, "late-tail")...)
		return CaseC10{Ops: ops}
	}
	n := rapid.IntRange(1, 40).Draw(t, "steps")
	return CaseC10{Ops: rapid.SliceOfN(rapid.Custom(genC10Op), n, n).Draw(t, "ops")}
}

type c10Desc struct {
	obj    scte35.SegmentationDescriptor
	abs    DescC19
	index  int // processing order of successful ProcessDescriptor calls, 0 = never accepted
	status int // 0 not open, 1 open, 2 closed, 3 discarded at a resumption
}

func c10Make(o OpC10, pts uint64, hasPTS bool) (*c10Desc, *hx.Failure) {
	abs := DescC19{Type: o.Type, Event: o.Event, HasPTS: hasPTS, PTS: pts, Num: o.Num, Exp: o.Exp, Decoded: o.Decoded, Cancel: o.Cancel && !o.Decoded, Adj: o.Adj, SigKind: o.SigKind, Unattached: o.Unattached && !hasPTS && !o.Decoded,
		Rest: ref.SpliceDesc{Prog: true, NotRestricted: true, UPID: ref.Hex{}, MID: []ref.SegUPID{}, Comps: []ref.SegOffset{}}}
	if o.HasSub && (o.Type == 0x34 || o.Type == 0x36) {
		abs.HasSub, abs.SubNum, abs.SubExp = true, o.SubNum, o.SubExp
	}
	if o.VSS != 0 {
		abs.Rest.NotRestricted = false
		abs.Rest.UPIDType = 0x0D
		id := fmt.Sprintf("sig-%d", o.VSSId)
		ads := ref.SegUPID{Type: 0x0E, Body: ref.Hex("comcast:linear:licenserotation")}
		switch o.VSS {
		case 1:
			abs.Rest.MID = []ref.SegUPID{{Type: 0x09, Body: ref.Hex("BLACKOUT:" + id)}, ads}
		case 2:
			abs.Rest.MID = []ref.SegUPID{{Type: 0x09, Body: ref.Hex("BLACKOUT")}, ads}
		case 3:
			abs.Rest.MID = []ref.SegUPID{{Type: 0x09, Body: ref.Hex("x" + id + "-BLACKOUT")}, ads}
		case 4:
			abs.Rest.MID = []ref.SegUPID{{Type: 0x08, Body: ref.Hex("BLACKOUT:" + id)}, {Type: 0x0C, Body: ref.Hex("comcast:linear:licenserotation")}}
		default:
			abs.Rest.MID = []ref.SegUPID{{Type: 0x09, Body: ref.Hex("BLACKOUT:" + id)}}
		}
	}
	obj, f := c19Build(&abs)
	if f != nil {
		return nil, f
	}
	if abs.Cancel {
		abs.Type = byte(obj.TypeID()) // a cancelled descriptor carries no type on the wire: the rules apply to the type the object reports
	}
	return &c10Desc{obj: obj, abs: abs}, nil
}

func c10OpString(o OpC10) string {
	switch o.Kind {
	case "process", "process-nopts":
		s := ""
		if o.SamePTS {
			s = ",same-pts"
		}
		return fmt.Sprintf("%s(%#x,e%d,%d/%d%s)", o.Kind, o.Type, o.Event, o.Num, o.Exp, s)
	case "close":
		return fmt.Sprintf("close(idx %d)", o.Idx)
	}
	return o.Kind
}

func checkC10(c CaseC10, x *hx.Ctx) (fail *hx.Failure) {
	st := scte35.NewState()
	byObj := map[scte35.SegmentationDescriptor]*c10Desc{}
	var seen []*c10Desc // every descriptor ever submitted
	var last *c10Desc   // most recently processed (for immediate re-processing)
	lastAccepted := false
	pts := uint64(1000)
	ptsTop := pts        // the latest signal time so far (pts itself goes back for a late sibling)
	var ptsHist []uint64 // the distinct signal times in the order they were first used
	perPTS := 0
	nextIndex := 0
	var hist []string
	var sawBreakaway, pendingBreakaway, interesting bool
	maxPer := 5
	if c.MaxPerPTS > 0 {
		maxPer = c.MaxPerPTS
	}
	// closed lists handed to the caller must stay what they were
	type retainedList struct {
		got  []scte35.SegmentationDescriptor
		want []scte35.SegmentationDescriptor
		at   int
	}
	var retained []retainedList
	var sharedSig scte35.SCTE35 // signal object that several same-PTS descriptors are attached to
	var sharedList []scte35.SegmentationDescriptor
	var sharedPTS uint64
	sharedUsed := false

	defer func() {
		if r := recover(); r != nil {
			fail = hx.Failf("panic", "panic after history %v: %v", hist, r)
		}
	}()

	snapshot := func() []scte35.SegmentationDescriptor { return st.Open() }
	sameList := func(a, b []scte35.SegmentationDescriptor) bool {
		if len(a) != len(b) {
			return false
		}
		for i := range a {
			if a[i] != b[i] {
				return false
			}
		}
		return true
	}
	// invariants of the open list
	checkOpen := func() *hx.Failure {
		now := st.Open()
		lastIdx := 0
		dup := map[scte35.SegmentationDescriptor]bool{}
		for _, o := range now {
			d := byObj[o]
			if d == nil || d.index == 0 {
				return hx.Failf("open-never-processed", "Open() contains a descriptor that was never (successfully) processed, after %v", hist)
			}
			if d.status == 2 {
				return hx.Failf("open-contains-closed", "Open() contains %#x (event %d) which was already reported closed, after %v", d.abs.Type, d.abs.Event, hist)
			}
			if d.status == 3 {
				return hx.Failf("open-contains-discarded", "Open() contains %#x (event %d) which was discarded by a program resumption, after %v", d.abs.Type, d.abs.Event, hist)
			}
			if dup[o] {
				return hx.Failf("open-duplicate", "Open() contains %#x (event %d) twice, after %v", d.abs.Type, d.abs.Event, hist)
			}
			dup[o] = true
			if d.index <= lastIdx {
				return hx.Failf("open-order", "Open() is not in the order the descriptors were opened, after %v", hist)
			}
			lastIdx = d.index
		}
		return nil
	}

	// a second tracker lives next to the one under test: it holds one open program and must not notice the traffic
	by := scte35.NewState()
	byStart, f0 := c10Make(OpC10{Type: 0x10, Event: 77}, 5, true)
	if f0 != nil {
		return f0
	}
	if closed, err := by.ProcessDescriptor(byStart.obj); err != nil || len(closed) != 0 {
		return hx.Failf("bystander", "a fresh tracker did not open a program start cleanly: %d closed, err %v", len(closed), err)
	}
	checkBy := func() *hx.Failure {
		if o := by.Open(); len(o) != 1 || o[0] != byStart.obj {
			return hx.Failf("bystander-open", "the open list of a second tracker (one program start, no further calls) has %d entries after %v", len(o), hist)
		}
		return nil
	}

	for _, o := range c.Ops {
		hist = append(hist, c10OpString(o))
		before := snapshot()
		switch o.Kind {
		case "open":
			// checked below
		case "process", "process-nopts", "reprocess", "reprocess-open":
			var d *c10Desc
			if o.Kind == "reprocess-open" {
				// an object that is open right now is submitted once more, however long ago it was processed
				var open []*c10Desc
				for _, sd := range seen {
					if sd.status == 1 && sd.abs.HasPTS { // incl. a pending breakaway, which Open() hides
						open = append(open, sd)
					}
				}
				if len(open) == 0 {
					continue
				}
				d = open[0] // the oldest one: the most calls in between
				if o.Idx > 0 {
					d = open[o.Idx%len(open)]
				}
				interesting = true
			} else if o.Kind == "reprocess" {
				if last == nil {
					continue
				}
				d = last
			} else {
				hasPTS := o.Kind == "process"
				late := hasPTS && o.OldPTS > 0 && len(ptsHist) > o.OldPTS
				if late {
					// a late sibling: a descriptor on a signal time that was current OldPTS distinct signal times ago
					pts, perPTS = ptsHist[len(ptsHist)-1-o.OldPTS], maxPer
					interesting = true
				} else if hasPTS {
					if !(o.SamePTS && perPTS < maxPer) {
						pts = ptsTop + 90000
						ptsTop = pts
						ptsHist = append(ptsHist, pts)
						perPTS = 0
					}
					perPTS++
				}
				var nd *c10Desc
				if hasPTS && !late && !o.Decoded && o.SamePTS && sharedSig != nil && sharedPTS == pts && len(sharedList) < 4 && maxPer <= 5 {
					// attach to the SAME signal object as the previous API-built descriptor of this PTS
					obj := scte35.CreateSegmentationDescriptor()
					obj.SetTypeID(scte35.SegDescType(o.Type))
					obj.SetEventID(o.Event)
					obj.SetSegmentNumber(o.Num)
					obj.SetSegmentsExpected(o.Exp)
					obj.SetHasProgramSegmentation(true)
					obj.SetIsDeliveryNotRestricted(true)
					sharedList = append(sharedList, obj)
					sharedSig.SetDescriptors(sharedList)
					nd = &c10Desc{obj: obj, abs: DescC19{Type: o.Type, Event: o.Event, HasPTS: true, PTS: pts, Num: o.Num, Exp: o.Exp}}
					sharedUsed = true
				} else {
					var f *hx.Failure
					nd, f = c10Make(o, pts, hasPTS)
					if f != nil {
						return f
					}
					if hasPTS && !o.Decoded {
						sharedSig, sharedPTS, sharedList = nd.obj.SCTE35(), pts, []scte35.SegmentationDescriptor{nd.obj}
					}
					if o.Wrapped {
						// the tracker is specified on the interface: an application's decorator must be tracked like the library's own type
						nd.obj = &c19Wrapped{SegmentationDescriptor: nd.obj, note: "decorated"}
					}
				}
				d = nd
				byObj[d.obj] = d
				seen = append(seen, d)
			}
			// "no call panics" includes the fatal error a call dies of when its memory grows without bound: once
			// several descriptors share a signal time every call has an allocation budget (exact TotalAlloc delta)
			var a0 uint64
			budgeted := perPTS >= 6
			if budgeted {
				a0 = c05Allocated()
			}
			closed, err := st.ProcessDescriptor(d.obj)
			if budgeted {
				if used := c05Allocated() - a0; used > 4<<20 {
					return hx.Failf("process-call-memory", "ProcessDescriptor allocated %d bytes for descriptor number %d on one signal time (a few more such calls end in an unrecoverable out-of-memory error), after %d calls", used, perPTS, len(hist))
				}
			}
			if len(closed) > 0 {
				retained = append(retained, retainedList{got: closed, want: append([]scte35.SegmentationDescriptor{}, closed...), at: len(hist)})
			}
			after := snapshot()
			if !d.abs.HasPTS {
				if err == nil || len(closed) != 0 || !sameList(before, after) {
					return hx.Failf("nopts-not-rejected", "a descriptor whose signal has no PTS was not rejected cleanly (err %v, %d closed, open list changed %v) after %v", err, len(closed), !sameList(before, after), hist)
				}
				continue
			}
			if o.Kind == "reprocess" {
				interesting = true
				if lastAccepted {
					if !errors.Is(err, gots.ErrSCTE35DuplicateDescriptor) {
						return hx.Failf("duplicate-not-rejected", "processing the same descriptor twice in a row returned %v, want ErrSCTE35DuplicateDescriptor, after %v", err, hist)
					}
				} else if err == nil {
					return hx.Failf("duplicate-not-rejected", "a descriptor rejected the first time was accepted when processed again immediately, after %v", hist)
				}
				if len(closed) != 0 || !sameList(before, after) {
					return hx.Failf("duplicate-changes-state", "re-processing the same descriptor changed the tracker (%d closed, open list changed %v) after %v", len(closed), !sameList(before, after), hist)
				}
				continue
			}
			last = d
			early := errors.Is(err, gots.ErrSCTE35DuplicateDescriptor) || errors.Is(err, gots.ErrVSSSignalIdNotFound) || errors.Is(err, gots.ErrSCTE35UnsupportedSpliceCommand)
			lastAccepted = err == nil // a descriptor that was rejected the first time (whatever the error) need only be rejected again
			if early {
				// only for duplicates does the statement promise an unchanged open list; for the other early
				// rejections the harness merely has to stay in step, which it can if nothing was closed or opened
				if len(closed) != 0 || !sameList(before, after) {
					if errors.Is(err, gots.ErrSCTE35DuplicateDescriptor) {
						return hx.Failf("reject-changes-state", "a descriptor rejected as a duplicate changed the tracker after %v", hist)
					}
					return nil // the model cannot follow an undocumented partial effect: stop here without a verdict
				}
				continue
			}
			if o.Kind == "reprocess-open" && err == nil && len(closed) == 0 && sameList(before, after) {
				continue // accepted as a no-op: the object keeps its place in the open list
			}
			nextIndex++
			d.index = nextIndex
			// closed list
			lastIdx := 1 << 30
			for _, co := range closed {
				cd := byObj[co]
				if cd == nil || cd.index == 0 {
					return hx.Failf("closed-never-processed", "a descriptor that was never processed was reported closed after %v", hist)
				}
				if cd.status != 1 {
					return hx.Failf("closed-not-open", "%#x (event %d) was reported closed but was not open (status %s) after %v", cd.abs.Type, cd.abs.Event, []string{"never opened", "open", "already closed", "discarded"}[cd.status], hist)
				}
				if !c19RefCanClose(&d.abs, &cd.abs) || !d.obj.CanClose(co) {
					return hx.Failf("closed-not-closable", "%#x (event %d) was closed by %#x (event %d) although the closing rules do not allow it, after %v", cd.abs.Type, cd.abs.Event, d.abs.Type, d.abs.Event, hist)
				}
				if cd.index >= lastIdx {
					return hx.Failf("closed-order", "closed list is not ordered last-opened first after %v", hist)
				}
				lastIdx = cd.index
				cd.status = 2
				if cd.abs.Type == 0x13 {
					pendingBreakaway = false
					interesting = true
				}
			}
			if pendingBreakaway && (d.abs.Type == 0x13 || d.abs.Type == 0x14) {
				interesting = true
			}
			// did it open?
			inOpen := false
			for _, a := range after {
				if a == d.obj {
					inOpen = true
				}
			}
			if inOpen || (d.abs.Type == 0x13 && err == nil) {
				d.status = 1 // an accepted breakaway is held open but hidden from Open(); a rejected one need not be held at all
			}
			if d.abs.Type == 0x13 && (err == nil || inOpen) {
				sawBreakaway, pendingBreakaway = true, true
			}
			if d.abs.Type == 0x14 {
				// a resumption discards the breakaway and what was opened after it: whatever the
				// model still has open but Open() no longer shows was discarded
				shown := map[scte35.SegmentationDescriptor]bool{}
				for _, a := range after {
					shown[a] = true
				}
				// a resumption accepted without error exits the pending breakaway ("only
				// ProgramResumption, Unscheduled Event and Network signals can exit breakaway"):
				// the most recently opened breakaway that is still open is gone from now on
				if err == nil {
					for i := len(seen) - 1; i >= 0; i-- {
						if seen[i].abs.Type == 0x13 && seen[i].status == 1 {
							seen[i].status = 3
							break
						}
					}
				}
				for _, s := range seen {
					if s.status == 1 && !shown[s.obj] && s.abs.Type != 0x13 {
						// (a breakaway is hidden from Open() anyway: invisibility says nothing about it - an outer breakaway may stay
						// pending behind the one the resumption ended; only the most recent one was marked gone above)
						s.status = 3
					}
				}
				if err == nil {
					pendingBreakaway = false
				}
			}
		case "close":
			var d *c10Desc
			if o.Idx == -1 || len(seen) == 0 {
				nd, f := c10Make(o, pts, true)
				if f != nil {
					return f
				}
				d = nd
				if o.Wrapped {
					d.obj = &c19Wrapped{SegmentationDescriptor: d.obj, note: "decorated"}
				}
				byObj[d.obj] = d
				seen = append(seen, d)
			} else if o.Idx >= 1000 {
				k := o.Idx - 1000
				if k >= len(seen) {
					k = len(seen) - 1
				}
				d = seen[len(seen)-1-k]
			} else {
				d = seen[o.Idx%len(seen)]
			}
			if pendingBreakaway {
				interesting = true
			}
			// "twice in a row" means two consecutive ProcessDescriptor calls: an explicit close in between changes the state
			last = nil
			closed, err := st.Close(d.obj)
			if err != nil {
				if len(closed) != 0 {
					return hx.Failf("close-error-with-result", "Close returned an error and closed descriptors after %v", hist)
				}
				break
			}
			for _, co := range closed {
				cd := byObj[co]
				if cd == nil || cd.index == 0 {
					return hx.Failf("closed-never-processed", "Close reported a descriptor that was never processed, after %v", hist)
				}
				if cd.status != 1 {
					return hx.Failf("closed-not-open", "Close reported %#x (event %d) which was not open (status %s) after %v", cd.abs.Type, cd.abs.Event, []string{"never opened", "open", "already closed", "discarded"}[cd.status], hist)
				}
				if !(co == d.obj && d.abs.HasPTS) && (!c19RefEqual(&d.abs, &cd.abs) || !d.obj.Equal(co)) {
					return hx.Failf("close-not-equal", "Close(%#x event %d) reported %#x (event %d) which is not equal to it, after %v", d.abs.Type, d.abs.Event, cd.abs.Type, cd.abs.Event, hist)
				}
				cd.status = 2
				if cd.abs.Type == 0x13 {
					pendingBreakaway = false
				}
			}
		default:
			return hx.Failf("bad-case", "unknown op %q", o.Kind)
		}
		if f := checkOpen(); f != nil {
			return f
		}
		if f := checkBy(); f != nil {
			return f
		}
		for _, r := range retained {
			for i := range r.want {
				if i >= len(r.got) || r.got[i] != r.want[i] {
					return hx.Failf("closed-list-changed", "the closed list returned by call %d changed after later calls (history %v)", r.at, hist)
				}
			}
		}
	}
	x.NT(sawBreakaway && interesting)
	x.LabelIf(sawBreakaway, "has-breakaway")
	x.LabelIf(sawBreakaway && interesting, "breakaway-interleaved")
	x.LabelIf(len(c.Ops) >= 10, ">=10-steps")
	x.LabelIf(sharedUsed, "several-descriptors-on-one-signal-object")
	return nil
}

var propC10 = hx.Register(hx.Prop[CaseC10]{ID: "C10", Gen: genC10, Check: checkC10})

func c10Rule() {
	hx.Rec("C10").SetRule("cases: histories of 1..40 calls on one tracker: process(new descriptor: type from a 26-type alphabet covering every rule kind plus two types without rules, weighted towards breakaway/resumption/network/unscheduled; event id 1..3; segment number/expected 0..2; sub-segment fields on 0x34/0x36; half of the 0x40 descriptors (and 1 in 16 of the others) carry a stream-switch-shaped multiple-UPID list in one of five shapes with signal id 0..2; one descriptor in eight reaches the tracker inside a decorator type; one API-built descriptor in eight has the cancel indicator set; one signal in four gets part of its time from pts_adjustment; attached to a signal whose PTS repeats the previous one (<= 5 per PTS; API-built ones then share ONE signal object, as the descriptors of one decoded section do) or advances, or (one process in ten, and in one history in six that is built as k distinct signal times + such a late sibling + the same object again) goes back to the signal time that was current 1..13 distinct signal times ago; built through the API or by decoding a reference encoding), process(the same object again immediately), process(an object that is still open, any number of calls later), process(descriptor whose signal has no PTS: splice_null, immediate or cancelled splice_insert, time-less time_signal, or a descriptor no signal owns), close(a previously seen descriptor, biased to recent ones, or a fresh one), open(). Oracle: invariants over the observable history by object identity, checked after EVERY call (a second tracker holding one open program sits next to it and must not notice): Open() contains only successfully processed, not yet closed, not discarded, distinct descriptors in opening order; every closed descriptor was open, never closed before, closable under the transcribed rule table and the library's own CanClose (or equal, for explicit close), closed lists last-opened first; immediate re-processing => duplicate error and unchanged Open(); PTS-less => error, nothing closed, unchanged Open(); a recovered panic is a violation. Enumerated: all histories of length <= 4 over 9 descriptor kinds + 2 explicit closes. Non-trivial: the history contains a breakaway and, while it is pending, a descriptor that closes it, an explicit close, a second breakaway, a resumption, or an immediate re-processing.",
		"an object is re-submitted either immediately or while it is open (then it must not end up in the open list twice); re-submitting an object that was already reported closed is not generated (the statement does not say whether it may open again)",
		"at most 5 descriptors per signal time in drawn histories, up to 26 in the enumerated ones; from the 6th on each ProcessDescriptor call may allocate at most 4 MiB",
		"a breakaway counts as open although Open() hides it while the blackout lasts; descriptors that vanish from Open() at a resumption count as discarded")
}

func TestC10(t *testing.T) {
	c10Rule()
	replayRegress(t, "C10")
	propC10.Run(t)
}

func TestC10Exhaustive(t *testing.T) {
	c10Rule()
	symbols := []OpC10{
		{Kind: "process", Type: 0x13, Event: 1}, {Kind: "process", Type: 0x14, Event: 1},
		{Kind: "process", Type: 0x10, Event: 1}, {Kind: "process", Type: 0x11, Event: 1},
		{Kind: "process", Type: 0x30, Event: 1}, {Kind: "process", Type: 0x31, Event: 1},
		{Kind: "process", Type: 0x40, Event: 2}, {Kind: "process", Type: 0x41, Event: 2},
		{Kind: "process", Type: 0x50, Event: 1},
		{Kind: "close", Idx: 1000}, {Kind: "close", Idx: 0},
	}
	shard, nsh := hx.ShardIndex(), hx.NShards()
	idx := 0
	for n := 1; n <= 4; n++ {
		total := 1
		for i := 0; i < n; i++ {
			total *= len(symbols)
		}
		for code := 0; code < total; code++ {
			idx++
			if idx%nsh != shard {
				continue
			}
			ops := make([]OpC10, n)
			cc := code
			for i := 0; i < n; i++ {
				ops[i] = symbols[cc%len(symbols)]
				cc /= len(symbols)
			}
			if f := propC10.EvalFast(CaseC10{Ops: ops}, hx.HashInts(uint64(n), uint64(code))); f != nil {
				t.Fatalf("VIOLATION-CANDIDATE property=C10 key=%s: %s", f.Key, f.Msg)
			}
		}
	}
	hx.Rec("C10").Subspace("all histories of length 1..4 over {breakaway, resumption, program start/end, provider ad start/end, unscheduled event start/end, network start, close(most recent), close(first)}")
}

func FuzzC10(f *testing.F) {
	c10Rule()
	f.Fuzz(propC10.Fuzz())
}

// TestC10ManySamePTS: more than 20 distinct descriptors on one signal time, then an immediate repeat.
func TestC10ManySamePTS(t *testing.T) {
	c10Rule()
	if !hx.FirstShard() {
		t.Skip("runs on shard 0")
	}
	for _, n := range []int{12, 21, 22, 26} {
		var ops []OpC10
		for i := 0; i < n; i++ {
			ops = append(ops, OpC10{Kind: "process", Type: []byte{0x30, 0x10, 0x20, 0x40, 0x34}[i%5], Event: uint32(1 + i), Num: byte(i % 3), SamePTS: true, Decoded: i%2 == 0})
		}
		ops = append(ops, OpC10{Kind: "reprocess"}, OpC10{Kind: "open"})
		if f := propC10.EvalFast(CaseC10{Ops: ops, MaxPerPTS: 30}, hx.HashInts(99, uint64(n))); f != nil {
			t.Fatalf("VIOLATION-CANDIDATE property=C10 key=%s: %s", f.Key, f.Msg)
		}
		// the same with a last descriptor that closes instead of opening (it is not in the open list when it is repeated)
		ops2 := append(append([]OpC10{}, ops[:n-1]...), OpC10{Kind: "process", Type: 0x11, Event: 2, SamePTS: true}, OpC10{Kind: "reprocess"}, OpC10{Kind: "open"})
		if f := propC10.EvalFast(CaseC10{Ops: ops2, MaxPerPTS: 30}, hx.HashInts(98, uint64(n))); f != nil {
			t.Fatalf("VIOLATION-CANDIDATE property=C10 key=%s: %s", f.Key, f.Msg)
		}
	}
	hx.Rec("C10").Subspace("12, 21, 22 and 26 distinct descriptors on ONE signal time (per-call allocation budget 4 MiB) followed by an immediate repeat of the last (an opening one, and a closing one)")
}

// long open lists: hundreds of descriptors that do not close one another stay open (counts around the width of a one-byte
// counter), then one descriptor closes them all
func TestC10LongOpenList(t *testing.T) {
	c10Rule()
	if !hx.FirstShard() {
		t.Skip("runs on shard 0")
	}
	for _, n := range []int{255, 256, 257, 300} {
		var ops []OpC10
		for i := 0; i < n; i++ {
			ops = append(ops, OpC10{Kind: "process", Type: []byte{0x34, 0x36}[i%2], Event: uint32(1 + i), Decoded: i%5 == 0})
			if i%50 == 49 {
				ops = append(ops, OpC10{Kind: "open"}, OpC10{Kind: "reprocess"})
			}
		}
		ops = append(ops, OpC10{Kind: "open"}, OpC10{Kind: "process", Type: 0x11, Event: 1}, OpC10{Kind: "reprocess"}, OpC10{Kind: "open"})
		if f := propC10.EvalFast(CaseC10{Ops: ops}, hx.HashInts(97, uint64(n))); f != nil {
			t.Fatalf("VIOLATION-CANDIDATE property=C10 key=%s: %s", f.Key, f.Msg)
		}
	}
	hx.Rec("C10").Subspace("255, 256, 257 and 300 provider / distributor placement opportunity starts on as many signal times, all open at once, then a program end that closes them all")
}
