package props

import (
	"bytes"
	"errors"
	"fmt"
	"testing"

	gots "github.com/Comcast/gots/v2"
	"github.com/Comcast/gots/v2/scte35"
	"pgregory.net/rapid"

	"verifharness/hx"
	"verifharness/ref"
)

// C08 — SCTE-35 decoding reports exactly the encoded fields.

type CaseC08 struct {
	Splice  ref.Splice `json:"splice"`
	Pointer int        `json:"pointer"`
	// negative variant: "", "command", "encrypted", "table-id", "identifier"
	Negative string `json:"negative"`
	Filler   int    `json:"filler,omitempty"` // what the bytes between pointer_field and section are (see c08Input)
	NegValue int    `json:"neg_value"`
	NegLen   int    `json:"neg_len,omitempty"` // short negatives: body bytes of the foreign section / private bytes behind the foreign identifier
}

func genC08(t *rapid.T) CaseC08 {
	c := CaseC08{Splice: genSplice(t, true)}
	// alignment_stuffing bytes between the descriptor loop and CRC_32 are part of the syntax (a clear section may carry them too)
	c.Splice.Stuffing = rapid.SampledFrom([]int{0, 0, 0, 1, 2, 3, 4, 7, 8}).Draw(t, "alignment-stuffing")
	c.Pointer = rapid.SampledFrom([]int{0, 0, 0, 0, 1, 2, 5, 20, 183, 254, 255, 252, 252, 2, 0xC6}).Draw(t, "pointer")
	c.Filler = rapid.IntRange(0, 4).Draw(t, "filler")
	if rapid.IntRange(0, 5).Draw(t, "negative") == 0 {
		c.Negative = rapid.SampledFrom([]string{"command", "encrypted", "table-id", "identifier", "identifier-short", "table-id-short"}).Draw(t, "neg-kind")
		switch c.Negative {
		case "command":
			// command types SCTE 35 does not define: the defined ones this library does not support today (splice_schedule,
			// bandwidth_reservation, private_command) may come to be supported, and then answer an empty body differently
			c.NegValue = int(rapid.SampledFrom([]byte{0x01, 0x02, 0x03, 0x08, 0x09, 0x80, 0x7F, 0xFE}).Draw(t, "neg-cmd"))
		case "table-id", "table-id-short":
			c.NegValue = int(rapid.SampledFrom([]byte{0x00, 0x02, 0xFB, 0xFD, 0xFF, 0x7C}).Draw(t, "neg-tid"))
			c.NegLen = rapid.IntRange(0, 10).Draw(t, "neg-short-len")
		case "identifier-short":
			c.NegLen = rapid.IntRange(0, 4).Draw(t, "neg-private-bytes")
		case "identifier":
			c.NegValue = rapid.IntRange(0, 31).Draw(t, "neg-id-bit")
		}
	}
	return c
}

// c08Input is pointer_field ++ the bytes it skips ++ section. The skipped bytes belong to whatever came before
// in the payload (the end of another section): 0 all 0xFF, 1 a byte pattern, 2 the end of another
// splice_info_section, 3 the bytes a section would have behind its table_id (so that, with a pointer_field whose
// value is a table id, the payload as a whole looks like a section that starts without a pointer_field), 4 the same with
// a section_length that announces exactly the rest of the whole input.
func c08Input(c CaseC08, sec []byte) []byte {
	in := []byte{byte(c.Pointer)}
	var src []byte
	switch c.Filler {
	case 1:
		for i := 0; i < c.Pointer; i++ {
			src = append(src, byte(i*37+c.Pointer))
		}
	case 2, 3, 4:
		other := (&ref.Splice{TableID: 0xFC, Tier: 0xFFF, Cmd: 0x06, TSHasPTS: true, TSPTS: 0x12345678, Descs: []ref.SpliceDesc{
			{Foreign: true, FTag: 0x01, FBody: bytes.Repeat([]byte{0x5A}, 40)}}}).Encode()
		for len(src) < c.Pointer+1 {
			src = append(src, other...)
		}
		if c.Filler == 2 {
			src = src[len(src)-c.Pointer:]
		} else {
			src = src[1 : 1+c.Pointer]
		}
	default:
		src = bytes.Repeat([]byte{0xFF}, c.Pointer)
	}
	in = append(in, src[:c.Pointer]...)
	in = append(in, sec...)
	if c.Filler == 4 && c.Pointer >= 2 && len(in)-3 <= 0xFFF {
		in[1], in[2] = in[1]&0xF0|byte((len(in)-3)>>8), byte(len(in)-3)
	}
	return in
}

func checkC08(c CaseC08, x *hx.Ctx) *hx.Failure {
	m := c.Splice
	if c.Negative != "" {
		return c08Negative(c, x)
	}
	sec := m.Encode()
	if len(sec) > 4096 {
		return hx.Failf("bad-case", "section too long")
	}
	nt, labels := spliceNT(&m)
	x.NT(nt)
	for _, l := range labels {
		x.Label(l)
	}
	x.LabelIf(c.Pointer > 0, "pointer>0")
	in, spareIntact := withSpare(c08Input(c, sec))
	keep := clone(in)
	s, err := scte35.NewSCTE35(in)
	if err != nil {
		return hx.Failf("decode-error", "NewSCTE35 failed on a well-formed section: %v\n section %x", err, sec)
	}
	if !bytes.Equal(keep, in) {
		return hx.Failf("decode-mutates", "NewSCTE35 modified its input")
	}
	if f := cmpSplice(fmt.Sprintf("decoding %x", sec), &m, s); f != nil {
		return f
	}
	if len(m.Descs) <= 64 { // printing is quadratic in the number of descriptors; C05 prints the long ones
		_ = s.String()
	}
	if !bytes.Equal(keep, in) || !spareIntact() {
		return hx.Failf("decode-mutates", "decoding / printing the signal modified the caller's buffer or the spare capacity behind it")
	}
	return nil
}

func c08Negative(c CaseC08, x *hx.Ctx) *hx.Failure {
	m := c.Splice
	x.NonTrivial()
	x.Label("negative-" + c.Negative)
	var want error
	switch c.Negative {
	case "command":
		m.Cmd = byte(c.NegValue)
		m.RawCmd = ref.Hex{}
		want = gots.ErrSCTE35UnsupportedSpliceCommand
	case "encrypted":
		m.Encrypted = true
		want = gots.ErrSCTE35EncryptionUnsupported
	case "table-id":
		m.TableID = byte(c.NegValue)
		want = gots.ErrUnknownTableID
	case "identifier":
		found := false
		for i := range m.Descs {
			if !m.Descs[i].Foreign {
				m.Descs[i].Identifier ^= 1 << uint(c.NegValue)
				found = true
				break
			}
		}
		if !found {
			d := ref.SpliceDesc{Identifier: ref.CUEI ^ 1<<uint(c.NegValue), Event: 7, Prog: true, NotRestricted: true, Type: 0x10, UPID: ref.Hex{}, MID: []ref.SegUPID{}, Comps: []ref.SegOffset{}}
			m.Descs = append(m.Descs, d)
		}
		want = gots.ErrSCTE35InvalidDescriptorID
	case "identifier-short":
		// somebody else's descriptor under tag 0x02: their identifier and only a few private bytes
		// (shorter than a segmentation descriptor's fixed part): it is the identifier that disqualifies it
		body := append([]byte("ABCD"), bytes.Repeat([]byte{0x5A}, c.NegLen)...)
		m.Descs = append(m.Descs, ref.SpliceDesc{Foreign: true, FTag: 0x02, FBody: body})
		want = gots.ErrSCTE35InvalidDescriptorID
	case "table-id-short":
		// a complete, short section of another table (shorter than any splice_info_section)
		sec := ref.ForeignSection(byte(c.NegValue), bytes.Repeat([]byte{0x11}, c.NegLen))
		s, err := scte35.NewSCTE35(c08Input(c, sec))
		if !errors.Is(err, gots.ErrUnknownTableID) {
			return hx.Failf("reject-table-id-short", "a %d-byte section with table_id %#x must be rejected with %q, got (%v, %v)\n section %x", len(sec), c.NegValue, gots.ErrUnknownTableID, s != nil, err, sec)
		}
		return nil
	default:
		return hx.Failf("bad-case", "unknown negative kind")
	}
	sec := m.Encode()
	s, err := scte35.NewSCTE35(c08Input(c, sec))
	if !errors.Is(err, want) {
		return hx.Failf("reject-"+c.Negative, "section with %s must be rejected with %q, got (%v, %v)\n section %x", c.Negative, want, s != nil, err, sec)
	}
	return nil
}

var propC08 = hx.Register(hx.Prop[CaseC08]{ID: "C08", Gen: genC08, Check: checkC08})

func c08Rule() {
	hx.Rec("C08").SetRule("cases: a reference-model splice_info_section over the supported syntax: splice_null / time_signal with time / splice_insert x {cancelled, program or component mode, immediate or timed, with/without break_duration, 0..4 components with/without time}; pts_adjustment, pts_time, durations and offsets from 33-/40-bit boundary sets; any tier, cw_index; protocol_version 0; real or 0xFFF splice_command_length; 0..5 descriptors (one section in 500: 130..340 small ones): segmentation (cancelled or full, all flag combinations, 0..3 components, 40-bit duration, UPID of 0..40 bytes or MID list of 0..3 entries, named or arbitrary type, sub-segment fields for 0x34/0x36) and foreign descriptors, 0..8 alignment_stuffing bytes before CRC_32, one time in five a sibling of an earlier descriptor (same type, event id and segment numbers, differing in one other field or in none); pointer_field 0..255 (incl. values that are table ids) over 0xFF filler, a byte pattern, the end of another section or bytes that look like a section behind its table_id. One case in six is a negative: unsupported command type, encrypted bit, table id != 0xFC (also as a complete section of only 7..17 bytes), or a segmentation descriptor identifier differing from CUEI in one bit (also a tag-0x02 descriptor of another owner with 0..4 private bytes). Oracle: every getter equals the model where the syntax carries the field; PTS() = (pts_time + pts_adjustment) mod 2^33; descriptors refer back to their signal; negatives map to their sentinel errors. Non-trivial: splice_insert other than the plain program/timed form, or a 33/40-bit field with a bit >= 32 set, or >= 2 descriptors of different shapes, or a negative.",
		"time_signal / program splice_insert with time_specified_flag 0 are outside the statement's supported list and are not generated as positives",
		"section_length up to the 12-bit limit (long UPIDs push it beyond 1023)")
}

func TestC08(t *testing.T) {
	c08Rule()
	replayRegress(t, "C08")
	propC08.Run(t)
}

func FuzzC08(f *testing.F) {
	c08Rule()
	f.Fuzz(propC08.Fuzz())
}
