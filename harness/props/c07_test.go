package props

import (
	"bytes"
	"errors"
	"fmt"
	"testing"

	gots "github.com/Comcast/gots/v2"
	"github.com/Comcast/gots/v2/packet"
	"github.com/Comcast/gots/v2/psi"
	"pgregory.net/rapid"

	"verifharness/hx"
	"verifharness/ref"
)

// C07 — PAT decoding.

type CaseC07 struct {
	PAT      ref.PAT `json:"pat"`
	Carrier  string  `json:"carrier"`  // payload, packet, packet-af, stream
	Trailing int     `json:"trailing"` // 0xFF bytes after the section (payload carrier)
	Before   int     `json:"before"`   // non-PAT packets before the PAT packet (stream carrier)
	After    int     `json:"after"`    // packets after it
	Other    ref.Hex `json:"other_pkt"`
	Probe    []int   `json:"probe"`    // PIDs to classify with IsPMT
	CutTail  int     `json:"cut_tail"` // for the not-found clause: bytes of a truncated last packet
	// Later, when set, is another PAT sent in a second PID-0 packet further down the stream (a table update, or the
	// next section of a multi-section table): the table reported is the one in the first PID-0 packet.
	Later *ref.PAT `json:"later_pat,omitempty"`
	// Pointer is the pointer_field in front of the section (that many 0xFF filler bytes follow it)
	Pointer int `json:"pointer,omitempty"`
	// Rd selects the reader the stream is read from: 0 bytes.Reader, 1.. a bufio.Reader (sizes 16, 188, 256, 4096) that the
	// caller goes on reading after ReadPAT has returned (the table is compared again afterwards)
	Rd int `json:"reader,omitempty"`
}

// c07Payload is pointer_field ++ filler ++ section.
func c07Payload(c CaseC07, section []byte) []byte {
	p := []byte{byte(c.Pointer)}
	p = append(p, bytes.Repeat([]byte{0xFF}, c.Pointer)...)
	return append(p, section...)
}

func genC07(t *rapid.T) CaseC07 {
	c := CaseC07{}
	c.Carrier = rapid.SampledFrom([]string{"payload", "packet", "packet-af", "stream", "stream"}).Draw(t, "carrier")
	maxN := 42
	if c.Carrier == "payload" {
		maxN = 253
	}
	var n int
	switch rapid.IntRange(0, 5).Draw(t, "n-kind") {
	case 0:
		n = rapid.SampledFrom([]int{0, 1, 2, 3, maxN, maxN - 1}).Draw(t, "n-b")
	case 1:
		n = 1
	default:
		n = rapid.IntRange(0, maxN).Draw(t, "n")
		if rapid.Bool().Draw(t, "small") {
			n = n % 6
		}
	}
	c.PAT.TSID = uint16(genBits(t, 16, "tsid"))
	c.PAT.Version = rapid.IntRange(0, 31).Draw(t, "version")
	c.PAT.CurrentNext = rapid.Bool().Draw(t, "cn")
	if c.Carrier == "stream" {
		// in a stream the subject is the applicable table: a reader may pass over a table that announces itself as "next"
		c.PAT.CurrentNext = true
	}
	used := map[uint16]bool{}
	netAt := -1
	if n > 0 && rapid.IntRange(0, 3).Draw(t, "network") == 0 {
		netAt = rapid.IntRange(0, n-1).Draw(t, "network-at")
	}
	for i := 0; i < n; i++ {
		e := ref.PATEntry{}
		if i == netAt {
			e.Program = 0
		} else {
			e.Program = uint16(genBits(t, 16, "program"))
			for e.Program == 0 || used[e.Program] {
				e.Program++
			}
		}
		used[e.Program] = true
		switch rapid.IntRange(0, 3).Draw(t, "pid-kind") {
		case 0:
			e.PID = rapid.SampledFrom([]int{0x1FFF, 0x100, 0x1000, 0x10, 0xFF}).Draw(t, "pid-b")
		default:
			e.PID = int(genBits(t, 13, "pid"))
		}
		c.PAT.Entries = append(c.PAT.Entries, e)
	}
	if c.PAT.Entries == nil {
		c.PAT.Entries = []ref.PATEntry{}
	}
	if rapid.IntRange(0, 3).Draw(t, "multi-section") == 0 {
		c.PAT.LastSecNum = int(genBits(t, 8, "last-section-number"))
		c.PAT.SecNum = rapid.IntRange(0, c.PAT.LastSecNum).Draw(t, "section-number")
	}
	// (only behind a single-section table: what a reader does with the other sections of a multi-section PAT is not stated)
	if c.Carrier == "stream" && c.PAT.LastSecNum == 0 && rapid.IntRange(0, 2).Draw(t, "later-pat") == 0 {
		l := ref.PAT{TSID: c.PAT.TSID, Version: (c.PAT.Version + rapid.IntRange(0, 1).Draw(t, "later-version")) & 31, CurrentNext: rapid.IntRange(0, 3).Draw(t, "later-cn") != 0, LastSecNum: c.PAT.LastSecNum}
		if c.PAT.LastSecNum > 0 {
			l.SecNum = rapid.IntRange(0, c.PAT.LastSecNum).Draw(t, "later-section-number")
		}
		ln := rapid.IntRange(0, 4).Draw(t, "later-n")
		for i := 0; i < ln; i++ {
			l.Entries = append(l.Entries, ref.PATEntry{Program: uint16(1 + rapid.IntRange(0, 0xFFFE).Draw(t, "later-program")), PID: int(genBits(t, 13, "later-pid"))})
		}
		if l.Entries == nil {
			l.Entries = []ref.PATEntry{}
		}
		c.Later = &l
	}
	if rapid.IntRange(0, 3).Draw(t, "with-pointer") == 0 {
		// the section need not start right behind the pointer_field
		room := 182 // what fits in front of a section inside one 184-byte payload (C07 does not speak of pointer_field at all)
		if c.Carrier != "payload" {
			room = 184 - 1 - (12 + 4*n)
		}
		if room > 0 {
			c.Pointer = rapid.IntRange(1, room).Draw(t, "pointer")
			if rapid.Bool().Draw(t, "pointer-small") && room >= 4 {
				c.Pointer = rapid.IntRange(1, 4).Draw(t, "pointer-s")
			}
		}
	}
	c.Trailing = rapid.SampledFrom([]int{0, 0, 1, 5, 60}).Draw(t, "trailing")
	c.Before = rapid.IntRange(0, 5).Draw(t, "before")
	c.After = rapid.IntRange(0, 2).Draw(t, "after")
	if rapid.IntRange(0, 2).Draw(t, "buffered-reader") == 0 {
		c.Rd = rapid.IntRange(1, 4).Draw(t, "buffered-reader-size")
	}
	c.Other = genOtherPacket(t, 0)
	for i := 0; i < 4; i++ {
		c.Probe = append(c.Probe, int(genBits(t, 13, "probe")))
	}
	c.CutTail = rapid.SampledFrom([]int{0, 0, 0, 1, 4, 100, 187}).Draw(t, "cut-tail")
	return c
}

func c07Compare(what string, pat psi.PAT, m *ref.PAT, probe []int) *hx.Failure {
	if pat.NumPrograms() != len(m.Entries) {
		return hx.Failf("numprograms", "%s: NumPrograms() = %d, section has %d entries", what, pat.NumPrograms(), len(m.Entries))
	}
	want := map[int]int{}
	for _, e := range m.Entries {
		if e.Program != 0 {
			want[int(e.Program)] = e.PID
		}
	}
	got := pat.ProgramMap()
	if len(got) != len(want) {
		return hx.Failf("programmap", "%s: ProgramMap() has %d entries, want %d (%v vs %v)", what, len(got), len(want), got, want)
	}
	for pn, pid := range want {
		if g, ok := got[pn]; !ok || g != pid {
			return hx.Failf("programmap", "%s: ProgramMap()[%d] = %d (present %v), want %d", what, pn, g, ok, pid)
		}
	}
	pid, err := pat.SPTSpmtPID()
	if len(m.Entries) == 1 && m.Entries[0].Program != 0 {
		// (one section of a multi-section table does not show how many entries "the table" has: asserted for single-section tables)
		if (err != nil || pid != m.Entries[0].PID) && m.LastSecNum == 0 {
			return hx.Failf("spts", "%s: SPTSpmtPID() = (%d, %v), want %d", what, pid, err, m.Entries[0].PID)
		}
	} else if err == nil {
		return hx.Failf("spts-no-error", "%s: SPTSpmtPID() = %d without error for a table with %d entries (%d programs)", what, pid, len(m.Entries), len(want))
	}
	// IsPMT classification
	values := map[int]bool{}
	for _, pid := range want {
		values[pid] = true
	}
	pids := append([]int{}, probe...)
	for _, e := range m.Entries {
		pids = append(pids, e.PID, (e.PID+1)&0x1FFF)
		if len(pids) > 40 {
			break
		}
	}
	for i, p := range pids {
		// the classification goes by PID: payload only, adaptation field and payload, adaptation field only (all well-formed)
		var pk *packet.Packet
		switch i % 3 {
		case 0:
			pk = packet.Create(p, packet.WithHasPayloadFlag)
		case 1:
			b := (&ref.Packet{Sync: 0x47, PID: p, AFC: 3, CC: i & 15, AF: &ref.AF{Len: 7, RA: true}, Payload: bytes.Repeat([]byte{0x5A}, 176)}).MustBytes()
			q := packet.Packet(b)
			pk = &q
		default:
			b := (&ref.Packet{Sync: 0x47, PID: p, AFC: 2, CC: i & 15, AF: &ref.AF{Len: 183}, Payload: ref.Hex{}}).MustBytes()
			q := packet.Packet(b)
			pk = &q
		}
		is, err := psi.IsPMT(pk, pat)
		if err != nil || is != values[p] {
			return hx.Failf("ispmt", "%s: IsPMT(packet with PID %d, adaptation_field_control %d) = (%v, %v), want %v", what, p, pk[3]>>4&3, is, err, values[p])
		}
	}
	return nil
}

func checkC07(c CaseC07, x *hx.Ctx) *hx.Failure {
	m := &c.PAT
	section := m.Section()
	n := len(m.Entries)
	net, big := false, false
	for _, e := range m.Entries {
		if e.Program == 0 {
			net = true
		}
		if e.PID > 255 {
			big = true
		}
	}
	x.NT((n != 1 && n != 2) || net || big || (c.Carrier == "stream" && c.Before > 0))
	x.Label("carrier=" + c.Carrier)
	x.LabelIf(net, "network-entry")
	x.LabelIf(n == 0, "no-entries")
	x.LabelIf(n > 42, ">42-entries")
	what := fmt.Sprintf("carrier %s, %d entries", c.Carrier, n)

	payload := c07Payload(c, section)
	x.LabelIf(c.Pointer > 0, "pointer_field>0")
	switch c.Carrier {
	case "payload":
		payload = append(payload, bytes.Repeat([]byte{0xFF}, c.Trailing)...)
		if len(payload) == 188 {
			payload = append(payload, 0xFF)
		}
		keep := clone(payload)
		pat, err := psi.NewPAT(payload)
		if err != nil {
			return hx.Failf("newpat-error", "%s: NewPAT failed: %v", what, err)
		}
		if f := c07Compare(what, pat, m, c.Probe); f != nil {
			return f
		}
		if !bytes.Equal(keep, payload) {
			return hx.Failf("newpat-mutates", "NewPAT or a getter modified the input")
		}
	case "packet", "packet-af", "stream":
		if len(payload) > 184 {
			return hx.Failf("bad-case", "PAT does not fit one packet")
		}
		size := 184
		if c.Carrier == "packet-af" || (c.Carrier == "stream" && c.Trailing == 0) {
			size = len(payload) + c.Trailing%3
			if size > 184 {
				size = 184
			}
		}
		pk, err := ref.Packetise(payload, 0, 3, []int{size})
		if err != nil {
			return hx.Failf("bad-case", "packetise: %v", err)
		}
		pb := pk[0].MustBytes()
		if c.Carrier != "stream" {
			pat, err := psi.NewPAT(clone(pb[:]))
			if err != nil {
				return hx.Failf("newpat-error", "%s: NewPAT(188-byte packet) failed: %v", what, err)
			}
			return c07Compare(what, pat, m, c.Probe)
		}
		var stream []byte
		for i := 0; i < c.Before; i++ {
			stream = append(stream, c.Other...)
		}
		noPAT := clone(stream)
		stream = append(stream, pb[:]...)
		for i := 0; i < c.After; i++ {
			stream = append(stream, c.Other...)
		}
		if c.Later != nil {
			x.Label("second-pid0-packet-later")
			lp, err := ref.Packetise(append([]byte{0}, c.Later.Section()...), 0, 4, []int{184})
			if err != nil {
				return hx.Failf("bad-case", "packetise later PAT: %v", err)
			}
			lb := lp[0].MustBytes()
			stream = append(stream, lb[:]...)
			stream = append(stream, c.Other...)
		}
		r := streamReader(c.Rd, stream, c.Other)
		pat, err := psi.ReadPAT(r)
		if err != nil {
			return hx.Failf("readpat-error", "%s after %d other packets: ReadPAT failed: %v", what, c.Before, err)
		}
		if f := c07Compare(what+" (ReadPAT)", pat, m, c.Probe); f != nil {
			return f
		}
		if c.Rd != 0 {
			// the caller reads on from the same reader: the table it holds is its own
			x.Label("buffered-reader-read-on")
			readOn(r)
			if f := c07Compare(what+" (ReadPAT, after the caller read the rest of the stream from the same bufio.Reader)", pat, m, c.Probe); f != nil {
				f.Key = "retained-" + f.Key
				return f
			}
		}
		// a stream without a PID-0 packet, possibly ending in a truncated packet (even a truncated PAT packet)
		noPAT = append(noPAT, pb[:c.CutTail]...)
		// whole packets only: the not-found error; with a cut last packet some error (which one is not fixed)
		_, nerr := psi.ReadPAT(bytes.NewReader(noPAT))
		if c.CutTail == 0 && !errors.Is(nerr, gots.ErrPATNotFound) {
			return hx.Failf("readpat-notfound", "stream of %d other packets without a PID-0 packet: ReadPAT error %v, want ErrPATNotFound", c.Before, nerr)
		}
		if nerr == nil {
			return hx.Failf("readpat-notfound", "stream of %d other packets + %d bytes of a cut packet: ReadPAT found a PAT", c.Before, c.CutTail)
		}
	default:
		return hx.Failf("bad-case", "unknown carrier")
	}
	if is, err := psi.IsPMT(packet.Create(0x20), nil); err == nil || is {
		return hx.Failf("ispmt-nil", "IsPMT with a nil PAT returned (%v, %v), want an error", is, err)
	}
	return nil
}

var propC07 = hx.Register(hx.Prop[CaseC07]{ID: "C07", Gen: genC07, Check: checkC07})

func c07Rule() {
	hx.Rec("C07").SetRule("cases: a reference-model PAT with 0..253 entries (payload carrier) or 0..42 (packet and stream carriers), distinct program numbers, with probability 1/4 a network entry (program 0) at a drawn position, PIDs biased to > 255 and 0x1FFF, arbitrary transport_stream_id/version, pointer_field 0 (three cases in four) or up to what the carrier allows; carried as payload bytes (optional trailing stuffing), as a 188-byte packet (payload-side padding or adaptation-field stuffing), or in a stream after 0..5 packets of other PIDs (random payloads, or a complete PAT section on a PID other than 0) and before 0..2 more, one stream in three read through a bufio.Reader (16..4096 bytes) that the caller reads on from afterwards (the table is compared again), optionally followed by a second, different PID-0 packet (table update or another section_number; section_number/last_section_number/current_next drawn freely). Oracle: the model (entry count, exact program map, single-program accessor, IsPMT for map values/neighbours/drawn PIDs, nil PAT, not-found on streams without a PID-0 packet incl. a truncated last packet). Enumerated: every entry count 0..253 (payload) and 0..42 (packet, packet-af, stream) with and without a network entry. Non-trivial: entry count not in {1,2}, or a network entry, or a PID > 255, or a non-zero stream offset.",
		"distinct program numbers")
}

func TestC07(t *testing.T) {
	c07Rule()
	replayRegress(t, "C07")
	propC07.Run(t)
}

func TestC07Exhaustive(t *testing.T) {
	c07Rule()
	if !hx.FirstShard() {
		t.Skip("enumeration runs on shard 0")
	}
	other := (&ref.Packet{Sync: 0x47, PID: 0x1FFF, AFC: 1, Payload: bytes.Repeat([]byte{0x47}, 184)}).MustBytes()
	for _, carrier := range []string{"payload", "packet", "packet-af", "stream"} {
		maxN := 42
		if carrier == "payload" {
			maxN = 253
		}
		for n := 0; n <= maxN; n++ {
			for _, net := range []int{-1, 0, n - 1} {
				if net >= n || (net == n-1 && n <= 1) {
					continue
				}
				c := CaseC07{Carrier: carrier, Trailing: n % 4, Before: n % 6, After: n % 3, Other: clone(other[:]), Probe: []int{0, 0x1FFF, n}, CutTail: (n * 13) % 188}
				c.PAT = ref.PAT{TSID: uint16(n * 257), Version: n % 32, CurrentNext: n%2 == 0 || carrier == "stream", Entries: []ref.PATEntry{}}
				for i := 0; i < n; i++ {
					e := ref.PATEntry{Program: uint16(i*37 + 1), PID: (i*611 + 0x101) & 0x1FFF}
					if i == net {
						e.Program = 0
					}
					c.PAT.Entries = append(c.PAT.Entries, e)
				}
				if f := propC07.EvalFast(c, hx.HashBytes([]byte(carrier), []byte{byte(n), byte(net + 2)})); f != nil {
					t.Fatalf("VIOLATION-CANDIDATE property=C07 key=%s: %s", f.Key, f.Msg)
				}
			}
		}
	}
	hx.Rec("C07").Subspace("every entry count (0..253 payload carrier; 0..42 packet, packet-af, stream carriers) x {no network entry, network entry first, network entry last}")
}

func FuzzC07(f *testing.F) {
	c07Rule()
	f.Fuzz(propC07.Fuzz())
}
