package props

import (
	"bufio"
	"bytes"
	"errors"
	"fmt"
	"io"
	"os"
	"strings"
	"testing"
	"testing/iotest"

	gots "github.com/Comcast/gots/v2"
	"github.com/Comcast/gots/v2/packet"
	"pgregory.net/rapid"

	"verifharness/hx"
	"verifharness/ref"
)

// C18 — writer adapters.

type CaseC18 struct {
	Packets     int     `json:"packets"`                 // whole packets in the data
	Extra       int     `json:"extra"`                   // 0..187 additional bytes (partial packet)
	Seed        byte    `json:"seed"`                    // contents are a deterministic function of (seed, position)
	Content     ref.Hex `json:"content"`                 // optional explicit contents overriding the seed pattern (first bytes)
	FailAt      int     `json:"fail_at"`                 // index of the packet write that fails, -1 = none
	FailN       int     `json:"fail_n"`                  // count returned by the failing packet write
	Ctor        int     `json:"ctor"`                    // 0 IOWriter, 1 IOWriteCloser, 2 IOWriter(PacketWriterFunc), 3 IOWriteCloser(NopCloser(func)), 4/5 as 0/1 with a packet writer that also has its own Write method
	ErrWithData bool    `json:"err_with_data,omitempty"` // the failing reader reports its error together with the last bytes it delivers
	ErrOnce     bool    `json:"err_once,omitempty"`      // ... and only once: later reads go on delivering data (a deadline, not a dead source)
	ErrKind     int     `json:"err_kind"`                // error the failing reader returns: 0 plain, 1 timeout-like (Timeout() true), 2 os.ErrDeadlineExceeded, 3 io.ErrNoProgress, 4 wraps io.EOF, 5 wraps io.ErrUnexpectedEOF, 6 io.ErrUnexpectedEOF itself, 7 temporary but not a timeout (EINTR-like)
	Reader      int     `json:"reader"`                  // 0 bytes.Reader 1 bufio 2 one-byte 3 half 4 data-with-EOF 5 chunks
	Chunks      []int   `json:"chunks"`                  // for reader kind 5; a chunk of 0 is a Read that returns (0, nil) once, which io.Reader allows
	LimitExtra  int     `json:"limit_extra,omitempty"`   // for reader kind 7: how far the io.LimitedReader's limit lies beyond the end of the contents
	BufSize     int     `json:"buf_size,omitempty"`      // for reader kind 1 (0 = 4096): bufio buffers smaller than a packet too
	ReadFail    int     `json:"read_fail"`               // reader fails with its own error after this many bytes, -1 = never
	ViaCopy     bool    `json:"via_copy"`                // drive ReadFrom through io.Copy
	Again       bool    `json:"again"`                   // call ReadFrom a second time on the SAME adapter (with an intact stream)
}

func genC18(t *rapid.T) CaseC18 {
	c := CaseC18{}
	c.Packets = rapid.IntRange(0, 12).Draw(t, "packets")
	if rapid.IntRange(0, 2).Draw(t, "partial") == 0 {
		c.Extra = rapid.IntRange(1, 187).Draw(t, "extra")
	}
	c.Seed = rapid.Byte().Draw(t, "seed")
	c.Content = genBytes(t, 0, 8, "content")
	c.FailAt = -1
	if c.Packets > 0 && rapid.IntRange(0, 2).Draw(t, "fail") == 0 {
		c.FailAt = rapid.IntRange(0, c.Packets-1).Draw(t, "fail-at")
		c.FailN = rapid.SampledFrom([]int{0, 0, 188, 10}).Draw(t, "fail-n")
	}
	c.Ctor = rapid.IntRange(0, 7).Draw(t, "ctor")
	c.ErrKind = rapid.IntRange(0, 7).Draw(t, "err-kind")
	c.ErrWithData = rapid.IntRange(0, 2).Draw(t, "err-with-data") == 0
	c.ErrOnce = rapid.Bool().Draw(t, "err-once")
	// 6 = a regular file; 7..12 = the standard library's other readers (a LimitedReader with its limit behind / at the end of
	// the contents, bytes.Buffer, strings.Reader, SectionReader, MultiReader): "any reader"
	c.Reader = rapid.SampledFrom([]int{0, 1, 2, 3, 4, 5, 5, 5, 6, 7, 7, 8, 9, 10, 11, 12}).Draw(t, "reader")
	if c.Reader == 7 {
		c.LimitExtra = rapid.SampledFrom([]int{0, 1, 94, 187, 188, 189, 1000, 1 << 40}).Draw(t, "limit-extra")
	}
	if c.Reader == 12 {
		c.Chunks = rapid.SliceOfN(rapid.IntRange(1, 400), 1, 6).Draw(t, "multi-chunks")
	}
	if c.Reader == 5 {
		c.Chunks = rapid.SliceOfN(rapid.IntRange(1, 400), 1, 6).Draw(t, "chunks")
		if rapid.IntRange(0, 3).Draw(t, "empty-read") == 0 {
			// a Read that delivers nothing and reports no error: "nothing happened", the stream goes on
			c.Chunks[rapid.IntRange(0, len(c.Chunks)-1).Draw(t, "empty-read-at")] = 0
			c.Chunks = append(c.Chunks, rapid.IntRange(1, 400).Draw(t, "chunk-after-empty"))
		}
	}
	if c.Reader == 1 {
		c.BufSize = rapid.SampledFrom([]int{0, 16, 17, 64, 100, 187, 188, 189, 376, 4096, 65536}).Draw(t, "bufio-size")
	}
	c.ReadFail = -1
	if rapid.IntRange(0, 4).Draw(t, "rfail") == 0 {
		c.ReadFail = rapid.IntRange(0, c.Packets*188+c.Extra).Draw(t, "rfail-at")
	}
	c.ViaCopy = rapid.Bool().Draw(t, "via-copy")
	c.Again = rapid.IntRange(0, 2).Draw(t, "again") == 0
	if rapid.IntRange(0, 60).Draw(t, "long-stream") == 0 {
		// streams longer than any plausible internal buffer, read in awkward pieces
		c.Packets = rapid.IntRange(340, 800).Draw(t, "long-packets")
		c.FailAt = -1
		c.Reader = rapid.SampledFrom([]int{3, 5, 5, 1}).Draw(t, "long-reader")
		c.Chunks = rapid.SliceOfN(rapid.SampledFrom([]int{65436, 65535, 65537, 4097, 1000, 187, 189, 32768, 100}), 1, 4).Draw(t, "long-chunks")
		c.Content = ref.Hex{}
	}
	return c
}

var errC18Writer = errors.New("harness: packet writer failed")
var errC18Reader = errors.New("harness: reader failed")

type c18Sink struct {
	got      [][]byte
	failAt   int
	failN    int
	closed   int
	retained []*packet.Packet
}

func (s *c18Sink) WritePacket(p *packet.Packet) (int, error) {
	idx := len(s.got)
	s.got = append(s.got, clone(p[:]))
	if idx == s.failAt {
		return s.failN, errC18Writer
	}
	return packet.PacketSize, nil
}
func (s *c18Sink) Close() error { s.closed++; return nil }

// c18SinkW is a packet writer whose type also has an io.Writer-style Write of
// its own (e.g. it embeds a buffer): the adapter must still go through WritePacket.
type c18SinkW struct {
	*c18Sink
	ownWrites int
}

func (s *c18SinkW) Write(p []byte) (int, error) { s.ownWrites++; return len(p), nil }

// c18SinkWR additionally has a ReadFrom of its own (as a type that embeds a *bufio.Writer or an *os.File has): the adapter's
// ReadFrom must still deliver packets through WritePacket.
type c18SinkWR struct {
	*c18SinkW
	ownReads int
}

func (s *c18SinkWR) ReadFrom(r io.Reader) (int64, error) {
	s.ownReads++
	return io.Copy(io.Discard, r)
}

// the reader's own errors may wrap the io sentinels (errors.Is matches them, == does not): they are still its own errors
var errC18WrapsEOF = fmt.Errorf("harness: connection reset: %w", io.EOF)
var errC18WrapsUnexpectedEOF = fmt.Errorf("harness: short record: %w", io.ErrUnexpectedEOF)

// c18TemporaryErr is what an interrupted system call looks like (syscall.EINTR): Temporary() but not Timeout(). It is the
// reader's failure all the same.
type c18TemporaryErr struct{}

func (c18TemporaryErr) Error() string   { return "harness: interrupted system call" }
func (c18TemporaryErr) Timeout() bool   { return false }
func (c18TemporaryErr) Temporary() bool { return true }

type c18TimeoutErr struct{}

func (c18TimeoutErr) Error() string   { return "harness: i/o timeout" }
func (c18TimeoutErr) Timeout() bool   { return true }
func (c18TimeoutErr) Temporary() bool { return true }

func c18ReaderErr(kind int) error {
	switch kind {
	case 1:
		return c18TimeoutErr{}
	case 2:
		return os.ErrDeadlineExceeded
	case 3:
		return io.ErrNoProgress
	case 4:
		return errC18WrapsEOF
	case 5:
		return errC18WrapsUnexpectedEOF
	case 6:
		// what a decompressing or length-framed reader reports for a truncated source: its own failure, not a clean end
		return io.ErrUnexpectedEOF
	case 7:
		return c18TemporaryErr{}
	}
	return errC18Reader
}

func c18Data(c CaseC18) []byte {
	n := c.Packets*188 + c.Extra
	d := make([]byte, n)
	for i := range d {
		d[i] = byte(i*31+i/188*7) ^ c.Seed
	}
	copy(d, c.Content)
	return d
}

func c18Writer(c CaseC18, sink *c18Sink) packet.Writer {
	switch c.Ctor {
	case 0:
		return packet.IOWriter(sink)
	case 1:
		return packet.IOWriteCloser(sink)
	case 2:
		return packet.IOWriter(packet.PacketWriterFunc(sink.WritePacket))
	case 3:
		return packet.IOWriteCloser(packet.NopCloser(packet.PacketWriterFunc(sink.WritePacket)))
	case 4:
		return packet.IOWriter(&c18SinkW{c18Sink: sink})
	case 5:
		return packet.IOWriteCloser(&c18SinkW{c18Sink: sink})
	case 6:
		return packet.IOWriter(&c18SinkWR{c18SinkW: &c18SinkW{c18Sink: sink}})
	default:
		return packet.IOWriteCloser(&c18SinkWR{c18SinkW: &c18SinkW{c18Sink: sink}})
	}
}

func c18Delivered(sink *c18Sink, data []byte, wantCount int, what string) *hx.Failure {
	if len(sink.got) != wantCount {
		return hx.Failf(what+"-count", "%s: packet writer was invoked %d times, want %d", what, len(sink.got), wantCount)
	}
	for i, g := range sink.got {
		if !bytes.Equal(g, data[i*188:(i+1)*188]) {
			return hx.Failf(what+"-content", "%s: packet %d delivered to the packet writer is not bytes [%d,%d) of the input", what, i, i*188, (i+1)*188)
		}
	}
	return nil
}

// c18BystanderPacket is packet i of the traffic of a second, unrelated adapter.
func c18BystanderPacket(i int) []byte {
	p := bytes.Repeat([]byte{byte(0xB0 + i)}, 188)
	copy(p, []byte{0x47, 0x1F, 0xFE, 0x10 | byte(i&15)})
	return p
}

func checkC18(c CaseC18, x *hx.Ctx) (fail *hx.Failure) {
	// a second adapter over its own packet writer is used between the calls under test (Write, ReadFrom in
	// one-byte reads, Write): adapters are independent objects
	sinkB := &c18Sink{failAt: -1}
	wB := c18Writer(CaseC18{Ctor: c.Ctor}, sinkB)
	feedB := func(i int) *hx.Failure {
		var n int64
		var err error
		if i%2 == 0 {
			var k int
			k, err = wB.Write(c18BystanderPacket(i))
			n = int64(k)
		} else {
			n, err = wB.(io.ReaderFrom).ReadFrom(iotest.OneByteReader(bytes.NewReader(c18BystanderPacket(i))))
		}
		if n != 188 || err != nil || len(sinkB.got) != i+1 || !bytes.Equal(sinkB.got[i], c18BystanderPacket(i)) {
			return hx.Failf("bystander-adapter", "packet %d sent through a second adapter between the calls under test: returned (%d, %v), its packet writer has seen %d packets", i, n, err, len(sinkB.got))
		}
		return nil
	}
	if f := feedB(0); f != nil {
		return f
	}
	defer func() {
		if fail == nil {
			fail = feedB(2)
		}
	}()
	data := c18Data(c)
	keep := clone(data)
	total := len(data)
	x.NT((c.Reader != 0 && c.Packets > 0) || (c.FailAt > 0 && c.FailAt < c.Packets-1))
	x.LabelIf(c.Extra > 0, "partial-tail")
	x.LabelIf(c.FailAt >= 0, "failing-packet-write")
	x.LabelIf(c.ReadFail >= 0, "failing-reader")
	x.LabelIf(c.Reader != 0, "fragmenting-reader")
	x.LabelIf(c.Packets > 300, "stream>64KiB")
	x.LabelIf(c.Again, "adapter-reused")

	// ---- Write
	sink := &c18Sink{failAt: c.FailAt, failN: c.FailN}
	w := c18Writer(c, sink)
	n, err := w.Write(data)
	if !bytes.Equal(keep, data) {
		return hx.Failf("write-mutates", "Write modified the caller's slice")
	}
	if c.Extra != 0 {
		if n != 0 || !errors.Is(err, gots.ErrInvalidPacketLength) {
			return hx.Failf("write-invalid-length", "Write of %d bytes (not a multiple of 188) returned (%d, %v), want (0, ErrInvalidPacketLength)", total, n, err)
		}
		if len(sink.got) != 0 {
			return hx.Failf("write-invalid-length", "Write of %d bytes delivered %d packets before rejecting the length", total, len(sink.got))
		}
	} else if c.FailAt < 0 {
		if f := c18Delivered(sink, data, c.Packets, "write"); f != nil {
			return f
		}
		if n != total || err != nil {
			return hx.Failf("write-result", "Write of %d packets returned (%d, %v), want (%d, nil)", c.Packets, n, err, total)
		}
	} else {
		if f := c18Delivered(sink, data, c.FailAt+1, "write-fail"); f != nil {
			return f
		}
		if !errors.Is(err, errC18Writer) {
			return hx.Failf("write-error", "packet write %d failed but Write returned error %v", c.FailAt, err)
		}
	}
	// Close passes through for the closer variants
	if wc, ok := w.(io.Closer); ok && c.Ctor == 1 {
		if cerr := wc.Close(); cerr != nil || sink.closed != 1 {
			return hx.Failf("close", "Close did not reach the wrapped closer exactly once (err %v, closed %d)", cerr, sink.closed)
		}
	}

	if f := feedB(1); f != nil {
		return f
	}

	// ---- ReadFrom
	sink = &c18Sink{failAt: c.FailAt, failN: c.FailN}
	w = c18Writer(c, sink)
	rf, ok := w.(io.ReaderFrom)
	if !ok {
		return hx.Failf("readfrom-missing", "adapter does not implement io.ReaderFrom")
	}
	var r io.Reader
	base := bytes.NewReader(data)
	switch c.Reader {
	case 0:
		r = base
	case 1:
		size := c.BufSize
		if size == 0 {
			size = 4096
		}
		r = bufio.NewReaderSize(base, size)
	case 2:
		r = iotest.OneByteReader(base)
	case 3:
		r = iotest.HalfReader(base)
	case 4:
		r = iotest.DataErrReader(base)
	case 6:
		// a regular file (a reader that knows its size): what most streams are read from
		f, ferr := os.CreateTemp("", "verif-c18-*.ts")
		if ferr != nil {
			return hx.Failf("harness-tempfile", "cannot create a scratch file: %v", ferr)
		}
		defer os.Remove(f.Name())
		defer f.Close()
		if _, werr := f.Write(data); werr != nil {
			return hx.Failf("harness-tempfile", "cannot write the scratch file: %v", werr)
		}
		if _, serr := f.Seek(0, io.SeekStart); serr != nil {
			return hx.Failf("harness-tempfile", "cannot rewind the scratch file: %v", serr)
		}
		r = f
	case 7:
		// the limit lies behind the end of the contents (by a whole number of packets or not): the stream is what it is
		r = &io.LimitedReader{R: base, N: int64(len(data)) + int64(c.LimitExtra)}
	case 8:
		// the limit IS the end of the stream: more bytes lie behind it in the underlying reader
		r = io.LimitReader(bytes.NewReader(append(clone(data), bytes.Repeat([]byte{0x47, 0x1F, 0xFF, 0x10}, 100)...)), int64(len(data)))
	case 9:
		r = bytes.NewBuffer(clone(data))
	case 10:
		r = strings.NewReader(string(data))
	case 11:
		junk := bytes.Repeat([]byte{0x47, 0x00, 0x11, 0x10, 0xAA}, 40)
		r = io.NewSectionReader(bytes.NewReader(append(append(clone(junk), data...), junk...)), int64(len(junk)), int64(len(data)))
	case 12:
		var parts []io.Reader
		rest := clone(data)
		for i := 0; len(rest) > 0; i++ {
			n := 188
			if len(c.Chunks) > 0 {
				n = c.Chunks[i%len(c.Chunks)]
			}
			if n <= 0 || n > len(rest) {
				n = len(rest)
			}
			parts = append(parts, bytes.NewReader(rest[:n]))
			rest = rest[n:]
		}
		r = io.MultiReader(parts...)
	default:
		r = &fragReader{data: clone(data), chunks: c.Chunks, failAfter: -1}
	}
	avail := total
	if c.ReadFail >= 0 {
		r = &fragReader{data: clone(data), chunks: c.Chunks, failAfter: c.ReadFail, ownErr: c18ReaderErr(c.ErrKind), errWithData: c.ErrWithData, errOnce: c.ErrOnce}
		if c.Reader == 2 {
			r = iotest.OneByteReader(r)
		}
		avail = c.ReadFail
	}
	var rn int64
	var rerr error
	if c.ViaCopy {
		// io.Copy prefers the source's WriterTo over the destination's ReaderFrom; hide it
		rn, rerr = io.Copy(w, struct{ io.Reader }{r})
	} else {
		rn, rerr = rf.ReadFrom(r)
	}
	complete := avail / 188
	wantDelivered := complete
	if c.FailAt >= 0 && c.FailAt < complete {
		wantDelivered = c.FailAt + 1
	}
	if f := c18Delivered(sink, data, wantDelivered, "readfrom"); f != nil {
		f.Msg += " (reader kind " + []string{"bytes.Reader", "bufio", "one-byte", "half", "data-with-EOF", "chunks", "regular file", "io.LimitedReader, limit behind the end", "io.LimitedReader, limit at the end", "bytes.Buffer", "strings.Reader", "io.SectionReader", "io.MultiReader"}[c.Reader] + ")"
		return f
	}
	if c.Again {
		// the adapter must not carry anything over from the first call (whatever its outcome)
		sink2 := &c18Sink{failAt: -1}
		sink.failAt = -1
		before := len(sink.got)
		whole := data[:c.Packets*188]
		var n2 int64
		var err2 error
		if c.Ctor == 2 || c.Ctor == 3 {
			// function-backed adapters share the sink through the closure
			n2, err2 = rf.ReadFrom(&fragReader{data: clone(whole), chunks: c.Chunks, failAfter: -1})
			sink2.got = sink.got[before:]
		} else {
			n2, err2 = rf.ReadFrom(&fragReader{data: clone(whole), chunks: c.Chunks, failAfter: -1})
			sink2.got = sink.got[before:]
		}
		if f := c18Delivered(sink2, whole, c.Packets, "readfrom-again"); f != nil {
			f.Msg += fmt.Sprintf(" (second ReadFrom on the same adapter; the first call ended with n=%d err=%v)", rn, rerr)
			return f
		}
		if err2 != nil || n2 != int64(len(whole)) {
			return hx.Failf("readfrom-again-result", "second ReadFrom on the same adapter returned (%d, %v), want (%d, nil)", n2, err2, len(whole))
		}
		sink.got = sink.got[:before]
	}
	// the read that completes packet FailAt also carries the reader's error: two faults at once, the statement does not say which one is reported
	bothAtOnce := c.ReadFail >= 0 && c.ErrWithData && c.ReadFail > 0 && c.ReadFail%188 == 0 && c.FailAt == c.ReadFail/188-1
	switch {
	case bothAtOnce:
		if !errors.Is(rerr, errC18Writer) && !errors.Is(rerr, c18ReaderErr(c.ErrKind)) {
			return hx.Failf("readfrom-error", "packet write %d failed and the reader failed with the same read, but ReadFrom returned error %v", c.FailAt, rerr)
		}
	case c.FailAt >= 0 && c.FailAt < complete:
		if !errors.Is(rerr, errC18Writer) {
			return hx.Failf("readfrom-writer-error", "packet write %d failed but ReadFrom returned error %v", c.FailAt, rerr)
		}
	case c.ReadFail >= 0:
		// a reader failing inside a packet with an error that IS or WRAPS an end-of-stream sentinel fits both clauses
		// ("the stream ends in a partial packet" and "the reader fails"): either error is accepted there
		eofLike := c.ErrKind >= 4 && c.ReadFail%188 != 0 && errors.Is(rerr, gots.ErrInvalidPacketLength)
		if !errors.Is(rerr, c18ReaderErr(c.ErrKind)) && !eofLike {
			return hx.Failf("readfrom-reader-error", "reader failed after %d bytes but ReadFrom returned error %v", c.ReadFail, rerr)
		}
		if rn != int64(188*complete) {
			return hx.Failf("readfrom-count", "ReadFrom returned %d bytes, %d complete packets were delivered", rn, complete)
		}
	case avail%188 != 0:
		if !errors.Is(rerr, gots.ErrInvalidPacketLength) {
			return hx.Failf("readfrom-partial", "stream ends in a partial packet (%d bytes) but ReadFrom returned error %v", avail%188, rerr)
		}
		if rn != int64(188*complete) {
			return hx.Failf("readfrom-count", "ReadFrom returned %d bytes, %d complete packets were delivered", rn, complete)
		}
	default:
		if rerr != nil {
			return hx.Failf("readfrom-error", "ReadFrom of %d whole packets returned error %v", complete, rerr)
		}
		if rn != int64(188*complete) {
			return hx.Failf("readfrom-count", "ReadFrom returned %d bytes, %d complete packets were delivered", rn, complete)
		}
	}
	return nil
}

var propC18 = hx.Register(hx.Prop[CaseC18]{ID: "C18", Gen: genC18, Check: checkC18})

func c18Rule() {
	hx.Rec("C18").SetRule("cases: 0..12 packets of deterministic contents (+ 0..187 extra bytes), a packet-writer mock that records a copy of every packet and fails at a drawn index with a drawn count, the four adapter constructions plus two over a packet writer whose type also has its own Write method, and for ReadFrom the same contents through bytes.Reader, bufio.Reader (buffer sizes 16..65536, also smaller than a packet), one-byte reader, half reader, data-with-EOF reader, a regular file, io.LimitedReader (limit behind or at the end of the contents), bytes.Buffer, strings.Reader, io.SectionReader, io.MultiReader, drawn chunk sizes 1..400 (optionally with a Read that returns (0, nil) in between), and a reader that fails after k bytes with a plain, timeout-like, os.ErrDeadlineExceeded, io.ErrNoProgress or EOF-wrapping error reported with or after the last bytes, once or for good (followed by a second ReadFrom on the same adapter); ReadFrom driven directly or through io.Copy. Oracle: the sequence of packets seen by the mock, returned count and error, per the statement. Enumerated: every (packet count 0..6, partial tail in {0,1,94,187}, reader kind, failing position) combination. Non-trivial: a fragmenting reader (not one packet per Read) or a failure position strictly inside the sequence.",
		"the packet-writer mock returns 188 on success (the io.Writer-style contract the adapter documents)")
}

func TestC18(t *testing.T) {
	c18Rule()
	replayRegress(t, "C18")
	propC18.Run(t)
}

func TestC18Exhaustive(t *testing.T) {
	c18Rule()
	if !hx.FirstShard() {
		t.Skip("enumeration runs on shard 0")
	}
	for pk := 0; pk <= 6; pk++ {
		for _, extra := range []int{0, 1, 94, 187} {
			for _, reader := range []int{0, 1, 2, 3, 4, 5, 7, 8, 9, 10, 11, 12} {
				for failAt := -1; failAt < pk; failAt++ {
					for _, readFail := range []int{-1, 0, 100, 188, 400} {
						if readFail > pk*188+extra {
							continue
						}
						c := CaseC18{Packets: pk, Extra: extra, Seed: 0x5c, FailAt: failAt, FailN: 0, Ctor: (pk + reader) % 4, Reader: reader, Chunks: []int{100, 7, 300}, LimitExtra: (pk * 31) % 189, ReadFail: readFail, ViaCopy: (pk+extra)%2 == 0}
						if f := propC18.EvalFast(c, hx.HashInts(uint64(pk), uint64(extra), uint64(reader), uint64(failAt+1), uint64(readFail+1))); f != nil {
							t.Fatalf("VIOLATION-CANDIDATE property=C18 key=%s: %s", f.Key, f.Msg)
						}
					}
				}
			}
		}
	}
	hx.Rec("C18").Subspace("packets 0..6 x partial tail {0,1,94,187} x 12 reader kinds x every failing packet-write position (or none) x reader failure after {never,0,100,188,400} bytes")
}

func FuzzC18(f *testing.F) {
	c18Rule()
	f.Fuzz(propC18.Fuzz())
}
