package props

import (
	"bytes"
	"fmt"
	"sync"
	"testing"

	gots "github.com/Comcast/gots/v2"
	"github.com/Comcast/gots/v2/packet"
	"github.com/Comcast/gots/v2/packet/adaptationfield"
	"github.com/Comcast/gots/v2/pes"
	"pgregory.net/rapid"

	"verifharness/hx"
	"verifharness/ref"
)

// C04 — PCR and PTS/DTS codecs.

type CaseC04 struct {
	Base    uint64  `json:"pcr_base"` // < 2^33
	Ext     int     `json:"pcr_ext"`  // < 300
	PTS     uint64  `json:"pts"`      // < 2^33
	DTS     uint64  `json:"dts"`
	Prior   ref.Hex `json:"prior"`    // 16 bytes: prior contents of the target buffer (field + canaries)
	FlipPCR int     `json:"flip_pcr"` // subset of the 6 reserved PCR bits to flip before decoding
	FlipPTS int     `json:"flip_pts"` // subset of the 7 non-value PTS bits (4 prefix + 3 markers)
	FlipDTS int     `json:"flip_dts"` // the same for the DTS field of the PES header
	Raw     ref.Hex `json:"raw"`      // 6 arbitrary bytes for decoder agreement
}

func genC04(t *rapid.T) CaseC04 {
	c := CaseC04{}
	c.Base = genBits(t, 33, "base")
	switch rapid.IntRange(0, 3).Draw(t, "ext-kind") {
	case 0:
		c.Ext = rapid.SampledFrom([]int{0, 1, 255, 256, 257, 299, 298, 128}).Draw(t, "ext-b")
	default:
		c.Ext = rapid.IntRange(0, 299).Draw(t, "ext")
	}
	c.PTS = genBits(t, 33, "pts")
	c.DTS = genBits(t, 33, "dts")
	c.Prior = genBytes(t, 16, 16, "prior")
	c.FlipPCR = rapid.IntRange(0, 63).Draw(t, "flip-pcr")
	c.FlipPTS = rapid.IntRange(0, 127).Draw(t, "flip-pts")
	c.FlipDTS = rapid.IntRange(0, 127).Draw(t, "flip-dts")
	c.Raw = genBytes(t, 6, 6, "raw")
	return c
}

// bit positions (byte index, mask) of the non-value bits
var c04PCRReserved = [][2]int{{4, 0x40}, {4, 0x20}, {4, 0x10}, {4, 0x08}, {4, 0x04}, {4, 0x02}}
var c04PTSNonValue = [][2]int{{0, 0x80}, {0, 0x40}, {0, 0x20}, {0, 0x10}, {0, 0x01}, {2, 0x01}, {4, 0x01}}

func c04PCR(base uint64, ext int, prior []byte, flip int) *hx.Failure {
	v := base*300 + uint64(ext)
	buf := clone(prior)
	gots.InsertPCR(buf[:6], v)
	want := ref.EncodePCR(base, uint16(ext))
	if !bytes.Equal(buf[:6], want[:]) {
		return hx.Failf("pcr-bytes", "InsertPCR(%d = base %d ext %d) wrote %x, ISO layout with reserved bits 1 is %x", v, base, ext, buf[:6], want[:])
	}
	if !bytes.Equal(buf[6:], prior[6:]) {
		return hx.Failf("pcr-overrun", "InsertPCR touched bytes beyond the 6-byte field")
	}
	// a 6-byte slice with capacity 6 must be enough
	exact := make([]byte, 6)
	copy(exact, prior)
	gots.InsertPCR(exact, v)
	if got := gots.ExtractPCR(exact); got != v {
		return hx.Failf("pcr-roundtrip", "ExtractPCR(InsertPCR(%d)) = %d", v, got)
	}
	fl := clone(buf[:6])
	for i, pos := range c04PCRReserved {
		if flip&(1<<uint(i)) != 0 {
			fl[pos[0]] ^= byte(pos[1])
		}
	}
	if got := gots.ExtractPCR(fl); got != v {
		return hx.Failf("pcr-reserved-bits", "ExtractPCR depends on reserved bits: %x -> %d, want %d", fl, got, v)
	}
	return nil
}

func c04PTS(pts uint64, prior []byte, flip int) *hx.Failure {
	buf := clone(prior)
	gots.InsertPTS(buf[:5], pts)
	want := ref.EncodePTS(buf[0]>>4, pts) // the 4-bit prefix is not fixed by the statement
	if !bytes.Equal(buf[:5], want[:]) {
		return hx.Failf("pts-bytes", "InsertPTS(%d) wrote %x, ISO layout with marker bits 1 is %x", pts, buf[:5], want[:])
	}
	if !bytes.Equal(buf[5:], prior[5:]) {
		return hx.Failf("pts-overrun", "InsertPTS touched bytes beyond the 5-byte field")
	}
	exact := make([]byte, 5)
	copy(exact, prior)
	gots.InsertPTS(exact, pts)
	if got := gots.ExtractTime(exact); got != pts {
		return hx.Failf("pts-roundtrip", "gots.ExtractTime(InsertPTS(%d)) = %d", pts, got)
	}
	if got := pes.ExtractTime(exact); got != pts {
		return hx.Failf("pts-roundtrip-pes", "pes.ExtractTime(InsertPTS(%d)) = %d", pts, got)
	}
	fl := clone(buf[:5])
	for i, pos := range c04PTSNonValue {
		if flip&(1<<uint(i)) != 0 {
			fl[pos[0]] ^= byte(pos[1])
		}
	}
	if got := gots.ExtractTime(fl); got != pts {
		return hx.Failf("pts-marker-bits", "gots.ExtractTime depends on prefix/marker bits: %x -> %d, want %d", fl, got, pts)
	}
	if got := pes.ExtractTime(fl); got != pts {
		return hx.Failf("pts-marker-bits-pes", "pes.ExtractTime depends on prefix/marker bits: %x -> %d, want %d", fl, got, pts)
	}
	// the field at the start of a longer slice (a decoder handed the rest of a header): only the 5 bytes count
	long := append(clone(fl), prior[5:]...)
	for _, k := range []int{6, 7, 8, 9, 10, 16} {
		if got := gots.ExtractTime(long[:k]); got != pts {
			return hx.Failf("pts-long-slice", "gots.ExtractTime on a %d-byte slice starting with %x = %d, want %d", k, fl, got, pts)
		}
		if got := pes.ExtractTime(long[:k]); got != pts {
			return hx.Failf("pts-long-slice-pes", "pes.ExtractTime on a %d-byte slice starting with %x = %d, want %d", k, fl, got, pts)
		}
	}
	return nil
}

func c04Decoders(raw []byte) *hx.Failure {
	a, b := gots.ExtractTime(raw[:5]), pes.ExtractTime(raw[:5])
	w := ref.DecodePTS(raw[:5])
	if a != b || a != w {
		return hx.Failf("pts-decoders-disagree", "on %x: gots.ExtractTime=%d pes.ExtractTime=%d reference=%d", raw[:5], a, b, w)
	}
	base, ext := ref.DecodePCR(raw[:6])
	got := gots.ExtractPCR(raw[:6])
	if ext <= 299 && got != base*300+uint64(ext) {
		return hx.Failf("pcr-decode", "ExtractPCR(%x)=%d, reference base*300+ext=%d", raw[:6], got, base*300+uint64(ext))
	}
	// an extension above 299 encodes no PCR value: what a decoder makes of it is not stated (base*300+ext, saturated, ...);
	// it still depends on the value bits only
	flipped := clone(raw[:6])
	flipped[4] ^= 0x7E
	if again := gots.ExtractPCR(flipped); again != got {
		return hx.Failf("pcr-decode-reserved", "ExtractPCR(%x)=%d but %d with the six reserved bits flipped", raw[:6], got, again)
	}
	return nil
}

func c04EndToEnd(c CaseC04) *hx.Failure {
	v := c.Base*300 + uint64(c.Ext)
	v2 := c.DTS*300 + uint64(299-c.Ext) // a second, different clock value for the OPCR
	for _, afLen := range []int{183, 13, 20} {
		m := &ref.Packet{Sync: 0x47, PID: 0x31, AFC: 3, AF: &ref.AF{Len: afLen}}
		if afLen == 183 {
			m.AFC = 2
			m.Payload = ref.Hex{}
		} else {
			m.Payload = bytes.Repeat([]byte{0x77}, 183-afLen)
		}
		p := packet.Packet(m.MustBytes())
		af, _ := p.AdaptationField()
		if err := af.SetHasPCR(true); err != nil {
			return hx.Failf("e2e-af", "SetHasPCR(true) on af_len %d: %v", afLen, err)
		}
		if err := af.SetHasOPCR(true); err != nil {
			return hx.Failf("e2e-af", "SetHasOPCR(true) on af_len %d: %v", afLen, err)
		}
		if err := af.SetPCR(v); err != nil {
			return hx.Failf("e2e-af", "SetPCR: %v", err)
		}
		if err := af.SetOPCR(v2); err != nil {
			return hx.Failf("e2e-af", "SetOPCR: %v", err)
		}
		if got, err := af.PCR(); err != nil || got != v {
			return hx.Failf("e2e-pcr", "PCR() after SetPCR(%d) = (%d, %v) [af_len %d]", v, got, err, afLen)
		}
		if got, err := af.OPCR(); err != nil || got != v2 {
			return hx.Failf("e2e-opcr", "OPCR() after SetOPCR(%d) = (%d, %v) [af_len %d]", v2, got, err, afLen)
		}
		e1 := ref.EncodePCR(c.Base, uint16(c.Ext))
		e2 := ref.EncodePCR(c.DTS, uint16(299-c.Ext))
		if !bytes.Equal(p[6:12], e1[:]) || !bytes.Equal(p[12:18], e2[:]) {
			return hx.Failf("e2e-af-bytes", "adaptation field PCR/OPCR bytes %x %x, ISO layout %x %x", p[6:12], p[12:18], e1[:], e2[:])
		}
	}
	// every presence combination: PCR only, OPCR only, both; next to the other optional fields
	// (in a field of 40 bytes, and in one that the requested fields fill exactly or with one byte to spare)
	for combo := 1; combo <= 3; combo++ {
		for othersAndRoom := 0; othersAndRoom < 12; othersAndRoom++ {
			others, room := othersAndRoom%4, othersAndRoom/4
			afLen := 40
			if room > 0 {
				afLen = 1 + (combo&1)*6 + (combo>>1&1)*6 + (others&1)*1 + (others>>1&1)*4 + room - 1
			}
			m := &ref.Packet{Sync: 0x47, PID: 0x31, AFC: 3, AF: &ref.AF{Len: afLen, RA: others&1 != 0}, Payload: bytes.Repeat([]byte{0x55}, 183-afLen)}
			p := packet.Packet(m.MustBytes())
			af, _ := p.AdaptationField()
			if others&1 != 0 {
				af.SetHasSplicingPoint(true)
				af.SetSpliceCountdown(0x7A)
			}
			if others&2 != 0 {
				af.SetHasTransportPrivateData(true)
				af.SetTransportPrivateData([]byte{0xA9, 0x01, 0x02})
			}
			if combo&2 != 0 {
				if err := af.SetHasOPCR(true); err != nil {
					return hx.Failf("e2e-af", "SetHasOPCR(true): %v", err)
				}
				if err := af.SetOPCR(v2); err != nil {
					return hx.Failf("e2e-af", "SetOPCR: %v", err)
				}
			}
			if combo&1 != 0 {
				if err := af.SetHasPCR(true); err != nil {
					return hx.Failf("e2e-af", "SetHasPCR(true): %v", err)
				}
				if err := af.SetPCR(v); err != nil {
					return hx.Failf("e2e-af", "SetPCR: %v", err)
				}
			}
			what := fmt.Sprintf("PCR present %v, OPCR present %v, splice %v, private data %v, adaptation_field_length %d", combo&1 != 0, combo&2 != 0, others&1 != 0, others&2 != 0, afLen)
			if combo&1 != 0 {
				if got, err := af.PCR(); err != nil || got != v {
					return hx.Failf("e2e-pcr", "PCR() after SetPCR(%d) = (%d, %v) [%s]", v, got, err, what)
				}
				if fb, err := adaptationfield.PCR(&p); err != nil || gots.ExtractPCR(fb) != v {
					return hx.Failf("e2e-pcr-func", "adaptationfield.PCR after SetPCR(%d) = (%x, %v) [%s]", v, fb, err, what)
				}
			}
			if combo&2 != 0 {
				if got, err := af.OPCR(); err != nil || got != v2 {
					return hx.Failf("e2e-opcr", "OPCR() after SetOPCR(%d) = (%d, %v) [%s]", v2, got, err, what)
				}
				if fb, err := adaptationfield.OPCR(&p); err != nil || gots.ExtractPCR(fb) != v2 {
					return hx.Failf("e2e-opcr-func", "adaptationfield.OPCR after SetOPCR(%d) = (%x, %v) [%s]", v2, fb, err, what)
				}
			}
		}
	}
	// PTS/DTS through a PES header
	for _, mode := range []int{2, 3} {
		h := &ref.PES{Prefix: ref.Hex{0, 0, 1}, StreamID: 0xE0, PTSDTS: mode, PTS: c.PTS, DTS: c.DTS, Stuffing: c.FlipDTS % 9, Data: ref.Hex{1, 2, 3}}
		hb := h.Bytes()
		// prefix code and marker bits of the two time fields are not value bits
		for i, pos := range c04PTSNonValue {
			if c.FlipPTS&(1<<uint(i)) != 0 {
				hb[9+pos[0]] ^= byte(pos[1])
			}
			if mode == 3 && c.FlipDTS&(1<<uint(i)) != 0 {
				hb[14+pos[0]] ^= byte(pos[1])
			}
		}
		ph, err := pes.NewPESHeader(hb)
		if err != nil {
			if c.FlipPTS != 0 || (mode == 3 && c.FlipDTS != 0) {
				continue // a parser may insist on the prefix code / marker bits of a header; if it decodes, the value bits decide
			}
			return hx.Failf("e2e-pes", "NewPESHeader failed on a well-formed header: %v", err)
		}
		if !ph.HasPTS() || ph.PTS() != c.PTS {
			return hx.Failf("e2e-pes-pts", "PES PTS = %d (HasPTS=%v), want %d (time field bytes %x)", ph.PTS(), ph.HasPTS(), c.PTS, hb[9:14])
		}
		if mode == 3 && (!ph.HasDTS() || ph.DTS() != c.DTS) {
			return hx.Failf("e2e-pes-dts", "PES DTS = %d (HasDTS=%v), want %d (time field bytes %x)", ph.DTS(), ph.HasDTS(), c.DTS, hb[14:19])
		}
	}
	// a header cut short by the packet payload (it continues in the next packet): a time field whose five bytes are there is read
	{
		h := &ref.PES{Prefix: ref.Hex{0, 0, 1}, StreamID: 0xC0, PTSDTS: 3, PTS: c.PTS, DTS: c.DTS, Stuffing: 1 + c.FlipPTS%12, Data: ref.Hex{9}}
		hb := h.Bytes()
		for k := 14; k <= len(hb); k++ {
			ph, err := pes.NewPESHeader(hb[:k])
			if err != nil {
				continue // refusing an incomplete header is fine; reporting a wrong time for it is not
			}
			if ph.HasPTS() && ph.PTS() != c.PTS {
				return hx.Failf("e2e-pes-cut-pts", "first %d of %d header bytes: HasPTS is true but PTS() = %d, the field (complete in these bytes) carries %d", k, len(hb)-1, ph.PTS(), c.PTS)
			}
			if k >= 19 && ph.HasDTS() && ph.DTS() != c.DTS {
				return hx.Failf("e2e-pes-cut-dts", "first %d of %d header bytes: HasDTS is true but DTS() = %d, the field (complete in these bytes) carries %d", k, len(hb)-1, ph.DTS(), c.DTS)
			}
		}
	}
	// WithPES helper writes the PTS into a packet; the PES decoder must read it back
	// (at a unit start, on packets created with every combination of the flag options in front of it)
	for i, opts := range [][]func(*packet.Packet){{packet.WithPUSI}, {packet.WithPUSI, packet.WithHasAdaptationFieldFlag}, {packet.WithHasPayloadFlag, packet.WithPUSI},
		{packet.WithHasAdaptationFieldFlag, packet.WithPUSI, packet.WithHasPayloadFlag}, {packet.WithHasAdaptationFieldFlag, packet.WithContinuousAF, packet.WithPUSI}} {
		q := packet.Create(0x31, opts...)
		packet.WithPES(q, c.PTS)
		pb, err := packet.PESHeader(q)
		if err != nil {
			return hx.Failf("e2e-withpes", "option set %d: the packet WithPES produced at a unit start yields no PES header: %v (packet starts %x)", i, err, q[:24])
		}
		// (the helper's header has its own idea of the marker bits: a parser that checks them may refuse it - only a wrong time is a violation)
		if ph, err := pes.NewPESHeader(pb); err == nil && (!ph.HasPTS() || ph.PTS() != c.PTS) {
			return hx.Failf("e2e-withpes", "option set %d: PTS written by WithPES reads back as %v, want %d", i, ph, c.PTS)
		}
	}
	return nil
}

func checkC04(c CaseC04, x *hx.Ctx) *hx.Failure {
	if len(c.Prior) != 16 || len(c.Raw) != 6 || c.Ext < 0 || c.Ext > 299 {
		return hx.Failf("bad-case", "malformed case")
	}
	x.NT(c.Base>>32 != 0 || c.PTS>>32 != 0 || c.DTS>>32 != 0 || c.PTS&0xC000 != 0 || c.Ext&0x100 != 0)
	x.LabelIf(c.Base>>32 != 0, "pcr-base-bit32")
	x.LabelIf(c.Ext&0x100 != 0, "pcr-ext-bit8")
	x.LabelIf(c.PTS>>32 != 0, "pts-bit32")
	x.LabelIf(c.FlipPCR != 0 || c.FlipPTS != 0, "non-value-bits-flipped")
	if f := c04PCR(c.Base, c.Ext, c.Prior, c.FlipPCR); f != nil {
		return f
	}
	if f := c04PTS(c.PTS, c.Prior, c.FlipPTS); f != nil {
		return f
	}
	if f := c04PTS(c.DTS, c.Prior, c.FlipPTS); f != nil {
		return f
	}
	if f := c04Decoders(c.Raw); f != nil {
		return f
	}
	return c04EndToEnd(c)
}

var propC04 = hx.Register(hx.Prop[CaseC04]{ID: "C04", Gen: genC04, Check: checkC04})

func c04Rule() {
	hx.Rec("C04").SetRule("cases: PCR base (33 bit) and extension (<300), PTS and DTS (33 bit) from the boundary-bit set (0, max, every single bit, 2^k-1, top bit set, max-d) or uniform; 16 bytes of prior buffer contents (field + canaries); a subset of the 6 reserved PCR bits and of the 7 non-value PTS bits to flip before decoding; 6 arbitrary bytes for decoder agreement; the PTS decoders are also handed 6..16-byte slices starting with the field; the prefix code and marker bits of the PTS and DTS fields inside the PES header are flipped as well. Oracle: explicit ISO bit-position tables (ref.EncodePCR/EncodePTS), round trip, canaries untouched, decoding invariant under non-value bit flips, both PTS decoders and the reference agree, end to end through AdaptationField.SetPCR/PCR, SetOPCR/OPCR and a PES header built by the reference model. Enumerated: all 300 extensions x all single-bit bases; all single- and double-bit PTS values x all 128 non-value bit subsets. Non-trivial: a value with bit 32 set, PTS bits 15/14 set, or PCR extension bit 8 set.",
		"the 4-bit prefix written by InsertPTS is not asserted (the statement does not fix it)")
}

func TestC04(t *testing.T) {
	c04Rule()
	replayRegress(t, "C04")
	propC04.Run(t)
}

func TestC04Exhaustive(t *testing.T) {
	c04Rule()
	if !hx.FirstShard() {
		t.Skip("enumeration runs on shard 0")
	}
	prior := bytes.Repeat([]byte{0xA5, 0x00, 0xFF, 0x5A}, 4)
	var n int64
	bases := []uint64{0, 1<<33 - 1}
	for k := uint(0); k < 33; k++ {
		bases = append(bases, 1<<k)
	}
	for _, base := range bases {
		for ext := 0; ext < 300; ext++ {
			if f := c04PCR(base, ext, prior, ext%64); f != nil {
				propC04.Eval(CaseC04{Base: base, Ext: ext, Prior: prior, FlipPCR: ext % 64, Raw: make([]byte, 6)})
				t.Fatalf("VIOLATION-CANDIDATE property=C04 key=%s: %s", f.Key, f.Msg)
			}
			n++
		}
	}
	for i := uint(0); i < 33; i++ {
		for j := i; j < 33; j++ {
			pts := uint64(1)<<i | uint64(1)<<j
			for flip := 0; flip < 128; flip++ {
				if f := c04PTS(pts, prior, flip); f != nil {
					propC04.Eval(CaseC04{PTS: pts, Prior: prior, FlipPTS: flip, Raw: make([]byte, 6)})
					t.Fatalf("VIOLATION-CANDIDATE property=C04 key=%s: %s", f.Key, f.Msg)
				}
				n++
			}
		}
	}
	hx.Rec("C04").Bulk(n, n)
	hx.Rec("C04").Subspace("PCR: {0, 2^33-1, every single-bit base} x all 300 extensions; PTS: all single- and double-bit values x all 128 subsets of the non-value bits")
}

func FuzzC04(f *testing.F) {
	c04Rule()
	f.Fuzz(propC04.Fuzz())
}

// C04 variant "concurrent": the codecs are pure functions of their arguments, so several goroutines
// encoding and decoding DIFFERENT values in their own buffers at the same time must each get their own
// answers. The values are a fixed function of (goroutine, iteration); only the interleaving varies between
// runs, and a mismatch can only come from state shared between calls (never from the schedule itself).
type CaseConc struct {
	Workers int `json:"workers"`
	Iters   int `json:"iterations"`
}

func checkC04Conc(c CaseConc, x *hx.Ctx) *hx.Failure {
	x.NonTrivial()
	x.Label("concurrent-goroutines")
	errs := make(chan string, c.Workers)
	var wg sync.WaitGroup
	for w := 0; w < c.Workers; w++ {
		wg.Add(1)
		go func(w int) {
			defer wg.Done()
			defer func() {
				if r := recover(); r != nil {
					errs <- fmt.Sprintf("a codec panicked in goroutine %d: %v", w, r)
				}
			}()
			pcr, pts := make([]byte, 6), make([]byte, 5)
			for i := 0; i < c.Iters; i++ {
				v64 := (uint64(w+1)*0x9E3779B97F4A7C15 + uint64(i)*0xD1B54A32D192ED03) >> 7
				base, ext := v64&(1<<33-1), (v64>>40)%300
				v := base*300 + ext
				gots.InsertPCR(pcr, v)
				if got := gots.ExtractPCR(pcr); got != v {
					errs <- fmt.Sprintf("PCR round trip of %d gave %d (goroutine %d, iteration %d)", v, got, w, i)
					return
				}
				p := (v64 >> 3) & (1<<33 - 1)
				gots.InsertPTS(pts, p)
				if got := gots.ExtractTime(pts); got != p {
					errs <- fmt.Sprintf("PTS round trip of %d through gots.ExtractTime gave %d (goroutine %d, iteration %d)", p, got, w, i)
					return
				}
				if got := pes.ExtractTime(pts); got != p {
					errs <- fmt.Sprintf("PTS round trip of %d through pes.ExtractTime gave %d (goroutine %d, iteration %d)", p, got, w, i)
					return
				}
			}
		}(w)
	}
	wg.Wait()
	close(errs)
	for e := range errs {
		return hx.Failf("concurrent-codec", "%s while %d other goroutines were using the codecs on other buffers", e, c.Workers-1)
	}
	return nil
}

var propC04Conc = hx.Register(hx.Prop[CaseConc]{ID: "C04", Variant: "concurrent",
	Gen:   func(t *rapid.T) CaseConc { return CaseConc{Workers: 8, Iters: 20000} },
	Check: checkC04Conc})

func TestC04_Concurrent(t *testing.T) {
	c04Rule()
	if !hx.FirstShard() {
		t.Skip("runs on shard 0")
	}
	for round := 0; round < 3; round++ {
		if f := propC04Conc.Eval(CaseConc{Workers: 8, Iters: 20000 + round}); f != nil {
			t.Fatalf("VIOLATION-CANDIDATE property=C04 variant=concurrent key=%s: %s", f.Key, f.Msg)
		}
	}
	hx.Rec("C04").Subspace("3 rounds of 8 goroutines x 20000 PCR and PTS round trips on goroutine-local buffers, concurrently")
}
