package props

import (
	"bytes"
	"encoding/binary"
	"fmt"
	"sync"
	"testing"

	gots "github.com/Comcast/gots/v2"
	"pgregory.net/rapid"

	"verifharness/hx"
	"verifharness/ref"
)

// C13 — ComputeCRC is CRC-32/MPEG-2 on every input.
// (The "every emitted section has residue zero" clause is asserted inside the
// C09 and C14 oracles, which own the generators for emitted sections, and is
// re-checked here on their shared section generators in c13_sections_test.go.)

type CaseC13 struct {
	Data ref.Hex `json:"data"`
}

func genC13(t *rapid.T) CaseC13 {
	var n int
	switch rapid.IntRange(0, 3).Draw(t, "len-kind") {
	case 0:
		n = rapid.IntRange(0, 64).Draw(t, "len-s")
	case 1:
		n = rapid.SampledFrom([]int{183, 184, 188, 1021, 1024, 3, 4, 5, 8, 16}).Draw(t, "len-b")
	default:
		n = rapid.IntRange(0, 4096).Draw(t, "len")
	}
	d := genBytes(t, n, n, "data")
	if n > 0 && rapid.IntRange(0, 3).Draw(t, "sparse") == 0 {
		// a single set bit somewhere in an all-zero string
		d = make([]byte, n)
		d[rapid.IntRange(0, n-1).Draw(t, "pos")] = 1 << uint(rapid.IntRange(0, 7).Draw(t, "bit"))
	}
	if rapid.IntRange(0, 7).Draw(t, "zero-prefix") == 0 {
		// a string that begins with one or two complete CRC-valid blocks (running checksum 0 at the block end),
		// e.g. a maximum-size section followed by more bytes: the checksum of the whole string is still defined
		var s []byte
		for k := rapid.IntRange(1, 2).Draw(t, "zp-blocks"); k > 0; k-- {
			l := rapid.SampledFrom([]int{4, 8, 188, 1024, 4096, 4096, 8192}).Draw(t, "zp-len")
			blk := genBytes(t, l-4, l-4, "zp-block")
			crc := ref.CRC32MPEG2(blk)
			s = append(append(s, blk...), byte(crc>>24), byte(crc>>16), byte(crc>>8), byte(crc))
		}
		d = append(s, genBytes(t, 0, 300, "zp-tail")...)
	}
	return CaseC13{Data: d}
}

func c13Check(src []byte) *hx.Failure {
	data, spareIntact := withSpare(src)
	keep := clone(data)
	got := gots.ComputeCRC(data)
	if !bytes.Equal(keep, data) || !spareIntact() {
		return hx.Failf("crc-mutates", "ComputeCRC modified its input (or the spare capacity behind it)")
	}
	want := ref.CRC32MPEG2(data)
	if len(got) != 4 || binary.BigEndian.Uint32(got) != want {
		return hx.Failf("crc-value", "ComputeCRC(%d bytes %x...) = %x, CRC-32/MPEG-2 is %08x", len(data), head(data, 12), got, want)
	}
	whole := append(clone(data), got...)
	if r := gots.ComputeCRC(whole); !bytes.Equal(r, []byte{0, 0, 0, 0}) {
		return hx.Failf("crc-residue", "ComputeCRC(s ++ ComputeCRC(s)) = %x, want 00000000 (len %d)", r, len(data))
	}
	if ref.CRC32MPEG2(whole) != 0 {
		return hx.Failf("crc-residue-ref", "reference CRC of s ++ ComputeCRC(s) is %08x, want 0", ref.CRC32MPEG2(whole))
	}
	return nil
}

func head(b []byte, n int) []byte {
	if len(b) > n {
		return b[:n]
	}
	return b
}

func checkC13(c CaseC13, x *hx.Ctx) *hx.Failure {
	x.NT(len(c.Data) >= 1)
	x.LabelIf(len(c.Data) > 188, "longer-than-a-packet")
	x.LabelIf(len(c.Data) <= 4, "length<=4")
	if len(c.Data) <= 64 {
		// the table-driven reference is itself compared with the bitwise definition
		if ref.CRC32MPEG2(c.Data) != ref.CRC32MPEG2Bitwise(c.Data) {
			return hx.Failf("harness-ref-crc", "reference implementations disagree")
		}
	}
	return c13Check(c.Data)
}

var propC13 = hx.Register(hx.Prop[CaseC13]{ID: "C13", Gen: genC13, Check: checkC13})

func c13Rule() {
	hx.Rec("C13").SetRule("cases: byte strings with length from {0..64} u {3,4,5,8,16,183,184,188,1021,1024} u uniform 0..4096, contents random / all-zero / all-0xFF / a single set bit; one case in eight begins with one or two complete CRC-valid blocks of 4..8192 bytes (running checksum zero at the block end) followed by 0..300 more bytes. Oracle: ComputeCRC(s) equals the big-endian CRC-32/MPEG-2 of s computed by an independent reference (table-driven, cross-checked against a bit-by-bit transcription of the definition and the catalogue check value 0x0376E6E7), and ComputeCRC(s++ComputeCRC(s)) is zero. Enumerated: all strings of length 0, 1, 2; all single-bit strings of length 1..L (quick L=96 plus 64 longer lengths up to 1024, thorough L=1024). Emitted sections: encoded splice_info_sections (both construction paths, setter histories, alignment stuffing 0..7) and filtered PMTs (one input in three carries a stale CRC_32 of its own) must have residue 0 under the reference CRC. Non-trivial: length >= 1; distinct by content.",
		"emitted sections are generated with the C09 (API-built / decoded + setter history + alignment stuffing) and C14 (filtered multi-packet PMT) generators; their residue is checked with the reference CRC, for an emitted splice_info_section both over the bytes returned and over the bytes section_length delimits (alignment stuffing 0..7, or what fills the section to 4089..4093)")
}

func TestC13(t *testing.T) {
	c13Rule()
	replayRegress(t, "C13")
	propC13.Run(t)
}

func TestC13Exhaustive(t *testing.T) {
	c13Rule()
	rec := hx.Rec("C13")
	var n int64
	fail := func(d []byte) {
		f := propC13.Eval(CaseC13{Data: clone(d)})
		if f != nil {
			t.Fatalf("VIOLATION-CANDIDATE property=C13 key=%s: %s", f.Key, f.Msg)
		}
		t.Fatalf("HARNESS-ERROR: enumerated failure did not reproduce")
	}
	shard, nsh := hx.ShardIndex(), hx.NShards()
	if shard == 0 {
		if f := c13Check([]byte{}); f != nil {
			fail([]byte{})
		}
		n++
		for a := 0; a < 256; a++ {
			if f := c13Check([]byte{byte(a)}); f != nil {
				fail([]byte{byte(a)})
			}
			n++
			for b := 0; b < 256; b++ {
				if f := c13Check([]byte{byte(a), byte(b)}); f != nil {
					fail([]byte{byte(a), byte(b)})
				}
				n++
			}
		}
		rec.Subspace("all byte strings of length 0, 1 and 2 (65793)")
	}
	var lens []int
	if hx.Thorough() {
		for l := 1; l <= 1024; l++ {
			lens = append(lens, l)
		}
		rec.Subspace("all single-bit strings of length 1..1024 (thorough)")
	} else {
		for l := 1; l <= 96; l++ {
			lens = append(lens, l)
		}
		for l := 97; l <= 1024; l += 15 {
			lens = append(lens, l)
		}
		lens = append(lens, 183, 184, 188, 1021, 1024)
		rec.Subspace("all single-bit strings of length 1..96 and of 67 further lengths up to 1024 (quick)")
	}
	for i, l := range lens {
		if i%nsh != shard {
			continue
		}
		d := make([]byte, l)
		for pos := 0; pos < l; pos++ {
			for bit := 0; bit < 8; bit++ {
				d[pos] = 1 << uint(bit)
				if f := c13Check(d); f != nil {
					fail(d)
				}
				n++
			}
			d[pos] = 0
		}
	}
	rec.Bulk(n, n-1)
}

func FuzzC13(f *testing.F) {
	c13Rule()
	f.Fuzz(propC13.Fuzz())
}

// C13 variant "concurrent": the checksum is a pure function; goroutines checksumming different strings at
// the same time must each get the reference value (see the C04 variant for why this cannot raise a false alarm).
func checkC13Conc(c CaseConc, x *hx.Ctx) *hx.Failure {
	x.NonTrivial()
	x.Label("concurrent-goroutines")
	errs := make(chan string, c.Workers)
	var wg sync.WaitGroup
	for w := 0; w < c.Workers; w++ {
		wg.Add(1)
		go func(w int) {
			defer wg.Done()
			defer func() {
				if r := recover(); r != nil {
					errs <- fmt.Sprintf("ComputeCRC panicked in goroutine %d: %v", w, r)
				}
			}()
			buf := make([]byte, 300)
			for i := 0; i < c.Iters; i++ {
				n := (w*37 + i*11) % 300
				for j := 0; j < n; j++ {
					buf[j] = byte(w*131 + i*17 + j*7)
				}
				got := gots.ComputeCRC(buf[:n])
				if want := ref.CRC32MPEG2(buf[:n]); len(got) != 4 || binary.BigEndian.Uint32(got) != want {
					errs <- fmt.Sprintf("ComputeCRC of a %d-byte string gave %x, CRC-32/MPEG-2 is %08x (goroutine %d, iteration %d)", n, got, want, w, i)
					return
				}
			}
		}(w)
	}
	wg.Wait()
	close(errs)
	for e := range errs {
		return hx.Failf("concurrent-crc", "%s while %d other goroutines were checksumming other strings", e, c.Workers-1)
	}
	return nil
}

var propC13Conc = hx.Register(hx.Prop[CaseConc]{ID: "C13", Variant: "concurrent",
	Gen:   func(t *rapid.T) CaseConc { return CaseConc{Workers: 8, Iters: 4000} },
	Check: checkC13Conc})

func TestC13_Concurrent(t *testing.T) {
	c13Rule()
	if !hx.FirstShard() {
		t.Skip("runs on shard 0")
	}
	for round := 0; round < 3; round++ {
		if f := propC13Conc.Eval(CaseConc{Workers: 8, Iters: 4000 + round}); f != nil {
			t.Fatalf("VIOLATION-CANDIDATE property=C13 variant=concurrent key=%s: %s", f.Key, f.Msg)
		}
	}
	hx.Rec("C13").Subspace("3 rounds of 8 goroutines x 4000 checksums of goroutine-local strings of 0..299 bytes, concurrently")
}
