package props

import (
	"bytes"
	"fmt"
	"testing"

	"github.com/Comcast/gots/v2/packet"
	"pgregory.net/rapid"

	"verifharness/hx"
	"verifharness/ref"
)

// C02 — header/payload partition, SetPayload, creation helpers.

type CaseC02 struct {
	Pkt  ref.Hex `json:"pkt"`  // a well-formed packet (188 bytes)
	Data ref.Hex `json:"data"` // payload to set, 0..200 bytes
	// creation helper arguments
	PID  int     `json:"pid"`
	CC   int     `json:"cc"`
	PUSI bool    `json:"pusi"`
	Pay  bool    `json:"has_pay"`
	HPay ref.Hex `json:"helper_payload"`
	PTS  uint64  `json:"pts"`
	// Create is called twice with windows of one option slice {payload flag, PUSI, AF flag}: first [:OptWin], then all of it
	OptWin int `json:"opt_window"`
}

func genC02(t *rapid.T) CaseC02 {
	p := genWellFormedPacket(t, []int{1, 2, 3, 3, 3}, 0)
	b := p.MustBytes()
	c := CaseC02{Pkt: clone(b[:])}
	capacity := 184
	if p.AF != nil {
		capacity = 183 - p.AF.Content()
	}
	var n int
	switch rapid.IntRange(0, 7).Draw(t, "n-kind") {
	case 0:
		n = capacity
	case 1:
		n = capacity + 1
	case 2:
		if capacity > 0 {
			n = capacity - 1
		}
	case 3:
		n = rapid.SampledFrom([]int{0, 1, 182, 183, 184, 185, 200}).Draw(t, "n-b")
	default:
		n = rapid.IntRange(0, 200).Draw(t, "n")
	}
	c.Data = genPayloadBytes(t, n, "data")
	if n > 0 && rapid.IntRange(0, 2).Draw(t, "first-byte-bias") == 0 {
		c.Data[0] = rapid.SampledFrom([]byte{0x10, 0x02, 0xFF, 0x1F, 0x01, 0x08}).Draw(t, "first-byte")
	}
	c.PID = int(genBits(t, 13, "hpid"))
	c.CC = rapid.IntRange(0, 15).Draw(t, "hcc")
	c.PUSI = rapid.Bool().Draw(t, "hpusi")
	c.Pay = rapid.Bool().Draw(t, "hpay")
	c.HPay = genPayloadBytes(t, rapid.IntRange(0, 200).Draw(t, "hpayload-n"), "hpayload")
	c.OptWin = rapid.IntRange(0, 2).Draw(t, "opt-window")
	c.PTS = genBits(t, 33, "hpts")
	return c
}

func c02Partition(b [188]byte, m *ref.Packet) *hx.Failure {
	p := packet.Packet(b)
	hl := m.HeaderLen()
	if got := packet.Header(&p); !bytes.Equal(got, b[:hl]) {
		return hx.Failf("header", "Header() returned %d bytes, want the leading %d (afc=%d af_len=%v)", len(got), hl, m.AFC, afLen(m))
	}
	if p != packet.Packet(b) {
		return hx.Failf("partition-mutates", "Header() modified the packet")
	}
	fp, ferr := packet.Payload(&p)
	mp, merr := p.Payload()
	if p != packet.Packet(b) {
		return hx.Failf("partition-mutates", "Payload() modified the packet")
	}
	if m.AFC&1 == 0 {
		if ferr == nil || merr == nil || len(fp) != 0 || len(mp) != 0 {
			return hx.Failf("payload-no-flag", "packet without the payload flag: func (%d bytes, err=%v) method (%d bytes, err=%v), want errors", len(fp), ferr, len(mp), merr)
		}
		return nil
	}
	if ferr != nil || merr != nil {
		return hx.Failf("payload-error", "payload accessors failed on a well-formed packet: func err=%v method err=%v (afc=%d af_len=%v)", ferr, merr, m.AFC, afLen(m))
	}
	if !bytes.Equal(fp, b[hl:]) {
		return hx.Failf("payload-func", "packet.Payload returned %d bytes, want the trailing %d", len(fp), 188-hl)
	}
	if !bytes.Equal(mp, b[hl:]) {
		return hx.Failf("payload-method", "(*Packet).Payload returned %d bytes, want the trailing %d", len(mp), 188-hl)
	}
	if len(mp) > 0 {
		// independence of the method's copy, both directions
		mp[0] ^= 0xFF
		if p != packet.Packet(b) {
			return hx.Failf("payload-method-alias", "writing to the slice returned by (*Packet).Payload changed the packet")
		}
		mp[0] ^= 0xFF
		p[hl] ^= 0xFF
		if !bytes.Equal(mp, b[hl:]) {
			return hx.Failf("payload-method-alias", "writing to the packet changed the slice returned earlier by (*Packet).Payload")
		}
	}
	return nil
}

func afLen(m *ref.Packet) interface{} {
	if m.AF == nil {
		return "none"
	}
	return m.AF.Len
}

func c02SetPayload(b [188]byte, m *ref.Packet, data []byte) *hx.Failure {
	return c02SetPayloadFrom(b, m, data, nil)
}

// c02SetPayloadFrom is the SetPayload oracle. When window is not nil the argument handed to SetPayload is
// that window of the packet's OWN payload as the function-style accessor returns it (a sub-slice of the
// packet): the bytes to store are the ones the window held when the call was made.
// window[2] selects where the window comes from and how it is sliced: 0 the packet's payload as packet.Payload
// returns it, 1 the same with the capacity clipped to the window (own[lo:hi:hi]), 2 the packet array itself
// (header and adaptation field included, e.g. p[:] or packet.Header(p)), 3 that with clipped capacity, 4 a larger
// buffer that holds the packet (window offsets relative to that buffer, the packet at [188,376)).
func c02SetPayloadFrom(b [188]byte, m *ref.Packet, data []byte, window *[3]int) *hx.Failure {
	if len(data) == 0 && data != nil && window == nil {
		// zero bytes can be handed over as an empty slice or as nil: the same request
		if f := c02SetPayload(b, m, nil); f != nil {
			f.Msg += " [data = nil]"
			return f
		}
	}
	p := packet.Packet(b)
	arg := data
	pp := &p
	var big, bigKeep []byte
	if window != nil && window[2] == 4 {
		// the packet is a view into a larger buffer (the middle one of three packets read in one go) and the data is a
		// piece of that buffer which overlaps the packet: a slice with more capacity than a packet has
		big = make([]byte, 3*188)
		for i := range big {
			big[i] = byte(i*7 + 3)
		}
		copy(big[188:], b[:])
		bigKeep = clone(big)
		pp = (*packet.Packet)(big[188:376])
		if window[0] < 0 || window[1] > len(big) || window[0] > window[1] {
			return hx.Failf("bad-case", "window outside its source")
		}
		arg = big[window[0]:window[1]]
		data = clone(arg)
	} else if window != nil {
		own, err := packet.Payload(&p)
		if window[2] >= 2 {
			own, err = p[:], nil
		}
		if err != nil || window[1] > len(own) {
			return hx.Failf("bad-case", "window outside its source")
		}
		arg = own[window[0]:window[1]]
		if window[2]%2 == 1 {
			arg = own[window[0]:window[1]:window[1]]
		}
		data = clone(arg)
	}
	keep := clone(data)
	n, err := pp.SetPayload(arg)
	if big != nil {
		p = *pp
		if !bytes.Equal(big[:188], bigKeep[:188]) || !bytes.Equal(big[376:], bigKeep[376:]) {
			return hx.Failf("setpayload-mutates-arg", "SetPayload modified the caller's buffer outside the packet")
		}
	}
	if window == nil && !bytes.Equal(keep, data) {
		return hx.Failf("setpayload-mutates-arg", "SetPayload modified the caller's data")
	}
	if m.AFC == 2 {
		if err == nil {
			return hx.Failf("setpayload-afonly", "SetPayload on an adaptation-field-only packet returned no error (n=%d)", n)
		}
		if p != packet.Packet(b) {
			return hx.Failf("setpayload-afonly", "SetPayload on an adaptation-field-only packet changed the packet")
		}
		return nil
	}
	capacity := 184
	if m.AF != nil {
		capacity = 183 - m.AF.Content()
	}
	want := len(data)
	if want > capacity {
		want = capacity
	}
	ctx := fmt.Sprintf("afc=%d af_len=%v content=%d capacity=%d n=%d", m.AFC, afLen(m), contentOf(m), capacity, len(data))
	if window != nil {
		ctx += fmt.Sprintf(", data = bytes [%d,%d) of %s", window[0], window[1], []string{"the packet's own payload as returned by packet.Payload", "the packet's own payload, capacity clipped to the window", "the packet's own 188 bytes", "the packet's own 188 bytes, capacity clipped to the window", "a 564-byte buffer in which the packet occupies bytes [188,376)"}[window[2]])
	}
	// a count below len(data) may come with an error value in the manner of io.Writer (the statement speaks of an error only
	// for the refused call): then count, bytes and read-back are still checked; a call that stores everything must not fail
	if err != nil && len(data) <= capacity {
		return hx.Failf("setpayload-error", "SetPayload failed on a packet that carries payload: %v (%s)", err, ctx)
	}
	if n != want {
		return hx.Failf("setpayload-count", "SetPayload reported %d, want min(n, capacity) = %d (%s)", n, want, ctx)
	}
	// expected packet: same header fields, same AF logical content, af_len' = 183 - stored
	e := m.Clone()
	e.Payload = append(ref.Hex{}, data[:want]...)
	if m.AF == nil && want == 184 {
		e.AFC = 1
	} else {
		e.AFC = 3
		if e.AF == nil {
			e.AF = &ref.AF{}
		}
		if m.AF == nil || m.AF.Len == 0 {
			e.AF = &ref.AF{} // a field that comes into existence has no flags set
		}
		e.AF.Len = 183 - want
	}
	eb, berr := e.Bytes()
	if berr != nil {
		return hx.Failf("harness-model", "expected packet not encodable: %v (%s)", berr, ctx)
	}
	got := [188]byte(p)
	if got != eb {
		i := 0
		for got[i] == eb[i] {
			i++
		}
		g, ok := ref.ParsePacket(got)
		key := "setpayload-bytes"
		if !ok {
			key = "setpayload-malformed"
		} else if !bytes.Equal(g.Payload, e.Payload) {
			key = "setpayload-readback"
		}
		return hx.Failf(key, "after SetPayload the packet differs from the expected encoding at byte %d: got %02x want %02x; well-formed=%v (%s)\n got  %x\n want %x", i, got[i], eb[i], ok, ctx, got[:], eb[:])
	}
	// read back through both accessors
	fp, ferr := packet.Payload(&p)
	mp, merr := p.Payload()
	if ferr != nil || merr != nil || !bytes.Equal(fp, data[:want]) || !bytes.Equal(mp, data[:want]) {
		return hx.Failf("setpayload-readback", "payload read back differs from the bytes stored (%s)", ctx)
	}
	return nil
}

func contentOf(m *ref.Packet) int {
	if m.AF == nil {
		return 0
	}
	return m.AF.Content()
}

func c02Helpers(c CaseC02) *hx.Failure {
	pid, cc := c.PID, uint8(c.CC)
	hdr := func(name string, p *packet.Packet, wantPay, checkPay bool) *hx.Failure {
		if p == nil {
			return hx.Failf("create-"+name, "%s returned nil", name)
		}
		if p[0] != 0x47 {
			return hx.Failf("create-"+name, "%s: sync byte %02x", name, p[0])
		}
		if got := int(p[1]&0x1f)<<8 | int(p[2]); got != pid {
			return hx.Failf("create-"+name, "%s: PID %d want %d", name, got, pid)
		}
		if checkPay && (p[3]&0x10 != 0) != wantPay {
			return hx.Failf("create-"+name, "%s: payload flag %v want %v", name, p[3]&0x10 != 0, wantPay)
		}
		return nil
	}
	p := packet.Create(pid)
	// no flag requested: adaptation_field_control 00 is the reserved value, a helper may default to payload-only instead
	if f := hdr("Create", p, false, false); f != nil {
		return f
	}
	if p[3]&0x20 != 0 || p[1]&0x40 != 0 {
		return hx.Failf("create-Create", "Create without options: header %x has flags nobody requested", p[:4])
	}
	p = packet.Create(pid, packet.WithHasPayloadFlag, packet.WithPUSI)
	if f := hdr("Create+options", p, true, true); f != nil {
		return f
	}
	if p[1]&0x40 == 0 {
		return hx.Failf("create-Create+options", "WithPUSI did not set the payload unit start indicator")
	}
	p = packet.Create(pid, packet.WithHasAdaptationFieldFlag)
	if f := hdr("Create+AF", p, false, true); f != nil {
		return f
	}
	if p[3]&0x20 == 0 {
		return hx.Failf("create-Create+AF", "WithHasAdaptationFieldFlag did not set the flag")
	}
	// an option that itself uses the creation helpers (it builds a template packet), followed by further options
	var inner [3]*packet.Packet
	nested := func(q *packet.Packet) {
		inner[0] = packet.Create(pid^1, packet.WithHasAdaptationFieldFlag)
		inner[1] = packet.CreateTestPacket(pid^2, cc, true, true)
		inner[2] = packet.CreatePacketWithPayload(pid^3, cc, []byte{1, 2, 3})
	}
	p = packet.Create(pid, packet.WithHasPayloadFlag, nested, packet.WithPUSI)
	if f := hdr("Create+nested", p, true, true); f != nil {
		return f
	}
	if p[1]&0x40 == 0 || p[3]&0x20 != 0 {
		return hx.Failf("create-Create+nested", "Create(payload flag, <option that creates other packets>, PUSI): header %x, want payload flag and PUSI and nothing else", p[:4])
	}
	for i, q := range inner {
		if q == nil || q[0] != 0x47 || int(q[1]&0x1f)<<8|int(q[2]) != pid^(i+1) {
			return hx.Failf("create-Create+nested", "packet %d created inside an option is wrong: %x", i, q[:4])
		}
	}
	// adaptation-field flag options (they write the flags byte behind the adaptation_field_length byte)
	p = packet.Create(pid, packet.WithHasAdaptationFieldFlag, packet.WithAFPrivateDataFlag)
	if f := hdr("Create+AF+private", p, false, true); f != nil {
		return f
	}
	if p[3]&0x20 == 0 || p[5]&0x02 == 0 {
		return hx.Failf("create-Create+AF+private", "WithAFPrivateDataFlag did not set transport_private_data_flag: header %x flags %02x", p[:4], p[5])
	}
	p = packet.Create(pid, packet.WithHasAdaptationFieldFlag, packet.WithDiscontinuousAF)
	if f := hdr("Create+AF+discontinuity", p, false, true); f != nil {
		return f
	}
	if p[3]&0x20 == 0 || p[5]&0x80 == 0 {
		return hx.Failf("create-Create+AF+discontinuity", "WithDiscontinuousAF did not set discontinuity_indicator: header %x flags %02x", p[:4], p[5])
	}
	// a caller-owned option slice used twice, first a window of it: the options requested by the second call must all be honoured
	opts := []func(*packet.Packet){packet.WithHasPayloadFlag, packet.WithPUSI, packet.WithHasAdaptationFieldFlag}
	if c.OptWin >= 0 && c.OptWin < len(opts) {
		p = packet.Create(pid, opts[:c.OptWin]...)
		if f := hdr("Create+window", p, c.OptWin >= 1, c.OptWin >= 1); f != nil {
			return f
		}
		if (p[1]&0x40 != 0) != (c.OptWin >= 2) || p[3]&0x20 != 0 {
			return hx.Failf("create-Create+window", "Create with the first %d of {payload flag, PUSI, AF flag}: header %x", c.OptWin, p[:4])
		}
		p = packet.Create(pid, opts...)
		if f := hdr("Create+options-again", p, true, true); f != nil {
			return f
		}
		if p[1]&0x40 == 0 || p[3]&0x20 == 0 {
			return hx.Failf("create-Create+options-again", "Create with {payload flag, PUSI, AF flag} after a call that was given the first %d of the same slice: header %x lacks a requested flag", c.OptWin, p[:4])
		}
	}
	p = packet.CreateTestPacket(pid, cc, c.PUSI, c.Pay)
	if f := hdr("CreateTestPacket", p, c.Pay, true); f != nil {
		return f
	}
	if int(p[3]&0xf) != c.CC {
		return hx.Failf("create-CreateTestPacket", "counter %d want %d", p[3]&0xf, c.CC)
	}
	if c.Pay && (p[1]&0x40 != 0) != c.PUSI {
		return hx.Failf("create-CreateTestPacket", "PUSI %v want %v", p[1]&0x40 != 0, c.PUSI)
	}
	p = packet.CreateDCPacket(pid, cc)
	if f := hdr("CreateDCPacket", p, true, false); f != nil { // only PID and counter are requested
		return f
	}
	if int(p[3]&0xf) != c.CC {
		return hx.Failf("create-CreateDCPacket", "counter %d want %d", p[3]&0xf, c.CC)
	}
	// a payload that a packet can hold (what a helper does with more than 184 bytes - truncate, refuse - is not stated)
	hpay := c.HPay
	if len(hpay) > 184 {
		hpay = hpay[:184]
	}
	keep := clone(hpay)
	p = packet.CreatePacketWithPayload(pid, cc, hpay)
	if f := hdr("CreatePacketWithPayload", p, true, true); f != nil {
		return f
	}
	if int(p[3]&0xf) != c.CC {
		return hx.Failf("create-CreatePacketWithPayload", "counter %d want %d", p[3]&0xf, c.CC)
	}
	if !bytes.Equal(keep, hpay) {
		return hx.Failf("create-CreatePacketWithPayload", "helper modified the caller's payload")
	}
	pay, err := packet.Payload(p)
	k := len(keep)
	if k > 184 {
		k = 184
	}
	if err != nil || len(pay) < k || !bytes.Equal(pay[:k], keep[:k]) {
		return hx.Failf("create-CreatePacketWithPayload", "payload does not start with the %d requested bytes (err=%v, %d payload bytes)", k, err, len(pay))
	}
	// free SetPayload on a payload-only packet
	q := packet.Create(pid, packet.WithHasPayloadFlag)
	n := packet.SetPayload(q, hpay)
	qp, qerr := packet.Payload(q)
	if n != k || qerr != nil || len(qp) < k || !bytes.Equal(qp[:k], keep[:k]) {
		return hx.Failf("create-SetPayload", "free SetPayload reported %d bytes (want %d); the payload read back (%d bytes, err %v) does not start with them", n, k, len(qp), qerr)
	}
	// WithPES
	for i, opts := range [][]func(*packet.Packet){{}, {packet.WithHasAdaptationFieldFlag}, {packet.WithHasPayloadFlag}, {packet.WithHasAdaptationFieldFlag, packet.WithHasPayloadFlag}, {packet.WithPUSI, packet.WithHasAdaptationFieldFlag}} {
		q = packet.Create(pid, opts...)
		packet.WithPES(q, c.PTS)
		if f := hdr("WithPES", q, true, true); f != nil {
			return f
		}
		pay, err = packet.Payload(q)
		if err != nil || len(pay) < 14 || pay[0] != 0 || pay[1] != 0 || pay[2] != 1 || pay[7]&0xC0 != 0x80 || ref.DecodePTS(pay[9:14]) != c.PTS {
			return hx.Failf("create-WithPES", "WithPES (after option set %d) payload is not a PES start carrying PTS %d (err=%v)", i, c.PTS, err)
		}
	}
	return nil
}

func checkC02(c CaseC02, x *hx.Ctx) *hx.Failure {
	if len(c.Pkt) != 188 {
		return hx.Failf("bad-case", "packet must be 188 bytes")
	}
	var b [188]byte
	copy(b[:], c.Pkt)
	m, ok := ref.ParsePacket(b)
	if !ok {
		return hx.Failf("bad-case", "case packet is not well-formed")
	}
	n := len(c.Data)
	capacity := 184
	if m.AF != nil {
		capacity = 183 - m.AF.Content()
	}
	fields := m.AF != nil && m.AF.Content() > 1
	x.NT(m.AFC != 2 && ((fields && n != len(m.Payload)) || (m.AF != nil && m.AF.Len == 0) || n > capacity))
	x.LabelIf(m.AFC == 1, "afc=payload-only")
	x.LabelIf(m.AFC == 2, "afc=af-only")
	x.LabelIf(m.AFC == 3, "afc=both")
	x.LabelIf(m.AF != nil && m.AF.Len == 0, "af_len=0")
	x.LabelIf(fields, "af-has-optional-fields")
	x.LabelIf(n > capacity, "n>capacity")
	x.LabelIf(n == capacity, "n==capacity")
	x.LabelIf(n == 0, "n==0")
	if f := c02Partition(b, m); f != nil {
		return f
	}
	if f := c02SetPayload(b, m, c.Data); f != nil {
		return f
	}
	// the packet's own payload (or a window of it) handed back
	if m.AFC&1 != 0 && len(m.Payload) > 0 {
		k := len(c.Data)
		if k > len(m.Payload) {
			k = len(m.Payload)
		}
		off := 0
		if len(m.Payload) > k {
			off = (c.CC*7 + c.PID) % (len(m.Payload) - k + 1)
		}
		x.Label("own-payload-handed-back")
		if f := c02SetPayloadFrom(b, m, nil, &[3]int{off, off + k, c.CC % 2}); f != nil {
			f.Key += "-own-window"
			return f
		}
	}
	// a window of the packet's own bytes, header included
	if m.AFC&1 != 0 {
		k := len(c.Data)
		if k > 188 {
			k = 188
		}
		off := (c.CC*11 + c.PID) % (188 - k + 1)
		if c.PID%3 == 0 {
			off = 0 // windows that start with the header (p[:n], packet.Header(p))
		}
		if f := c02SetPayloadFrom(b, m, nil, &[3]int{off, off + k, 2 + c.PID%2}); f != nil {
			f.Key += "-own-window"
			return f
		}
	}
	// the packet as a view into a larger buffer, the data a piece of that buffer overlapping it
	if m.AFC&1 != 0 {
		lo := 100 + (c.CC*13+c.PID)%276
		hi := lo + len(c.Data)
		if hi > 3*188 {
			hi = 3 * 188
		}
		x.Label("packet-and-data-views-of-one-larger-buffer")
		if f := c02SetPayloadFrom(b, m, nil, &[3]int{lo, hi, 4}); f != nil {
			f.Key += "-own-window"
			return f
		}
	}
	return c02Helpers(c)
}

var propC02 = hx.Register(hx.Prop[CaseC02]{ID: "C02", Gen: genC02, Check: checkC02})

func c02Rule() {
	hx.Rec("C02").SetRule("cases: a well-formed packet built from the reference model (AFC 1/2/3, af_len 0..183, every fitting subset of the optional AF fields with random contents and variable-field lengths biased to 0 and 'exactly fills') + a payload of 0..200 bytes (length biased to capacity-1, capacity, capacity+1, 0, 183, 184; first byte biased to AF-flag-like values; payloads and data start one time in three like a PES packet with PTS/DTS, a PSI section or a transport packet) + creation-helper arguments (Create is also called with a window of a caller-owned option slice and then with all of it). SetPayload is also handed windows of the packet's own payload and of its own 188 bytes (capacity clipped or not), and a piece of a 564-byte buffer in which the packet itself is a view (bytes [188,376)); WithPES follows every combination of the flag options. Oracle: reference partition arithmetic; the packet after SetPayload must equal byte-for-byte the reference encoding of (same header fields, same AF logical content, af_len'=183-stored, 0xFF stuffing, payload=data[:min(n,capacity)]). Enumerated: all (af_len 0..183, n 0..200) pairs for two AF contents each. Non-trivial: SetPayload on a packet with >=1 optional AF field and n != old payload length, or af_len 0, or n > capacity.",
		"PUSI of CreateTestPacket is asserted only when a payload was requested",
		"CreatePacketWithPayload: only the leading len(pay) payload bytes are asserted",
		"n=0 yields AFC=3 with af_len 183 and a zero-length payload (the library's partition invariant, not ISO's af_len<=182 rule)")
}

func TestC02(t *testing.T) {
	c02Rule()
	replayRegress(t, "C02")
	propC02.Run(t)
}

// TestC02Exhaustive: every (af_len, n) pair, for an AF without optional
// fields and for one with as many fields as fit.
func TestC02Exhaustive(t *testing.T) {
	c02Rule()
	if !hx.FirstShard() {
		t.Skip("enumeration runs on shard 0")
	}
	data := make([]byte, 200)
	for i := range data {
		data[i] = byte(0x10 + i*7)
	}
	for afl := -1; afl <= 183; afl++ {
		for variant := 0; variant < 3; variant++ {
			m := &ref.Packet{Sync: 0x47, PID: 0x1abc & 0x1fff, CC: 9, TP: true, AFC: 3}
			switch {
			case afl < 0:
				if variant > 0 {
					continue
				}
				m.AFC = 1
				m.Payload = bytes.Repeat([]byte{0x5A}, 184)
			default:
				m.AF = &ref.AF{Len: afl}
				if afl > 0 && variant >= 1 {
					room := afl - 1
					m.AF.RA = true
					if room >= 6 {
						m.AF.PCR = hexp([]byte{1, 2, 3, 4, 0x7e, 6})
						room -= 6
					}
					if variant == 2 && room >= 6 {
						m.AF.OPCR = hexp([]byte{9, 8, 7, 6, 0xfe, 4})
						room -= 6
					}
					if room >= 1 {
						s := byte(0x83)
						m.AF.Splice = &s
						room--
					}
					if room >= 2 {
						k := (room - 1) / 2
						m.AF.TPD = hexp(bytes.Repeat([]byte{0xA9}, k))
						room -= 1 + k
					}
					if variant == 2 && room >= 1 {
						m.AF.Ext = hexp(bytes.Repeat([]byte{0x11}, room-1))
					}
				} else if variant >= 1 {
					continue
				}
				m.Payload = bytes.Repeat([]byte{0x10}, 183-afl) // 0x10 looks like a "PCR present" flag byte
			}
			b := m.MustBytes()
			for n := 0; n <= 200; n++ {
				c := CaseC02{Pkt: clone(b[:]), Data: clone(data[:n]), PID: n, CC: n % 16, PUSI: n%2 == 0, Pay: n%3 != 0, HPay: clone(data[:n]), PTS: uint64(n) << 25}
				if f := propC02.EvalFast(c, hx.HashInts(uint64(afl+1), uint64(variant), uint64(n))); f != nil {
					t.Fatalf("VIOLATION-CANDIDATE property=C02 key=%s: %s", f.Key, f.Msg)
				}
			}
		}
	}
	hx.Rec("C02").Subspace("all (af_len in {none,0..183}) x (n in 0..200) pairs x {no optional fields, PCR+splice+private data, all five fields}")
}

func FuzzC02(f *testing.F) {
	c02Rule()
	f.Fuzz(propC02.Fuzz())
}
