package props

import (
	"fmt"
	"testing"

	gots "github.com/Comcast/gots/v2"
	"github.com/Comcast/gots/v2/scte35"
	"pgregory.net/rapid"

	"verifharness/hx"
	"verifharness/ref"
)

// C19 — closing relation and descriptor equality.

// DescC19 is the part of a descriptor the relations may depend on, plus
// "everything else" (Rest) which must not matter.
type DescC19 struct {
	Type       byte           `json:"type"`
	Event      uint32         `json:"event"`
	HasPTS     bool           `json:"has_pts"`
	PTS        uint64         `json:"pts"`
	Num        byte           `json:"num"`
	Exp        byte           `json:"expected"`
	HasSub     bool           `json:"has_sub"`
	SubNum     byte           `json:"sub_num"`
	SubExp     byte           `json:"sub_expected"`
	Unattached bool           `json:"unattached,omitempty"`     // created with CreateSegmentationDescriptor and never attached to a signal (only when has_pts is false: it has no signal time)
	SigKind    int            `json:"signal_kind,omitempty"`    // with PTS: 0 time_signal, 1 timed program splice_insert; without: 0 splice_null, 1 immediate splice_insert, 2 cancelled splice_insert, 3 time_signal without a time (API-built only)
	Adj        uint64         `json:"pts_adjustment,omitempty"` // the signal time is split into pts_time + pts_adjustment this way (signals with a PTS)
	Cancel     bool           `json:"cancel,omitempty"`         // segmentation_event_cancel_indicator set through the API (a decoded cancelled descriptor carries no type)
	Rest       ref.SpliceDesc `json:"rest"`                     // other fields, varied freely
	Decoded    bool           `json:"decoded"`                  // build by decoding a reference encoding instead of the creation API
}

type CaseC19 struct {
	A DescC19 `json:"a"`
	B DescC19 `json:"b"`
	C DescC19 `json:"c"`
	// Track: before the relations are evaluated the descriptors go through a state tracker (the relations depend on the
	// descriptors' values only, not on what a tracker has seen): 1 = B, C, then a program breakaway; 2 = A, B, C, then Close(A);
	// 3 = B, a breakaway, then A
	Track int `json:"track,omitempty"`
	// Shared: A and B are two descriptors of one and the same signal (siblings): the relations are about the descriptors'
	// values, not about who owns them
	Shared bool `json:"shared_signal,omitempty"`
}

func genDescC19(t *rapid.T, label string, like *DescC19) DescC19 {
	d := DescC19{}
	d.Rest = genSegDesc(t, false)
	d.Rest.Cancel = false
	vss := rapid.IntRange(0, 5).Draw(t, label+"-vss") == 0
	if vss {
		// the multiple-UPID list of a stream-switch signal (what the tracker's duplicate rule looks at): not a compared attribute
		d.Rest.NotRestricted = false
		d.Rest.UPIDType, d.Rest.UPID = 0x0D, ref.Hex{}
		d.Rest.MID = []ref.SegUPID{{Type: 0x09, Body: ref.Hex(fmt.Sprintf("BLACKOUT:sig-%d", rapid.IntRange(0, 1).Draw(t, label+"-vss-id")))}, {Type: 0x0E, Body: ref.Hex("comcast:linear:licenserotation")}}
	}
	if rapid.IntRange(0, 2).Draw(t, label+"-type-kind") == 0 {
		d.Type = rapid.Byte().Draw(t, label+"-type-any")
	} else {
		d.Type = rapid.SampledFrom(segTypesNamed).Draw(t, label+"-type")
	}
	if vss && rapid.Bool().Draw(t, label+"-vss-type") {
		d.Type = 0x40
	}
	d.Event = uint32(rapid.IntRange(1, 3).Draw(t, label+"-event"))
	d.HasPTS = rapid.IntRange(0, 5).Draw(t, label+"-haspts") != 0
	d.PTS = rapid.SampledFrom([]uint64{1000, 2000, 1<<33 - 1}).Draw(t, label+"-pts")
	d.Num = byte(rapid.IntRange(0, 2).Draw(t, label+"-num"))
	d.Exp = byte(rapid.IntRange(0, 2).Draw(t, label+"-exp"))
	if d.Type == 0x34 || d.Type == 0x36 {
		d.HasSub = rapid.Bool().Draw(t, label+"-hassub")
		d.SubNum = byte(rapid.IntRange(0, 1).Draw(t, label+"-subnum"))
		d.SubExp = byte(rapid.IntRange(0, 1).Draw(t, label+"-subexp"))
	}
	d.Decoded = rapid.Bool().Draw(t, label+"-decoded")
	if rapid.IntRange(0, 2).Draw(t, label+"-adjusted") == 0 {
		d.Adj = rapid.SampledFrom([]uint64{1, 999, 1000, 1001, 1 << 32, 1<<33 - 1}).Draw(t, label+"-adj")
	}
	d.Cancel = !d.Decoded && rapid.IntRange(0, 5).Draw(t, label+"-cancel") == 0
	d.SigKind = rapid.IntRange(0, 3).Draw(t, label+"-signal-kind")
	d.Unattached = !d.HasPTS && !d.Decoded && rapid.Bool().Draw(t, label+"-unattached")
	if like != nil && rapid.IntRange(0, 1).Draw(t, label+"-like") == 0 {
		// mostly equal to another descriptor, differing in at most one compared attribute
		sk := d.SigKind
		rest, dec, adj, cancel := d.Rest, d.Decoded, d.Adj, d.Cancel
		if rapid.IntRange(0, 2).Draw(t, label+"-same-rest") == 0 {
			// identical in every other field as well (same UPID, components, flags, duration)
			rest = like.Rest
		}
		d = *like
		d.Rest, d.Decoded, d.Adj, d.Cancel, d.SigKind = rest, dec, adj, cancel, sk
		d.Unattached = d.Unattached && !d.HasPTS && !d.Decoded
		nd := rapid.SampledFrom([]int{1, 1, 2}).Draw(t, label+"-ndiffer")
		for k := 0; k < nd; k++ {
			c19Differ(t, fmt.Sprintf("%s-differ%d", label, k), &d)
		}
	}
	return d
}

// c19Differ changes (at most) one compared attribute of d.
func c19Differ(t *rapid.T, label string, d *DescC19) {
	{
		switch rapid.IntRange(0, 10).Draw(t, label) {
		case 0:
			d.Event++
		case 1:
			d.PTS ^= 1
		case 2:
			d.Num ^= 1
		case 3:
			d.Exp ^= 1
		case 4:
			d.SubNum ^= 1
		case 5:
			d.SubExp ^= 1
		case 6:
			if d.Type == 0x34 || d.Type == 0x36 {
				d.HasSub = !d.HasSub
			}
		case 7, 8:
			d.Type ^= 1 // the start/end partner type
		case 9:
			d.Type = rapid.SampledFrom(segTypesNamed).Draw(t, label+"-type")
		}
	}
}

func genC19(t *rapid.T) CaseC19 {
	a := genDescC19(t, "a", nil)
	b := genDescC19(t, "b", &a)
	c := genDescC19(t, "c", &a)
	k := CaseC19{A: a, B: b, C: c}
	if rapid.IntRange(0, 2).Draw(t, "tracked") == 0 {
		k.Track = rapid.IntRange(1, 3).Draw(t, "track-kind")
	}
	if k.A.HasPTS && rapid.IntRange(0, 3).Draw(t, "shared-signal") == 0 {
		// siblings share the signal time; both are attached, API-built and not cancelled
		k.Shared = true
		k.A.Decoded, k.A.Cancel, k.A.Unattached = false, false, false
		k.B.HasPTS, k.B.PTS, k.B.Adj, k.B.SigKind = true, k.A.PTS, k.A.Adj, 0
		k.B.Decoded, k.B.Cancel, k.B.Unattached = false, false, false
		k.A.SigKind = 0
	}
	return k
}

// c19Track runs the descriptors through a state tracker first; whatever the tracker answers is C10's business.
func c19Track(c CaseC19, objs []scte35.SegmentationDescriptor) *hx.Failure {
	if c.Track == 0 {
		return nil
	}
	st := scte35.NewState()
	brk, f := c19Build(&DescC19{Type: 0x13, Event: c.B.Event, HasPTS: true, PTS: (c.B.PTS + 7) & m33,
		Rest: ref.SpliceDesc{Prog: true, NotRestricted: true, UPID: ref.Hex{}, MID: []ref.SegUPID{}, Comps: []ref.SegOffset{}}})
	if f != nil {
		return f
	}
	switch c.Track {
	case 1:
		st.ProcessDescriptor(objs[1])
		st.ProcessDescriptor(objs[2])
		st.ProcessDescriptor(brk)
	case 2:
		st.ProcessDescriptor(objs[0])
		st.ProcessDescriptor(objs[1])
		st.ProcessDescriptor(objs[2])
		st.Close(objs[0])
	default:
		st.ProcessDescriptor(objs[1])
		st.ProcessDescriptor(brk)
		st.ProcessDescriptor(objs[0])
	}
	return nil
}

// c19Build makes a real descriptor attached to a real signal.
// c19W is the reference descriptor for d.
func c19W(d *DescC19) ref.SpliceDesc {
	w := d.Rest
	w.Foreign = false
	w.Identifier = ref.CUEI
	w.Type, w.Event, w.Num, w.Expected = d.Type, d.Event, d.Num, d.Exp
	w.HasSub = d.HasSub && (d.Type == 0x34 || d.Type == 0x36)
	w.SubNum, w.SubExpected = d.SubNum, d.SubExp
	w.Cancel = d.Cancel && !d.Decoded
	if over := len(w.Bytes()) - 2 - 255; over > 0 && len(w.UPID) >= over {
		w.UPID = w.UPID[:len(w.UPID)-over] // descriptor_length is one byte
	}
	return w
}

// c19BuildShared makes a and b two descriptors of ONE signal (a time_signal built through the API, at a's signal time).
func c19BuildShared(a, b *DescC19) ([]scte35.SegmentationDescriptor, *hx.Failure) {
	m := ref.Splice{TableID: 0xFC, Tier: 0xFFF, Descs: []ref.SpliceDesc{c19W(a), c19W(b)}}
	m.Cmd, m.TSHasPTS, m.TSPTS = 0x06, true, (a.PTS-a.Adj)&m33
	m.Adj = a.Adj & m33
	m.Ins = ref.SpliceInsert{Comps: []ref.SpliceComp{}}
	s := buildSpliceAPI(&m, 0)
	if len(s.Descriptors()) != 2 {
		return nil, hx.Failf("api-build", "API-built signal has %d descriptors, want 2", len(s.Descriptors()))
	}
	return s.Descriptors(), nil
}

func c19Build(d *DescC19) (scte35.SegmentationDescriptor, *hx.Failure) {
	w := c19W(d)
	if d.Unattached && !d.HasPTS && !d.Decoded {
		// a descriptor straight from the creation API that no signal owns (yet)
		o := scte35.CreateSegmentationDescriptor()
		o.SetEventID(w.Event)
		o.SetIsEventCanceled(w.Cancel)
		o.SetHasProgramSegmentation(true)
		o.SetIsDeliveryNotRestricted(true)
		o.SetTypeID(scte35.SegDescType(w.Type))
		o.SetSegmentNumber(w.Num)
		o.SetSegmentsExpected(w.Expected)
		o.SetHasSubSegments(w.HasSub)
		if w.HasSub {
			o.SetSubSegmentNumber(w.SubNum)
			o.SetSubSegmentsExpected(w.SubExpected)
		}
		return o, nil
	}
	m := ref.Splice{TableID: 0xFC, Tier: 0xFFF, Descs: []ref.SpliceDesc{w}}
	noIns := ref.SpliceInsert{Comps: []ref.SpliceComp{}}
	switch {
	case d.HasPTS && d.SigKind%2 == 1:
		m.Cmd, m.Adj = 0x05, d.Adj&m33
		m.Ins = ref.SpliceInsert{Event: 0x51, Out: true, Prog: true, HasPTS: true, PTS: (d.PTS - d.Adj) & m33, Comps: []ref.SpliceComp{}}
	case d.HasPTS:
		m.Cmd, m.TSHasPTS, m.TSPTS = 0x06, true, (d.PTS-d.Adj)&m33
		m.Adj = d.Adj & m33
		m.Ins = noIns
	case d.SigKind%4 == 1:
		// an immediate splice_insert carries no time
		m.Cmd, m.Adj = 0x05, d.PTS&m33
		m.Ins = ref.SpliceInsert{Event: 0x52, Out: true, Prog: true, Immediate: true, Comps: []ref.SpliceComp{}}
	case d.SigKind%4 == 2:
		m.Cmd, m.Adj = 0x05, d.PTS&m33
		m.Ins = ref.SpliceInsert{Event: 0x53, Cancel: true, Comps: []ref.SpliceComp{}}
	case d.SigKind%4 == 3 && !d.Decoded:
		// time_signal with time_specified_flag 0 (expressible through the API only)
		m.Cmd, m.TSHasPTS, m.Adj = 0x06, false, d.PTS&m33
		m.Ins = noIns
	default:
		m.Cmd = 0x00
		m.Ins = noIns
		m.Adj = d.PTS // a splice_null has no PTS whatever its adjustment
	}
	if d.Decoded {
		s, err := scte35.NewSCTE35(append([]byte{0}, m.Encode()...))
		if err != nil || len(s.Descriptors()) != 1 {
			return nil, hx.Failf("decode-error", "NewSCTE35 failed on a well-formed section: %v", err)
		}
		return s.Descriptors()[0], nil
	}
	s := buildSpliceAPI(&m, 0)
	if len(s.Descriptors()) != 1 {
		return nil, hx.Failf("api-build", "API-built signal has %d descriptors", len(s.Descriptors()))
	}
	return s.Descriptors()[0], nil
}

func c19RefEqual(a, b *DescC19) bool {
	if a.Type != b.Type || !a.HasPTS || !b.HasPTS || a.PTS != b.PTS || a.Event != b.Event || a.Num != b.Num || a.Exp != b.Exp {
		return false
	}
	as := a.HasSub && (a.Type == 0x34 || a.Type == 0x36)
	bs := b.HasSub && (b.Type == 0x34 || b.Type == 0x36)
	if as != bs {
		return false
	}
	if as && (a.SubNum != b.SubNum || a.SubExp != b.SubExp) {
		return false
	}
	return true
}

// c19RefEqualLoose is the other reading of "same ... segment and sub-segment numbers": the numbers only, not
// the expected counts and not whether the sub-segment fields are present. Where the two readings differ the
// definition is not asserted (symmetry, transitivity and congruence still are).
func c19RefEqualLoose(a, b *DescC19) bool {
	if a.Type != b.Type || !a.HasPTS || !b.HasPTS || a.PTS != b.PTS || a.Event != b.Event || a.Num != b.Num {
		return false
	}
	as := a.HasSub && (a.Type == 0x34 || a.Type == 0x36)
	bs := b.HasSub && (b.Type == 0x34 || b.Type == 0x36)
	if as && bs && a.SubNum != b.SubNum {
		return false
	}
	return true
}

func c19RefCanClose(in, open *DescC19) bool {
	// the signal PTS of a PTS-less signal is whatever the library reports; only compare when both carry one
	ptsEq := in.PTS == open.PTS
	return ref.CanClose(in.Type, open.Type, in.Event == open.Event, ptsEq, in.Num == in.Exp)
}

// c19Wrapped is another implementation of the SegmentationDescriptor interface
// (a decorator): the relations are defined on the interface, not on one concrete type.
type c19Wrapped struct {
	scte35.SegmentationDescriptor
	note string
}

func checkC19(c CaseC19, x *hx.Ctx) *hx.Failure {
	ds := []*DescC19{&c.A, &c.B, &c.C}
	var objs []scte35.SegmentationDescriptor
	var shared []scte35.SegmentationDescriptor
	if c.Shared {
		var f *hx.Failure
		if shared, f = c19BuildShared(&c.A, &c.B); f != nil {
			return f
		}
		x.Label("siblings-of-one-signal")
	}
	for i, d := range ds {
		var o scte35.SegmentationDescriptor
		if c.Shared && i < 2 {
			o = shared[i]
		} else {
			var f *hx.Failure
			if o, f = c19Build(d); f != nil {
				return f
			}
		}
		objs = append(objs, o)
		if d.Cancel && byte(o.TypeID()) != d.Type {
			// a cancelled descriptor carries no type on the wire; a library that stops reporting the type that was set leaves
			// the relations without defined arguments
			x.Label("cancelled-type-hidden")
			return nil
		}
	}
	if f := c19Track(c, objs); f != nil {
		return f
	}
	x.LabelIf(c.Track != 0, "descriptors-seen-by-a-tracker")
	// the same relations with decorated arguments
	for i, di := range ds {
		for j, dj := range ds {
			if i == j {
				continue
			}
			w := c19Wrapped{SegmentationDescriptor: objs[j], note: "decorated"}
			if ref.CloseRule(di.Type, dj.Type) != 'D' || (di.HasPTS && dj.HasPTS) {
				if got, want := objs[i].CanClose(w), c19RefCanClose(di, dj); got != want {
					return hx.Failf("canclose-decorated", "incoming %#x CanClose a decorated open descriptor of type %#x (event ids equal %v) = %v, rule table says %v", di.Type, dj.Type, di.Event == dj.Event, got, want)
				}
			}
			if got, want := objs[i].Equal(w), c19RefEqual(di, dj); got != want && want == c19RefEqualLoose(di, dj) {
				return hx.Failf("equal-decorated", "Equal(%s, decorated %s) = %v, want %v", descKey(di), descKey(dj), got, want)
			}
		}
	}
	nt := false
	for i := range ds {
		for j := range ds {
			if ref.CloseRule(ds[i].Type, ds[j].Type) != 0 {
				nt = true
			}
		}
	}
	x.NT(nt || c19RefEqual(&c.A, &c.B) || c19RefEqual(&c.A, &c.C))
	x.LabelIf(nt, "pair-with-table-entry")
	x.LabelIf(c19RefEqual(&c.A, &c.B), "equal-pair")
	for i, di := range ds {
		// in / out classification
		if objs[i].IsIn() != ref.IsInType(di.Type) || objs[i].IsOut() != ref.IsOutType(di.Type) {
			return hx.Failf("in-out", "type %#x: IsIn=%v IsOut=%v, documented lists say in=%v out=%v", di.Type, objs[i].IsIn(), objs[i].IsOut(), ref.IsInType(di.Type), ref.IsOutType(di.Type))
		}
		if objs[i].IsIn() && objs[i].IsOut() {
			return hx.Failf("in-out", "type %#x is both in and out", di.Type)
		}
		for j, dj := range ds {
			// closing relation: PTS comparison is only defined when both signals carry a PTS
			if ref.CloseRule(di.Type, dj.Type) != 'D' || (di.HasPTS && dj.HasPTS) {
				want := c19RefCanClose(di, dj)
				if got := objs[i].CanClose(objs[j]); got != want {
					return hx.Failf("canclose", "incoming %#x (event %d, pts %d, seg %d/%d) CanClose open %#x (event %d, pts %d) = %v, rule table says %v (rule %q)", di.Type, di.Event, di.PTS, di.Num, di.Exp, dj.Type, dj.Event, dj.PTS, got, want, string(ref.CloseRule(di.Type, dj.Type)))
				}
			}
			// equality: definition and symmetry
			want := c19RefEqual(di, dj)
			if i == j {
				want = di.HasPTS
			}
			if got := objs[i].Equal(objs[j]); got != want && (i == j || want == c19RefEqualLoose(di, dj)) {
				return hx.Failf("equal-definition", "Equal(%+v, %+v) = %v, want %v", descKey(di), descKey(dj), got, want)
			}
			if objs[i].Equal(objs[j]) != objs[j].Equal(objs[i]) {
				return hx.Failf("equal-symmetry", "Equal is not symmetric on %+v / %+v", descKey(di), descKey(dj))
			}
		}
	}
	// transitivity and congruence on the triple
	ab, bc, ac := objs[0].Equal(objs[1]), objs[1].Equal(objs[2]), objs[0].Equal(objs[2])
	if ab && bc && !ac {
		return hx.Failf("equal-transitivity", "a=b and b=c but not a=c: %+v %+v %+v", descKey(&c.A), descKey(&c.B), descKey(&c.C))
	}
	if ab {
		if objs[0].CanClose(objs[2]) != objs[1].CanClose(objs[2]) || objs[2].CanClose(objs[0]) != objs[2].CanClose(objs[1]) {
			return hx.Failf("equal-congruence", "equal descriptors %+v / %+v close or are closed by %+v differently", descKey(&c.A), descKey(&c.B), descKey(&c.C))
		}
	}
	if objs[0].Equal(nil) {
		return hx.Failf("equal-nil", "a descriptor equals nil")
	}
	return nil
}

func descKey(d *DescC19) string {
	return fmt.Sprintf("{type %#x event %d hasPTS %v pts %d seg %d/%d sub %v %d/%d decoded %v}", d.Type, d.Event, d.HasPTS, d.PTS, d.Num, d.Exp, d.HasSub, d.SubNum, d.SubExp, d.Decoded)
}

var propC19 = hx.Register(hx.Prop[CaseC19]{ID: "C19", Gen: genC19, Check: checkC19})

func c19Rule() {
	hx.Rec("C19").SetRule("rapid cases: three descriptors (named or arbitrary type, event id in 1..3, signal with PTS in {1000,2000,2^33-1} (time_signal or timed splice_insert) or without PTS (splice_null, immediate or cancelled splice_insert, time-less time_signal, or no signal at all: a descriptor fresh from the creation API), segment number/expected in 0..2, sub-segment fields for 0x34/0x36), the second and third derived from the first with one or two compared attributes (incl. the type: start/end partner or any named type) changed half of the time, ALL other descriptor fields drawn freely or (one derived descriptor in three) identical to the first's (flags, components, duration, UPID/MID, the cancel indicator on API-built ones, the split of the signal time into pts_time + pts_adjustment), each realised either through the creation API or by decoding a reference encoding; one descriptor in six carries the multiple-UPID list of a stream-switch signal (half of those with type 0x40); in one case in four the first two descriptors are siblings in one signal; in one case in three the three descriptors first go through a state tracker (processed, followed by a program breakaway, or closed explicitly); CanClose on all 9 ordered pairs vs the hand-transcribed rule table (also with the argument wrapped in a decorator type that embeds the interface), IsIn/IsOut vs the documented lists, Equal vs its definition, symmetry, transitivity and congruence on the triple. Enumerated: all 256x256 type pairs x event-equal x PTS-equal x (segment number = expected) x incoming has sub-segments (65536 x 16), IsIn/IsOut for all 256 types, and all ordered pairs of a 720-descriptor family for the equality laws. Non-trivial: a pair with a table entry, or an equal pair.",
		"the rule table is a transcription of the pinned commit's documented rules (the property is defined relative to it)",
		"the DiffPTS rule is only asserted when both signals carry a PTS")
}

func TestC19(t *testing.T) {
	c19Rule()
	replayRegress(t, "C19")
	propC19.Run(t)
}

func c19Sig(pts uint64, hasPTS bool) scte35.SCTE35 {
	s := scte35.CreateSCTE35()
	if hasPTS {
		c := scte35.CreateTimeSignalCommand()
		c.SetHasPTS(true)
		s.SetCommandInfo(c)
		s.SetPTS(gots.PTS(pts))
	}
	return s
}

// TestC19ExhaustiveGrid: the complete abstraction grid.
func TestC19ExhaustiveGrid(t *testing.T) {
	c19Rule()
	if !hx.FirstShard() {
		t.Skip("enumeration runs on shard 0")
	}
	rec := hx.Rec("C19")
	var n, nt int64
	for cfg := 0; cfg < 16; cfg++ {
		eventEq, ptsEq, numEq, sub := cfg&1 != 0, cfg&2 != 0, cfg&4 != 0, cfg&8 != 0
		in := DescC19{Event: 7, HasPTS: true, PTS: 5000, Num: 2, Exp: 3}
		open := DescC19{Event: 8, HasPTS: true, PTS: 6000, Num: 1, Exp: 1}
		if eventEq {
			open.Event = in.Event
		}
		if ptsEq {
			open.PTS = in.PTS
		}
		if numEq {
			in.Exp = in.Num
		}
		sa, sb := c19Sig(in.PTS, true), c19Sig(open.PTS, true)
		da, db := scte35.CreateSegmentationDescriptor(), scte35.CreateSegmentationDescriptor()
		da.SetEventID(in.Event)
		db.SetEventID(open.Event)
		da.SetSegmentNumber(in.Num)
		da.SetSegmentsExpected(in.Exp)
		db.SetSegmentNumber(open.Num)
		db.SetSegmentsExpected(open.Exp)
		sa.SetDescriptors([]scte35.SegmentationDescriptor{da})
		sb.SetDescriptors([]scte35.SegmentationDescriptor{db})
		// the signals' own handles (a signal may keep copies of what it is given)
		if l := sa.Descriptors(); len(l) == 1 {
			da = l[0]
		}
		if l := sb.Descriptors(); len(l) == 1 {
			db = l[0]
		}
		for ti := 0; ti < 256; ti++ {
			da.SetTypeID(scte35.SegDescType(ti))
			da.SetHasSubSegments(sub)
			if sub {
				da.SetSubSegmentNumber(1)
				da.SetSubSegmentsExpected(2)
			}
			if da.IsIn() != ref.IsInType(byte(ti)) || da.IsOut() != ref.IsOutType(byte(ti)) || (da.IsIn() && da.IsOut()) {
				in.Type, open.Type = byte(ti), byte(ti)
				propC19.Eval(CaseC19{A: in, B: open, C: open})
				t.Fatalf("VIOLATION-CANDIDATE property=C19 key=in-out: type %#x IsIn=%v IsOut=%v", ti, da.IsIn(), da.IsOut())
			}
			for to := 0; to < 256; to++ {
				db.SetTypeID(scte35.SegDescType(to))
				want := ref.CanClose(byte(ti), byte(to), eventEq, ptsEq, numEq)
				if got := da.CanClose(db); got != want {
					in.Type, open.Type = byte(ti), byte(to)
					in.HasSub = sub
					if f := propC19.Eval(CaseC19{A: in, B: open, C: open}); f == nil {
						// not reproducible with fresh objects: the answer depends on the object's history (it was re-typed from ti-1)
						prev := byte(ti - 1)
						if ti == 0 {
							prev = 0
						}
						rc := CaseC19R{Open: open, Steps: []StepC19R{{Type: prev, Event: in.Event, Num: in.Num, Exp: in.Exp}, {Type: byte(ti), Event: in.Event, Num: in.Num, Exp: in.Exp}}}
						rc.Open.Type = byte(to)
						propC19R.Eval(rc)
						hx.DumpReplay("C19", "retyped", rc, hx.Failf("canclose-retyped", "grid: object re-typed from %#x to %#x answers CanClose(%#x) = %v, rule table says %v", prev, ti, to, got, want))
					}
					t.Fatalf("VIOLATION-CANDIDATE property=C19 key=canclose: incoming %#x open %#x eventEq=%v ptsEq=%v numEq=%v sub=%v: CanClose=%v, rule table says %v", ti, to, eventEq, ptsEq, numEq, sub, got, want)
				}
				n++
				if ref.CloseRule(byte(ti), byte(to)) != 0 {
					nt++
				}
			}
		}
	}
	rec.Bulk(n, nt)
	rec.Subspace("CanClose on all 256x256 (incoming, open) type pairs x event-id-equal x PTS-equal x (segment number = expected) x incoming-has-sub-segments, and IsIn/IsOut for all 256 types")
}

// TestC19ExhaustiveEqual: all ordered pairs of a finite descriptor family.
func TestC19ExhaustiveEqual(t *testing.T) {
	c19Rule()
	if !hx.FirstShard() {
		t.Skip("enumeration runs on shard 0")
	}
	var fam []DescC19
	var objs []scte35.SegmentationDescriptor
	for _, ty := range []byte{0x34, 0x36, 0x35, 0x10, 0x30, 0x40} {
		for ptsMode := 0; ptsMode < 3; ptsMode++ {
			for ev := uint32(1); ev <= 2; ev++ {
				for num := byte(0); num < 2; num++ {
					for exp := byte(0); exp < 2; exp++ {
						for sub := 0; sub < 5; sub++ {
							d := DescC19{Type: ty, Event: ev, HasPTS: ptsMode != 0, PTS: uint64(1000 * (ptsMode + 1)), Num: num, Exp: exp}
							if sub > 0 {
								d.HasSub = true
								d.SubNum, d.SubExp = byte((sub-1)&1), byte((sub-1)>>1)
							}
							d.Rest = ref.SpliceDesc{Prog: true, NotRestricted: true, UPID: ref.Hex{}, MID: []ref.SegUPID{}, Comps: []ref.SegOffset{}}
							d.Decoded = (len(fam) % 2) == 0
							o, f := c19Build(&d)
							if f != nil {
								t.Fatalf("VIOLATION-CANDIDATE property=C19 key=%s: %s", f.Key, f.Msg)
							}
							fam = append(fam, d)
							objs = append(objs, o)
						}
					}
				}
			}
		}
	}
	var n, nt int64
	for i := range fam {
		for j := range fam {
			want := c19RefEqual(&fam[i], &fam[j])
			if i == j {
				want = fam[i].HasPTS
			}
			got := objs[i].Equal(objs[j])
			if i != j && want != c19RefEqualLoose(&fam[i], &fam[j]) {
				want = got // the two readings of "segment and sub-segment numbers" differ here: only symmetry is asserted
			}
			if got != want || got != objs[j].Equal(objs[i]) {
				f := propC19.Eval(CaseC19{A: fam[i], B: fam[j], C: fam[j]})
				t.Fatalf("VIOLATION-CANDIDATE property=C19 key=equal-definition: Equal(%s, %s) = %v want %v (case oracle: %v)", descKey(&fam[i]), descKey(&fam[j]), got, want, f)
			}
			n++
			if want {
				nt++
				// congruence against a slice of the family
				for k := (i * 7) % len(fam); k < len(fam); k += 97 {
					if objs[i].CanClose(objs[k]) != objs[j].CanClose(objs[k]) || objs[k].CanClose(objs[i]) != objs[k].CanClose(objs[j]) {
						propC19.Eval(CaseC19{A: fam[i], B: fam[j], C: fam[k]})
						t.Fatalf("VIOLATION-CANDIDATE property=C19 key=equal-congruence: %s / %s vs %s", descKey(&fam[i]), descKey(&fam[j]), descKey(&fam[k]))
					}
				}
			}
		}
	}
	hx.Rec("C19").Bulk(n, nt)
	hx.Rec("C19").Subspace(fmt.Sprintf("Equal on all ordered pairs of a %d-descriptor family ({6 types} x {no PTS, 2 PTS values} x 2 event ids x 2 segment numbers x 2 expected x {no sub-segments, 2x2 sub-segment values}): definition, reflexivity, symmetry; congruence for equal pairs", len(fam)))
}

func FuzzC19(f *testing.F) {
	c19Rule()
	f.Fuzz(propC19.Fuzz())
}

// ---------------------------------------------------------------------------
// one descriptor object re-typed and re-configured through its setters between
// queries: the closing relation must follow the CURRENT field values

type StepC19R struct {
	Type    byte   `json:"type"`
	Event   uint32 `json:"event"`
	Num     byte   `json:"num"`
	Exp     byte   `json:"exp"`
	SkipSet bool   `json:"skip_set"` // leave segment number / expected untouched in this step
}

type CaseC19R struct {
	Open  DescC19    `json:"open"`
	Steps []StepC19R `json:"steps"`
	Fresh bool       `json:"fresh"` // never call the segment setters when the wanted value is the default 0
}

func genC19R(t *rapid.T) CaseC19R {
	c := CaseC19R{Open: genDescC19(t, "open", nil)}
	c.Open.HasPTS = true
	c.Fresh = rapid.Bool().Draw(t, "fresh")
	n := rapid.IntRange(1, 8).Draw(t, "nsteps")
	for i := 0; i < n; i++ {
		st := StepC19R{}
		if rapid.Bool().Draw(t, "step-type-po") {
			st.Type = rapid.SampledFrom([]byte{0x34, 0x36, 0x35, 0x37}).Draw(t, "step-type-po-v")
		} else {
			st.Type = rapid.SampledFrom(segTypesNamed).Draw(t, "step-type")
		}
		st.Event = uint32(rapid.IntRange(1, 2).Draw(t, "step-event"))
		st.Num = byte(rapid.IntRange(0, 2).Draw(t, "step-num"))
		st.Exp = byte(rapid.IntRange(0, 2).Draw(t, "step-exp"))
		st.SkipSet = rapid.IntRange(0, 3).Draw(t, "step-skip") == 0
		c.Steps = append(c.Steps, st)
	}
	if rapid.Bool().Draw(t, "open-po") {
		c.Open.Type = rapid.SampledFrom([]byte{0x34, 0x36, 0x30, 0x3C, 0x44}).Draw(t, "open-type")
	}
	c.Open.Event = uint32(rapid.IntRange(1, 2).Draw(t, "open-event"))
	return c
}

func checkC19R(c CaseC19R, x *hx.Ctx) *hx.Failure {
	open, f := c19Build(&c.Open)
	if f != nil {
		return f
	}
	if c.Open.Cancel && byte(open.TypeID()) != c.Open.Type {
		return nil // see checkC19
	}
	myPTS := (c.Open.PTS + 1000) & (1<<33 - 1)
	sig := c19Sig(myPTS, true)
	d := scte35.CreateSegmentationDescriptor()
	sig.SetDescriptors([]scte35.SegmentationDescriptor{d})
	if l := sig.Descriptors(); len(l) == 1 {
		d = l[0] // the signal's own handle (a signal may keep a copy of what it is given)
	}
	cur := DescC19{HasPTS: true, PTS: myPTS}
	x.NT(len(c.Steps) >= 2)
	x.Label("retyped-object")
	var hist []string
	for i, st := range c.Steps {
		d.SetTypeID(scte35.SegDescType(st.Type))
		d.SetEventID(st.Event)
		cur.Type, cur.Event = st.Type, st.Event
		if !st.SkipSet {
			if !(c.Fresh && st.Num == 0 && cur.Num == 0) {
				d.SetSegmentNumber(st.Num)
			}
			if !(c.Fresh && st.Exp == 0 && cur.Exp == 0) {
				d.SetSegmentsExpected(st.Exp)
			}
			cur.Num, cur.Exp = st.Num, st.Exp
		}
		hist = append(hist, fmt.Sprintf("{type %#x event %d seg %d/%d}", cur.Type, cur.Event, cur.Num, cur.Exp))
		want := c19RefCanClose(&cur, &c.Open)
		if got := d.CanClose(open); got != want {
			return hx.Failf("canclose-retyped", "step %d: descriptor configured as %v (history %v) CanClose open %#x (event %d) = %v, rule table says %v", i, hist[len(hist)-1], hist, c.Open.Type, c.Open.Event, got, want)
		}
		// and the other direction, with the re-typed object as the open one
		want2 := c19RefCanClose(&c.Open, &cur)
		if got := open.CanClose(d); got != want2 {
			return hx.Failf("canclose-retyped", "step %d: open %#x CanClose the re-typed descriptor %v = %v, rule table says %v", i, c.Open.Type, hist[len(hist)-1], got, want2)
		}
		// a twin built from scratch with the same values must be Equal and behave the same
		twin, f := c19Build(&DescC19{Type: cur.Type, Event: cur.Event, HasPTS: true, PTS: cur.PTS, Num: cur.Num, Exp: cur.Exp,
			Rest: ref.SpliceDesc{Prog: true, NotRestricted: true, UPID: ref.Hex{}, MID: []ref.SegUPID{}, Comps: []ref.SegOffset{}}, Decoded: i%2 == 0})
		if f != nil {
			return f
		}
		if !d.Equal(twin) || !twin.Equal(d) {
			return hx.Failf("equal-retyped", "step %d: the re-typed descriptor %v is not Equal to a freshly built twin", i, hist[len(hist)-1])
		}
		if d.CanClose(open) != twin.CanClose(open) {
			return hx.Failf("equal-congruence", "step %d: the re-typed descriptor %v and its freshly built twin close %#x differently", i, hist[len(hist)-1], c.Open.Type)
		}
	}
	return nil
}

var propC19R = hx.Register(hx.Prop[CaseC19R]{ID: "C19", Variant: "retyped", Gen: genC19R, Check: checkC19R})

func TestC19_Retyped(t *testing.T) {
	c19Rule()
	propC19R.Run(t)
}
