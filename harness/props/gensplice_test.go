package props

import (
	"bytes"
	"fmt"

	gots "github.com/Comcast/gots/v2"
	"github.com/Comcast/gots/v2/scte35"
	"pgregory.net/rapid"

	"verifharness/hx"
	"verifharness/ref"
)

var segTypesNamed = []byte{0x00, 0x01, 0x10, 0x11, 0x12, 0x13, 0x14, 0x15, 0x16, 0x17, 0x18, 0x19, 0x20, 0x21, 0x22, 0x23, 0x24, 0x25, 0x26, 0x27,
	0x30, 0x31, 0x32, 0x33, 0x34, 0x35, 0x36, 0x37, 0x3C, 0x3D, 0x40, 0x41, 0x42, 0x43, 0x44, 0x45, 0x50, 0x51}

func genSegDesc(t *rapid.T, allowForeign bool) ref.SpliceDesc {
	if allowForeign && rapid.IntRange(0, 4).Draw(t, "foreign") == 0 {
		tag := rapid.Byte().Draw(t, "ftag")
		if tag == 2 {
			tag = 3
		}
		// every splice_descriptor starts with a 32-bit identifier (SCTE 35 10.1); somebody else's identifier, then private bytes
		id := rapid.SampledFrom([]string{"ABCD", "XYZ1", "GA94", "DTG1", "cuei"}).Draw(t, "fident")
		return ref.SpliceDesc{Foreign: true, FTag: tag, FBody: append([]byte(id), genBytes(t, 0, 8, "fbody")...)}
	}
	d := ref.SpliceDesc{Identifier: ref.CUEI}
	d.Event = uint32(genBits(t, 32, "seg-event"))
	d.Cancel = rapid.IntRange(0, 5).Draw(t, "seg-cancel") == 0
	d.Prog = rapid.Bool().Draw(t, "seg-prog")
	d.Dur = rapid.Bool().Draw(t, "seg-dur")
	d.NotRestricted = rapid.Bool().Draw(t, "seg-notrestr")
	d.Web = rapid.Bool().Draw(t, "seg-web")
	d.NoBlackout = rapid.Bool().Draw(t, "seg-noblk")
	d.Archive = rapid.Bool().Draw(t, "seg-arch")
	d.Device = byte(rapid.IntRange(0, 3).Draw(t, "seg-dev"))
	nc := rapid.IntRange(0, 3).Draw(t, "seg-ncomps")
	d.Comps = []ref.SegOffset{}
	for i := 0; i < nc; i++ {
		d.Comps = append(d.Comps, ref.SegOffset{Tag: rapid.Byte().Draw(t, "seg-ctag"), Offset: genBits(t, 33, "seg-coff")})
	}
	d.Duration = genBits(t, 40, "seg-duration")
	if rapid.Bool().Draw(t, "seg-type-named") {
		d.Type = rapid.SampledFrom(segTypesNamed).Draw(t, "seg-type")
	} else {
		d.Type = rapid.Byte().Draw(t, "seg-type-any")
	}
	d.Num = rapid.Byte().Draw(t, "seg-num")
	d.Expected = rapid.Byte().Draw(t, "seg-exp")
	if (d.Type == 0x34 || d.Type == 0x36) && rapid.Bool().Draw(t, "seg-hassub") {
		d.HasSub = true
		d.SubNum = rapid.Byte().Draw(t, "seg-subnum")
		d.SubExpected = rapid.Byte().Draw(t, "seg-subexp")
	}
	d.MID = []ref.SegUPID{}
	d.UPID = ref.Hex{}
	if rapid.IntRange(0, 2).Draw(t, "seg-mid") == 0 {
		d.UPIDType = 0x0D
		nm := rapid.IntRange(0, 3).Draw(t, "seg-nmid")
		for i := 0; i < nm; i++ {
			d.MID = append(d.MID, ref.SegUPID{Type: byte(rapid.IntRange(0, 15).Draw(t, "mid-type")), Body: genBytes(t, 0, 10, "mid-body")})
		}
	} else {
		d.UPIDType = byte(rapid.IntRange(0, 15).Draw(t, "seg-upidtype"))
		if d.UPIDType == 0x0D {
			d.UPIDType = 0x09
		}
		d.UPID = genBytes(t, 0, 40, "seg-upid")
		if rapid.IntRange(0, 7).Draw(t, "seg-upid-long") == 0 {
			// long UPIDs: several of them push section_length beyond 1023 (it is a 12-bit field)
			d.UPID = genBytes(t, 200, 240, "seg-upid-long-bytes")
			// descriptor_length is one byte
			if over := len(d.Bytes()) - 2 - 255; over > 0 {
				d.UPID = d.UPID[:len(d.UPID)-over]
			}
		}
	}
	normUPIDs(&d)
	return d
}

// upidFixedLen: the segmentation_upid_length SCTE 35 (table 22) prescribes for the types of fixed size. A well-formed
// section uses exactly these (a decoder may check them); the types of variable size carry every length.
var upidFixedLen = map[byte]int{0x00: 0, 0x02: 8, 0x03: 12, 0x04: 32, 0x05: 8, 0x06: 12, 0x07: 12, 0x08: 8, 0x0A: 12}

func fixUPIDLen(ty byte, body ref.Hex) (byte, ref.Hex) {
	n, fixed := upidFixedLen[ty]
	if !fixed || len(body) == n {
		return ty, body
	}
	if len(body) > 40 {
		return 0x0F, body // the long identifiers stay long, as a URI
	}
	out := make(ref.Hex, n)
	for i := range out {
		if len(body) > 0 {
			out[i] = body[i%len(body)]
		} else {
			out[i] = byte(0x30 + i)
		}
	}
	return ty, out
}

func normUPIDs(d *ref.SpliceDesc) {
	if d.Foreign {
		return
	}
	if d.UPIDType == 0x0D {
		for i := range d.MID {
			d.MID[i].Type, d.MID[i].Body = fixUPIDLen(d.MID[i].Type, d.MID[i].Body)
		}
		return
	}
	d.UPIDType, d.UPID = fixUPIDLen(d.UPIDType, d.UPID)
}

// genSplice draws a well-formed splice_info_section over the supported syntax.
func genSplice(t *rapid.T, allowForeign bool) ref.Splice {
	s := ref.Splice{TableID: 0xFC}
	s.Proto = 0 // the only protocol_version SCTE 35 defines (a decoder may refuse others)
	s.EncAlg = byte(rapid.SampledFrom([]int{0, 0, 0, 1, 63, 21}).Draw(t, "encalg"))
	s.Adj = genBits(t, 33, "adj")
	s.CW = rapid.Byte().Draw(t, "cw")
	s.Tier = uint16(genBits(t, 12, "tier"))
	s.UnknownLen = rapid.IntRange(0, 4).Draw(t, "unknown-len") == 0
	switch rapid.IntRange(0, 3).Draw(t, "cmd") {
	case 0:
		s.Cmd = 0x00
	case 1:
		s.Cmd = 0x06
		s.TSHasPTS = true
		s.TSPTS = genBits(t, 33, "ts-pts")
	default:
		s.Cmd = 0x05
		i := ref.SpliceInsert{HasPTS: true}
		i.Event = uint32(genBits(t, 32, "ins-event"))
		i.Cancel = rapid.IntRange(0, 4).Draw(t, "ins-cancel") == 0
		i.Out = rapid.Bool().Draw(t, "ins-out")
		i.Prog = rapid.Bool().Draw(t, "ins-prog")
		i.Dur = rapid.Bool().Draw(t, "ins-dur")
		i.Immediate = rapid.Bool().Draw(t, "ins-immediate")
		i.PTS = genBits(t, 33, "ins-pts")
		i.Comps = []ref.SpliceComp{}
		if !i.Prog {
			nc := rapid.IntRange(0, 4).Draw(t, "ins-ncomps")
			if rapid.IntRange(0, 9).Draw(t, "ins-many-comps") == 0 {
				// component_count is an 8-bit field: commands longer than 255 bytes (splice_command_length is 12 bits)
				nc = rapid.SampledFrom([]int{41, 42, 43, 60, 100, 255}).Draw(t, "ins-ncomps-many")
			}
			for k := 0; k < nc; k++ {
				i.Comps = append(i.Comps, ref.SpliceComp{Tag: rapid.Byte().Draw(t, "ins-ctag"), HasPTS: rapid.Bool().Draw(t, "ins-chas"), PTS: genBits(t, 33, "ins-cpts")})
			}
		}
		i.AutoReturn = rapid.Bool().Draw(t, "ins-autoret")
		i.Duration = genBits(t, 33, "ins-duration")
		i.UniqueID = uint16(genBits(t, 16, "ins-upid"))
		i.Avail = rapid.Byte().Draw(t, "ins-avail")
		i.Avails = rapid.Byte().Draw(t, "ins-avails")
		s.Ins = i
	}
	if rapid.IntRange(0, 499).Draw(t, "many-descs") == 0 {
		// hundreds of small descriptors in one section (a cancelled segmentation descriptor takes 11 bytes, the section may
		// have 4093 behind section_length): counts around the width of a one-byte counter
		n := rapid.SampledFrom([]int{130, 255, 256, 257, 300, 340}).Draw(t, "many-n")
		base := uint32(genBits(t, 32, "many-event"))
		shape := rapid.IntRange(0, 2).Draw(t, "many-shape")
		s.Descs = []ref.SpliceDesc{}
		for k := 0; k < n; k++ {
			d := ref.SpliceDesc{Identifier: ref.CUEI, Event: base + uint32(k), Cancel: true, Comps: []ref.SegOffset{}, MID: []ref.SegUPID{}, UPID: ref.Hex{}}
			if shape == 1 && k%2 == 1 {
				d.Cancel, d.Prog, d.NotRestricted, d.Type, d.Num, d.Expected = false, true, true, 0x30+byte(k%8), byte(k), byte(k>>8)
			}
			if shape == 2 && allowForeign && k%7 == 3 {
				d = ref.SpliceDesc{Foreign: true, FTag: 0x80, FBody: []byte("ABCD")}
			}
			normUPIDs(&d)
			s.Descs = append(s.Descs, d)
		}
		for len(s.Encode()) > 4000 && len(s.Descs) > 0 { // leaves room for what callers add (alignment stuffing)
			s.Descs = s.Descs[:len(s.Descs)-4]
		}
		return s
	}
	nd := rapid.IntRange(0, 5).Draw(t, "ndescs")
	long := rapid.IntRange(0, 11).Draw(t, "long-section") == 0
	if long {
		nd = rapid.IntRange(5, 7).Draw(t, "ndescs-long")
	}
	s.Descs = []ref.SpliceDesc{}
	for k := 0; k < nd; k++ {
		d := genSegDesc(t, allowForeign)
		if k > 0 && !long && rapid.IntRange(0, 4).Draw(t, "sibling") == 0 {
			// a sibling of an earlier descriptor: same type, event id and segment numbers, differing (if at all) in one other field
			if prev := s.Descs[rapid.IntRange(0, k-1).Draw(t, "sibling-of")]; !prev.Foreign {
				sib := prev
				sib.Comps = append([]ref.SegOffset{}, prev.Comps...)
				sib.MID = append([]ref.SegUPID{}, prev.MID...)
				sib.UPID = append(ref.Hex{}, prev.UPID...)
				switch rapid.IntRange(0, 5).Draw(t, "sibling-diff") {
				case 0:
					if sib.UPIDType != 0x0D {
						sib.UPID = genBytes(t, 0, 12, "sibling-upid")
					}
				case 1:
					sib.Duration = genBits(t, 40, "sibling-duration")
				case 2:
					sib.Web, sib.Archive = !sib.Web, !sib.Archive
				case 3:
					sib.Dur = !sib.Dur
				case 4:
					sib.Cancel = !sib.Cancel
				}
				// descriptor_length is one byte
				if over := len(sib.Bytes()) - 2 - 255; over > 0 && len(sib.UPID) >= over {
					sib.UPID = sib.UPID[:len(sib.UPID)-over]
				}
				d = sib
			}
		}
		if long && !d.Foreign && !d.Cancel && d.UPIDType != 0x0D {
			// a section longer than 1023 bytes: section_length is a 12-bit field
			d.UPID = genBytes(t, 200, 240, "long-upid")
			if over := len(d.Bytes()) - 2 - 255; over > 0 {
				d.UPID = d.UPID[:len(d.UPID)-over]
			}
		}
		normUPIDs(&d)
		s.Descs = append(s.Descs, d)
	}
	return s
}

func u33(v gots.PTS) uint64 { return uint64(v) }

// cmpSplice compares every getter of a decoded / built signal with the model,
// "modulo meaning": a field is compared only where the syntax carries it.
func cmpSplice(what string, m *ref.Splice, s scte35.SCTE35) *hx.Failure {
	if s.Tier() != m.Tier {
		return hx.Failf("tier", "%s: Tier() = %#x, encoded %#x", what, s.Tier(), m.Tier)
	}
	if byte(s.Command()) != m.Cmd {
		return hx.Failf("command-type", "%s: Command() = %#x, encoded %#x", what, s.Command(), m.Cmd)
	}
	ci := s.CommandInfo()
	if ci == nil || byte(ci.CommandType()) != m.Cmd {
		return hx.Failf("command-type", "%s: CommandInfo() missing or of another type", what)
	}
	carries, cmdPTS := m.CarriesTime()
	if s.HasPTS() != carries {
		return hx.Failf("haspts", "%s: HasPTS() = %v, the command %s a pts_time", what, s.HasPTS(), map[bool]string{true: "carries", false: "does not carry"}[carries])
	}
	if carries {
		want := (cmdPTS + m.Adj) & (1<<33 - 1)
		if u33(s.PTS()) != want {
			return hx.Failf("signal-pts", "%s: PTS() = %d, want (pts_time %d + pts_adjustment %d) mod 2^33 = %d", what, u33(s.PTS()), cmdPTS, m.Adj, want)
		}
		if !ci.HasPTS() || u33(ci.PTS()) != cmdPTS {
			return hx.Failf("command-pts", "%s: command PTS() = %d (HasPTS %v), encoded pts_time %d", what, u33(ci.PTS()), ci.HasPTS(), cmdPTS)
		}
	}
	if m.Cmd == 0x05 {
		c, ok := ci.(scte35.SpliceInsertCommand)
		if !ok {
			return hx.Failf("command-type", "%s: CommandInfo() is not a SpliceInsertCommand", what)
		}
		i := m.Ins
		if c.EventID() != i.Event || c.IsEventCanceled() != i.Cancel {
			return hx.Failf("insert-event", "%s: splice_insert event id %#x cancel %v, encoded %#x %v", what, c.EventID(), c.IsEventCanceled(), i.Event, i.Cancel)
		}
		if !i.Cancel {
			if c.IsOut() != i.Out || c.IsProgramSplice() != i.Prog || c.HasDuration() != i.Dur || c.SpliceImmediate() != i.Immediate {
				return hx.Failf("insert-flags", "%s: splice_insert flags out/program/duration/immediate = %v/%v/%v/%v, encoded %v/%v/%v/%v", what,
					c.IsOut(), c.IsProgramSplice(), c.HasDuration(), c.SpliceImmediate(), i.Out, i.Prog, i.Dur, i.Immediate)
			}
			if !i.Prog {
				cs := c.Components()
				if len(cs) != len(i.Comps) {
					return hx.Failf("insert-components", "%s: %d components decoded, %d encoded", what, len(cs), len(i.Comps))
				}
				for k, cc := range cs {
					w := i.Comps[k]
					if cc.ComponentTag() != w.Tag {
						return hx.Failf("insert-components", "%s: component %d tag %#x, encoded %#x", what, k, cc.ComponentTag(), w.Tag)
					}
					if !i.Immediate && (cc.HasPTS() != w.HasPTS || (w.HasPTS && u33(cc.PTS()) != w.PTS)) {
						return hx.Failf("insert-component-time", "%s: component %d splice_time (%v, %d), encoded (%v, %d)", what, k, cc.HasPTS(), u33(cc.PTS()), w.HasPTS, w.PTS)
					}
				}
			}
			if i.Dur && (c.IsAutoReturn() != i.AutoReturn || u33(c.Duration()) != i.Duration) {
				return hx.Failf("insert-break-duration", "%s: break_duration (auto_return %v, %d), encoded (%v, %d)", what, c.IsAutoReturn(), u33(c.Duration()), i.AutoReturn, i.Duration)
			}
			if c.UniqueProgramId() != i.UniqueID || c.AvailNum() != i.Avail || c.AvailsExpected() != i.Avails {
				return hx.Failf("insert-tail", "%s: unique_program_id/avail_num/avails_expected = %#x/%d/%d, encoded %#x/%d/%d", what, c.UniqueProgramId(), c.AvailNum(), c.AvailsExpected(), i.UniqueID, i.Avail, i.Avails)
			}
		}
	}
	var segs []ref.SpliceDesc
	for _, d := range m.Descs {
		if !d.Foreign {
			segs = append(segs, d)
		}
	}
	ds := s.Descriptors()
	if len(ds) != len(segs) {
		return hx.Failf("descriptor-count", "%s: %d segmentation descriptors decoded, %d encoded", what, len(ds), len(segs))
	}
	// the order in which Descriptors() lists them is not fixed by the statements (the interface documents "sorted by
	// descriptor weight"): every encoded descriptor must be matched by a decoded one of its own; wire order is tried first
	used := make([]bool, len(ds))
	for k, w := range segs {
		w := w
		match := -1
		var first *hx.Failure
		try := func(j int) bool {
			if used[j] {
				return false
			}
			// (the long prefix is only formatted for a failure that is reported)
			f := cmpSegDesc(fmt.Sprintf("descriptor %d", k), &w, ds[j])
			if f == nil {
				match = j
				return true
			}
			if first == nil {
				f.Msg = what + ": " + f.Msg
				first = f
			}
			return false
		}
		if !try(k) {
			for _, j := range seqExcept(len(ds), k) {
				if try(j) {
					break
				}
			}
		}
		if match < 0 {
			return first
		}
		used[match] = true
		if ds[match].SCTE35() != s {
			return hx.Failf("descriptor-backref", "%s: descriptor %d does not refer back to its enclosing signal", what, k)
		}
	}
	return nil
}

// seqExcept lists 0..n-1 without k.
func seqExcept(n, k int) []int {
	var out []int
	for i := 0; i < n; i++ {
		if i != k {
			out = append(out, i)
		}
	}
	return out
}

func cmpSegDesc(what string, w *ref.SpliceDesc, d scte35.SegmentationDescriptor) *hx.Failure {
	if d.EventID() != w.Event || d.IsEventCanceled() != w.Cancel {
		return hx.Failf("seg-event", "%s: event id %#x cancel %v, encoded %#x %v", what, d.EventID(), d.IsEventCanceled(), w.Event, w.Cancel)
	}
	if w.Cancel {
		return nil
	}
	if d.HasProgramSegmentation() != w.Prog || d.HasDuration() != w.Dur || d.IsDeliveryNotRestricted() != w.NotRestricted {
		return hx.Failf("seg-flags", "%s: program_segmentation/duration/not_restricted = %v/%v/%v, encoded %v/%v/%v", what, d.HasProgramSegmentation(), d.HasDuration(), d.IsDeliveryNotRestricted(), w.Prog, w.Dur, w.NotRestricted)
	}
	if !w.NotRestricted && (d.IsWebDeliveryAllowed() != w.Web || d.HasNoRegionalBlackout() != w.NoBlackout || d.IsArchiveAllowed() != w.Archive || byte(d.DeviceRestrictions()) != w.Device) {
		return hx.Failf("seg-restrictions", "%s: web/no_blackout/archive/device = %v/%v/%v/%d, encoded %v/%v/%v/%d", what, d.IsWebDeliveryAllowed(), d.HasNoRegionalBlackout(), d.IsArchiveAllowed(), d.DeviceRestrictions(), w.Web, w.NoBlackout, w.Archive, w.Device)
	}
	if !w.Prog {
		cs := d.Components()
		if len(cs) != len(w.Comps) {
			return hx.Failf("seg-components", "%s: %d components decoded, %d encoded", what, len(cs), len(w.Comps))
		}
		for j, c := range cs {
			if c.ComponentTag() != w.Comps[j].Tag {
				return hx.Failf("seg-components", "%s: component %d tag %#x, encoded %#x", what, j, c.ComponentTag(), w.Comps[j].Tag)
			}
			if u33(c.PTSOffset()) != w.Comps[j].Offset {
				return hx.Failf("seg-component-offset", "%s: component %d pts_offset %d (%#x), encoded %d (%#x)", what, j, u33(c.PTSOffset()), u33(c.PTSOffset()), w.Comps[j].Offset, w.Comps[j].Offset)
			}
		}
	}
	if w.Dur && u33(d.Duration()) != w.Duration {
		return hx.Failf("seg-duration", "%s: segmentation_duration %#x, encoded %#x (40 bits)", what, u33(d.Duration()), w.Duration)
	}
	if byte(d.UPIDType()) != w.UPIDType {
		return hx.Failf("seg-upid-type", "%s: upid type %#x, encoded %#x", what, d.UPIDType(), w.UPIDType)
	}
	if w.UPIDType == 0x0D {
		ms := d.MID()
		if len(ms) != len(w.MID) {
			return hx.Failf("seg-mid", "%s: %d MID entries decoded, %d encoded", what, len(ms), len(w.MID))
		}
		for j, m := range ms {
			if byte(m.UPIDType()) != w.MID[j].Type || !sameBytes(m.UPID(), w.MID[j].Body) {
				return hx.Failf("seg-mid", "%s: MID entry %d (%#x, %x), encoded (%#x, %x)", what, j, m.UPIDType(), m.UPID(), w.MID[j].Type, []byte(w.MID[j].Body))
			}
		}
	} else if !sameBytes(d.UPID(), w.UPID) {
		return hx.Failf("seg-upid", "%s: upid %x, encoded %x", what, d.UPID(), []byte(w.UPID))
	}
	if byte(d.TypeID()) != w.Type || d.SegmentNumber() != w.Num || d.SegmentsExpected() != w.Expected || d.SegmentNum() != w.Num {
		return hx.Failf("seg-type-num", "%s: type/num/expected %#x/%d/%d, encoded %#x/%d/%d", what, d.TypeID(), d.SegmentNumber(), d.SegmentsExpected(), w.Type, w.Num, w.Expected)
	}
	if w.Type == 0x34 || w.Type == 0x36 {
		if d.HasSubSegments() != w.HasSub || (w.HasSub && (d.SubSegmentNumber() != w.SubNum || d.SubSegmentsExpected() != w.SubExpected)) {
			return hx.Failf("seg-subsegments", "%s: sub-segment fields (%v, %d, %d), encoded (%v, %d, %d)", what, d.HasSubSegments(), d.SubSegmentNumber(), d.SubSegmentsExpected(), w.HasSub, w.SubNum, w.SubExpected)
		}
	}
	return nil
}

// spliceNT is the shared non-triviality rule of C08/C09.
func spliceNT(m *ref.Splice) (bool, []string) {
	var labels []string
	nt := false
	if m.Cmd == 0x05 && (m.Ins.Cancel || !m.Ins.Prog || m.Ins.Immediate) {
		nt = true
		if m.Ins.Cancel {
			labels = append(labels, "insert-cancelled")
		} else if !m.Ins.Prog {
			labels = append(labels, "insert-component-mode")
		} else {
			labels = append(labels, "insert-immediate")
		}
	}
	high := m.Adj>>32 != 0 || m.TSPTS>>32 != 0 || m.Ins.PTS>>32 != 0 || m.Ins.Duration>>32 != 0
	shapes := map[string]bool{}
	for _, d := range m.Descs {
		switch {
		case d.Foreign:
			shapes["foreign"] = true
		case d.Cancel:
			shapes["cancelled"] = true
		case d.UPIDType == 0x0D:
			shapes["mid"] = true
		case !d.Prog:
			shapes["components"] = true
		default:
			shapes["plain"] = true
		}
		if !d.Foreign && (d.Duration>>32 != 0) {
			high = true
		}
		for _, c := range d.Comps {
			if c.Offset>>32 != 0 {
				high = true
			}
		}
	}
	if high {
		nt = true
		labels = append(labels, "field-with-bit>=32")
	}
	if len(shapes) >= 2 {
		nt = true
		labels = append(labels, ">=2-descriptor-shapes")
	}
	if shapes["foreign"] {
		labels = append(labels, "foreign-descriptor")
	}
	labels = append(labels, fmt.Sprintf("cmd=%#x", m.Cmd))
	return nt, labels
}

// buildSpliceAPI realises the model through the creation and setter API, with
// redundant set/clear noise selected by the bits of noise. It returns nil when
// the model is not expressible through the API (foreign descriptors, insert
// components, protocol version / cw_index / encryption algorithm).
func buildSpliceAPI(m *ref.Splice, noise uint32) scte35.SCTE35 {
	return buildSpliceAPIAlloc(m, noise, clone)
}

// buildSpliceAPIAlloc is buildSpliceAPI with the caller choosing where the byte
// slices handed to the setters live (see c09State.window).
func buildSpliceAPIAlloc(m *ref.Splice, noise uint32, alloc func([]byte) []byte) scte35.SCTE35 {
	nz := func(bit uint) bool { return noise&(1<<bit) != 0 }
	s := scte35.CreateSCTE35()
	if nz(0) {
		s.SetTier(0x0ABC)
	}
	tier := m.Tier
	if nz(1) {
		tier |= 0xF000 // out-of-width bits must be truncated
	}
	s.SetTier(tier)
	switch m.Cmd {
	case 0x00:
		if nz(2) {
			s.SetCommandInfo(scte35.CreateSpliceNull())
		}
	case 0x06:
		c := scte35.CreateTimeSignalCommand()
		// values first, presence flags last: whether a value setter also raises its flag is not stated
		pts := gots.PTS(m.TSPTS)
		if nz(4) {
			pts |= 0xF << 33
		}
		c.SetPTS(pts)
		if nz(3) {
			c.SetHasPTS(!m.TSHasPTS)
		}
		c.SetHasPTS(m.TSHasPTS)
		s.SetCommandInfo(c)
	case 0x05:
		i := m.Ins
		c := scte35.CreateSpliceInsertCommand()
		c.SetEventID(i.Event)
		if nz(5) {
			c.SetIsEventCanceled(!i.Cancel)
		}
		c.SetIsEventCanceled(i.Cancel)
		if nz(6) {
			c.SetIsOut(!i.Out)
		}
		c.SetIsOut(i.Out)
		if nz(7) {
			c.SetIsProgramSplice(!i.Prog)
		}
		c.SetIsProgramSplice(i.Prog)
		// values first, presence flags last (see time_signal)
		pts := gots.PTS(i.PTS)
		if nz(4) {
			pts |= 0x5 << 33
		}
		c.SetPTS(pts)
		dur := gots.PTS(i.Duration)
		if nz(11) {
			dur |= 0x3 << 33
		}
		c.SetDuration(dur)
		c.SetIsAutoReturn(i.AutoReturn)
		if nz(8) {
			c.SetHasDuration(!i.Dur)
		}
		c.SetHasDuration(i.Dur)
		if nz(9) {
			c.SetSpliceImmediate(!i.Immediate)
		}
		c.SetSpliceImmediate(i.Immediate)
		if nz(10) {
			c.SetHasPTS(!i.HasPTS)
		}
		c.SetHasPTS(i.HasPTS)
		c.SetUniqueProgramId(i.UniqueID)
		c.SetAvailNum(i.Avail)
		c.SetAvailsExpected(i.Avails)
		s.SetCommandInfo(c)
	}
	// the command's own pts field (kept even when it is not encoded)
	var cmdPTS uint64
	switch m.Cmd {
	case 0x06:
		cmdPTS = m.TSPTS
	case 0x05:
		cmdPTS = m.Ins.PTS
	}
	s.SetAdjustPTS(gots.PTS((cmdPTS + m.Adj) & (1<<33 - 1)))
	var ds []scte35.SegmentationDescriptor
	for _, w := range m.Descs {
		d := scte35.CreateSegmentationDescriptor()
		d.SetEventID(w.Event)
		if nz(12) {
			d.SetIsEventCanceled(!w.Cancel)
		}
		d.SetIsEventCanceled(w.Cancel)
		if nz(13) {
			d.SetHasProgramSegmentation(!w.Prog)
		}
		d.SetHasProgramSegmentation(w.Prog)
		if nz(14) {
			d.SetHasDuration(!w.Dur)
		}
		d.SetHasDuration(w.Dur)
		dur := gots.PTS(w.Duration)
		if nz(15) {
			dur |= 0xAB << 40
		}
		d.SetDuration(dur)
		if nz(16) {
			d.SetIsDeliveryNotRestricted(!w.NotRestricted)
		}
		d.SetIsDeliveryNotRestricted(w.NotRestricted)
		d.SetIsWebDeliveryAllowed(w.Web)
		d.SetHasNoRegionalBlackout(w.NoBlackout)
		d.SetIsArchiveAllowed(w.Archive)
		d.SetDeviceRestrictions(scte35.DeviceRestrictions(w.Device))
		var cs []scte35.ComponentOffset
		for _, c := range w.Comps {
			co := scte35.CreateComponentOffset()
			co.SetComponentTag(c.Tag)
			co.SetPTSOffset(gots.PTS(c.Offset))
			cs = append(cs, co)
		}
		d.SetComponents(cs)
		if nz(17) { // switch UPID kinds back and forth first
			d.SetUPIDType(0x0D)
			u := scte35.CreateUPID()
			u.SetUPIDType(9)
			u.SetUPID([]byte("junk"))
			d.SetMID([]scte35.UPID{u})
			d.SetUPIDType(8)
			d.SetUPID([]byte("more junk"))
		}
		if nz(18) {
			d.SetUPIDType(0x0D)
			u := scte35.CreateUPID()
			u.SetUPIDType(3)
			u.SetUPID([]byte("x"))
			d.SetMID([]scte35.UPID{u, u})
		}
		d.SetUPIDType(scte35.SegUPIDType(w.UPIDType))
		if w.UPIDType == 0x0D {
			var ms []scte35.UPID
			for _, e := range w.MID {
				u := scte35.CreateUPID()
				u.SetUPIDType(scte35.SegUPIDType(e.Type))
				u.SetUPID(alloc(e.Body))
				ms = append(ms, u)
			}
			d.SetMID(ms)
		} else {
			d.SetUPID(alloc(w.UPID))
		}
		if nz(19) {
			d.SetTypeID(0x34)
			d.SetHasSubSegments(true)
		}
		d.SetTypeID(scte35.SegDescType(w.Type))
		d.SetSegmentNumber(w.Num)
		d.SetSegmentsExpected(w.Expected)
		// documented interaction: SetTypeID clears the sub-segment flag for other types; set it explicitly afterwards
		d.SetHasSubSegments(w.HasSub)
		if w.HasSub {
			// value setters only for fields the caller wants present (whether they imply the flag is not stated)
			d.SetSubSegmentNumber(w.SubNum)
			d.SetSubSegmentsExpected(w.SubExpected)
		}
		ds = append(ds, d)
	}
	s.SetDescriptors(ds)
	return s
}

// apiExpressible strips what the creation API cannot express and returns the adjusted model.
func apiExpressible(m ref.Splice) ref.Splice {
	m.Proto, m.CW, m.EncAlg, m.UnknownLen = 0, 0, 0, false
	var ds []ref.SpliceDesc
	for _, d := range m.Descs {
		if !d.Foreign {
			ds = append(ds, d)
		}
	}
	m.Descs = ds
	if m.Descs == nil {
		m.Descs = []ref.SpliceDesc{}
	}
	m.Ins.Comps = []ref.SpliceComp{}
	return m
}

func maskStuffing(b []byte, from, to int) []byte {
	c := clone(b)
	for i := from; i < to && i < len(c); i++ {
		c[i] = 0
	}
	return c
}

var _ = bytes.Equal
