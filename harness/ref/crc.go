package ref

// CRC32MPEG2Bitwise computes CRC-32/MPEG-2 straight from the definition:
// polynomial 0x04C11DB7, initial register 0xFFFFFFFF, input and output not
// reflected, no final XOR. Bit by bit, most significant bit first.
func CRC32MPEG2Bitwise(data []byte) uint32 {
	crc := uint32(0xFFFFFFFF)
	for _, b := range data {
		for i := 7; i >= 0; i-- {
			in := uint32(b>>uint(i)) & 1
			top := crc >> 31
			crc <<= 1
			if top^in != 0 {
				crc ^= 0x04C11DB7
			}
		}
	}
	return crc
}

var crcTable [256]uint32

func init() {
	for i := 0; i < 256; i++ {
		c := uint32(i) << 24
		for j := 0; j < 8; j++ {
			if c&0x80000000 != 0 {
				c = c<<1 ^ 0x04C11DB7
			} else {
				c <<= 1
			}
		}
		crcTable[i] = c
	}
	// self-check against the catalogue value for "123456789" and against the bitwise form
	if CRC32MPEG2([]byte("123456789")) != 0x0376E6E7 || CRC32MPEG2Bitwise([]byte("123456789")) != 0x0376E6E7 {
		panic("ref: CRC-32/MPEG-2 self-check failed")
	}
}

// CRC32MPEG2 is the table-driven twin of CRC32MPEG2Bitwise.
func CRC32MPEG2(data []byte) uint32 {
	crc := uint32(0xFFFFFFFF)
	for _, b := range data {
		crc = crc<<8 ^ crcTable[byte(crc>>24)^b]
	}
	return crc
}
