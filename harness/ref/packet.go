// Package ref holds the reference models of the harness. They are written
// from ISO/IEC 13818-1, SCTE 35, the EBP specifications and the CRC-32/MPEG-2
// definition and import nothing from the library under test.
package ref

import (
	"encoding/hex"
	"encoding/json"
	"fmt"
)

// Hex is a byte slice that marshals to a hex string (readable replay files).
type Hex []byte

func (h Hex) MarshalJSON() ([]byte, error) { return json.Marshal(hex.EncodeToString(h)) }
func (h *Hex) UnmarshalJSON(b []byte) error {
	var s string
	if err := json.Unmarshal(b, &s); err != nil {
		return err
	}
	d, err := hex.DecodeString(s)
	if err != nil {
		return err
	}
	*h = d
	return nil
}

const PacketSize = 188

// AF is the logical adaptation field of ISO/IEC 13818-1 2.4.3.4/2.4.3.5.
// Len is adaptation_field_length. When Len is 0 nothing else exists.
type AF struct {
	Len    int   `json:"len"`
	Disc   bool  `json:"disc"`
	RA     bool  `json:"ra"`
	ESP    bool  `json:"esp"`
	PCR    *Hex  `json:"pcr,omitempty"`    // 6 raw bytes
	OPCR   *Hex  `json:"opcr,omitempty"`   // 6 raw bytes
	Splice *byte `json:"splice,omitempty"` // splice_countdown
	TPD    *Hex  `json:"tpd,omitempty"`    // transport private data (without its length byte)
	Ext    *Hex  `json:"ext,omitempty"`    // adaptation field extension (without its length byte)
}

// Content is the number of non-stuffing bytes after the length byte
// (flags byte + optional fields). 0 for a zero-length field.
func (a *AF) Content() int {
	if a.Len == 0 {
		return 0
	}
	n := 1
	if a.PCR != nil {
		n += 6
	}
	if a.OPCR != nil {
		n += 6
	}
	if a.Splice != nil {
		n++
	}
	if a.TPD != nil {
		n += 1 + len(*a.TPD)
	}
	if a.Ext != nil {
		n += 1 + len(*a.Ext)
	}
	return n
}

// Clone deep-copies the field.
func (a *AF) Clone() *AF {
	if a == nil {
		return nil
	}
	c := *a
	cp := func(h *Hex) *Hex {
		if h == nil {
			return nil
		}
		d := make(Hex, len(*h))
		copy(d, *h)
		return &d
	}
	c.PCR, c.OPCR, c.TPD, c.Ext = cp(a.PCR), cp(a.OPCR), cp(a.TPD), cp(a.Ext)
	if a.Splice != nil {
		s := *a.Splice
		c.Splice = &s
	}
	return &c
}

// Packet is the logical transport packet.
type Packet struct {
	Sync    byte `json:"sync"`
	TEI     bool `json:"tei"`
	PUSI    bool `json:"pusi"`
	TP      bool `json:"tp"`
	PID     int  `json:"pid"`
	TSC     int  `json:"tsc"`
	AFC     int  `json:"afc"` // 1 payload only, 2 adaptation field only, 3 both
	CC      int  `json:"cc"`
	AF      *AF  `json:"af,omitempty"`
	Payload Hex  `json:"payload"`
}

// Clone deep-copies the packet.
func (p *Packet) Clone() *Packet {
	c := *p
	c.AF = p.AF.Clone()
	c.Payload = append(Hex{}, p.Payload...)
	return &c
}

// HeaderLen is 4 plus the adaptation field (length byte + Len) when flagged.
func (p *Packet) HeaderLen() int {
	if p.AFC&2 != 0 && p.AF != nil {
		return 5 + p.AF.Len
	}
	return 4
}

// Bytes serialises the packet. It returns an error when the logical value is
// not encodable in 188 bytes.
func (p *Packet) Bytes() ([PacketSize]byte, error) {
	var b [PacketSize]byte
	b[0] = p.Sync
	if p.TEI {
		b[1] |= 0x80
	}
	if p.PUSI {
		b[1] |= 0x40
	}
	if p.TP {
		b[1] |= 0x20
	}
	b[1] |= byte(p.PID>>8) & 0x1f
	b[2] = byte(p.PID)
	b[3] = byte(p.TSC&3)<<6 | byte(p.AFC&3)<<4 | byte(p.CC&0xf)
	i := 4
	if p.AFC&2 != 0 {
		a := p.AF
		if a == nil {
			return b, fmt.Errorf("AFC %d without AF", p.AFC)
		}
		if a.Len < 0 || 5+a.Len > PacketSize {
			return b, fmt.Errorf("af_len %d out of range", a.Len)
		}
		if a.Content() > a.Len {
			return b, fmt.Errorf("af content %d exceeds af_len %d", a.Content(), a.Len)
		}
		b[4] = byte(a.Len)
		i = 5
		if a.Len > 0 {
			var f byte
			if a.Disc {
				f |= 0x80
			}
			if a.RA {
				f |= 0x40
			}
			if a.ESP {
				f |= 0x20
			}
			if a.PCR != nil {
				f |= 0x10
			}
			if a.OPCR != nil {
				f |= 0x08
			}
			if a.Splice != nil {
				f |= 0x04
			}
			if a.TPD != nil {
				f |= 0x02
			}
			if a.Ext != nil {
				f |= 0x01
			}
			b[i] = f
			i++
			if a.PCR != nil {
				if len(*a.PCR) != 6 {
					return b, fmt.Errorf("pcr must be 6 bytes")
				}
				copy(b[i:], *a.PCR)
				i += 6
			}
			if a.OPCR != nil {
				if len(*a.OPCR) != 6 {
					return b, fmt.Errorf("opcr must be 6 bytes")
				}
				copy(b[i:], *a.OPCR)
				i += 6
			}
			if a.Splice != nil {
				b[i] = *a.Splice
				i++
			}
			if a.TPD != nil {
				b[i] = byte(len(*a.TPD))
				i++
				copy(b[i:], *a.TPD)
				i += len(*a.TPD)
			}
			if a.Ext != nil {
				b[i] = byte(len(*a.Ext))
				i++
				copy(b[i:], *a.Ext)
				i += len(*a.Ext)
			}
			for ; i < 5+a.Len; i++ {
				b[i] = 0xFF
			}
		}
	}
	if p.AFC&1 != 0 {
		if len(p.Payload) != PacketSize-i {
			return b, fmt.Errorf("payload is %d bytes, room is %d", len(p.Payload), PacketSize-i)
		}
		copy(b[i:], p.Payload)
	} else if i != PacketSize {
		return b, fmt.Errorf("adaptation-field-only packet must fill the packet (af_len 183), header ends at %d", i)
	}
	return b, nil
}

// MustBytes is Bytes for values known to be encodable.
func (p *Packet) MustBytes() [PacketSize]byte {
	b, err := p.Bytes()
	if err != nil {
		panic("ref.Packet.MustBytes: " + err.Error())
	}
	return b
}

// ParsePacket decodes 188 bytes. ok is false when the bytes are not a
// well-formed packet (AFC 00, adaptation field overrunning the packet,
// optional fields overrunning adaptation_field_length, stuffing not 0xFF, or
// an adaptation-field-only packet whose field does not fill the packet).
func ParsePacket(b [PacketSize]byte) (p *Packet, ok bool) {
	p = &Packet{Sync: b[0]}
	p.TEI = b[1]&0x80 != 0
	p.PUSI = b[1]&0x40 != 0
	p.TP = b[1]&0x20 != 0
	p.PID = int(b[1]&0x1f)<<8 | int(b[2])
	p.TSC = int(b[3] >> 6)
	p.AFC = int(b[3]>>4) & 3
	p.CC = int(b[3] & 0xf)
	if p.AFC == 0 {
		return p, false
	}
	i := 4
	if p.AFC&2 != 0 {
		a := &AF{Len: int(b[4])}
		p.AF = a
		end := 5 + a.Len
		if end > PacketSize {
			return p, false
		}
		i = 5
		if a.Len > 0 {
			f := b[i]
			i++
			a.Disc, a.RA, a.ESP = f&0x80 != 0, f&0x40 != 0, f&0x20 != 0
			take := func(n int) (Hex, bool) {
				if i+n > end {
					return nil, false
				}
				h := append(Hex{}, b[i:i+n]...)
				i += n
				return h, true
			}
			if f&0x10 != 0 {
				h, k := take(6)
				if !k {
					return p, false
				}
				a.PCR = &h
			}
			if f&0x08 != 0 {
				h, k := take(6)
				if !k {
					return p, false
				}
				a.OPCR = &h
			}
			if f&0x04 != 0 {
				h, k := take(1)
				if !k {
					return p, false
				}
				s := h[0]
				a.Splice = &s
			}
			if f&0x02 != 0 {
				l, k := take(1)
				if !k {
					return p, false
				}
				h, k := take(int(l[0]))
				if !k {
					return p, false
				}
				a.TPD = &h
			}
			if f&0x01 != 0 {
				l, k := take(1)
				if !k {
					return p, false
				}
				h, k := take(int(l[0]))
				if !k {
					return p, false
				}
				a.Ext = &h
			}
			for ; i < end; i++ {
				if b[i] != 0xFF {
					return p, false
				}
			}
		}
		i = end
	}
	if p.AFC&1 != 0 {
		p.Payload = append(Hex{}, b[i:]...)
	} else {
		p.Payload = Hex{}
		if i != PacketSize {
			return p, false
		}
	}
	return p, true
}

// PCR field codec (ISO/IEC 13818-1 2.4.3.5): 33-bit base, 6 reserved bits, 9-bit extension.

// EncodePCR returns the 6 bytes of base/ext with reserved bits 1.
func EncodePCR(base uint64, ext uint16) [6]byte {
	var v uint64 // 48 bits
	v = (base&0x1FFFFFFFF)<<15 | uint64(0x3F)<<9 | uint64(ext&0x1FF)
	var b [6]byte
	for i := 0; i < 6; i++ {
		b[i] = byte(v >> (8 * uint(5-i)))
	}
	return b
}

// DecodePCR extracts base and extension from 6 bytes, ignoring the reserved bits.
func DecodePCR(b []byte) (base uint64, ext uint16) {
	var v uint64
	for i := 0; i < 6; i++ {
		v = v<<8 | uint64(b[i])
	}
	return v >> 15, uint16(v & 0x1FF)
}

// PTS field codec (ISO/IEC 13818-1 2.4.3.7): 4 prefix bits, PTS[32..30], marker,
// PTS[29..15], marker, PTS[14..0], marker.

// EncodePTS returns the 5 bytes with the given 4-bit prefix and marker bits 1.
func EncodePTS(prefix byte, pts uint64) [5]byte {
	var v uint64 // 40 bits
	v = uint64(prefix&0xF)<<36 | ((pts>>30)&0x7)<<33 | 1<<32 | ((pts>>15)&0x7FFF)<<17 | 1<<16 | (pts&0x7FFF)<<1 | 1
	var b [5]byte
	for i := 0; i < 5; i++ {
		b[i] = byte(v >> (8 * uint(4-i)))
	}
	return b
}

// DecodePTS extracts the 33-bit value from 5 bytes, ignoring prefix and markers.
func DecodePTS(b []byte) uint64 {
	var v uint64
	for i := 0; i < 5; i++ {
		v = v<<8 | uint64(b[i])
	}
	return ((v>>33)&0x7)<<30 | ((v>>17)&0x7FFF)<<15 | (v>>1)&0x7FFF
}
