package ref

// Reference model of the splice_info_section syntax of SCTE 35 (section 9)
// for the commands splice_null, splice_insert and time_signal, segmentation
// descriptors and foreign descriptors. Written from the standard's syntax
// tables; imports nothing from the library under test.

type SpliceComp struct {
	Tag    byte   `json:"tag"`
	HasPTS bool   `json:"has_pts"`
	PTS    uint64 `json:"pts"`
}

type SpliceInsert struct {
	Event      uint32       `json:"event"`
	Cancel     bool         `json:"cancel"`
	Out        bool         `json:"out"`
	Prog       bool         `json:"program_splice"`
	Dur        bool         `json:"duration_flag"`
	Immediate  bool         `json:"immediate"`
	HasPTS     bool         `json:"has_pts"` // time_specified_flag of the program splice_time
	PTS        uint64       `json:"pts"`
	Comps      []SpliceComp `json:"comps"`
	AutoReturn bool         `json:"auto_return"`
	Duration   uint64       `json:"duration"`
	UniqueID   uint16       `json:"unique_program_id"`
	Avail      byte         `json:"avail_num"`
	Avails     byte         `json:"avails_expected"`
}

type SegOffset struct {
	Tag    byte   `json:"tag"`
	Offset uint64 `json:"offset"`
}

type SegUPID struct {
	Type byte `json:"type"`
	Body Hex  `json:"body"`
}

type SpliceDesc struct {
	Foreign bool `json:"foreign,omitempty"`
	FTag    byte `json:"ftag,omitempty"`
	FBody   Hex  `json:"fbody,omitempty"`

	Identifier    uint32      `json:"identifier"` // 0x43554549 "CUEI"
	Event         uint32      `json:"event"`
	Cancel        bool        `json:"cancel"`
	Prog          bool        `json:"program_segmentation"`
	Dur           bool        `json:"duration_flag"`
	NotRestricted bool        `json:"delivery_not_restricted"`
	Web           bool        `json:"web"`
	NoBlackout    bool        `json:"no_blackout"`
	Archive       bool        `json:"archive"`
	Device        byte        `json:"device"`
	Comps         []SegOffset `json:"comps"`
	Duration      uint64      `json:"duration"` // 40 bits
	UPIDType      byte        `json:"upid_type"`
	UPID          Hex         `json:"upid"`
	MID           []SegUPID   `json:"mid"`
	Type          byte        `json:"type"`
	Num           byte        `json:"num"`
	Expected      byte        `json:"expected"`
	HasSub        bool        `json:"has_sub"`
	SubNum        byte        `json:"sub_num"`
	SubExpected   byte        `json:"sub_expected"`
}

type Splice struct {
	TableID    byte         `json:"table_id"` // 0xFC
	Proto      byte         `json:"protocol_version"`
	Encrypted  bool         `json:"encrypted"`
	EncAlg     byte         `json:"encryption_algorithm"` // 6 bits
	Adj        uint64       `json:"pts_adjustment"`       // 33 bits
	CW         byte         `json:"cw_index"`
	Tier       uint16       `json:"tier"` // 12 bits
	Cmd        byte         `json:"command_type"`
	TSHasPTS   bool         `json:"ts_time_specified"`
	TSPTS      uint64       `json:"ts_pts"`
	Ins        SpliceInsert `json:"insert"`
	RawCmd     Hex          `json:"raw_command,omitempty"`  // body for command types the model does not know
	UnknownLen bool         `json:"unknown_command_length"` // splice_command_length = 0xFFF
	Descs      []SpliceDesc `json:"descs"`
	Stuffing   int          `json:"alignment_stuffing"`
}

const CUEI = 0x43554549

func b33(v uint64, top byte) []byte {
	return []byte{top | byte(v>>32)&1, byte(v >> 24), byte(v >> 16), byte(v >> 8), byte(v)}
}

// SpliceTime encodes splice_time(): time_specified_flag, reserved bits 1, pts_time.
func SpliceTime(has bool, pts uint64) []byte {
	if has {
		return b33(pts, 0xFE)
	}
	return []byte{0x7F}
}

// Bytes encodes one splice descriptor (tag, length, body).
func (d *SpliceDesc) Bytes() []byte {
	if d.Foreign {
		return append([]byte{d.FTag, byte(len(d.FBody))}, d.FBody...)
	}
	b := []byte{byte(d.Identifier >> 24), byte(d.Identifier >> 16), byte(d.Identifier >> 8), byte(d.Identifier),
		byte(d.Event >> 24), byte(d.Event >> 16), byte(d.Event >> 8), byte(d.Event)}
	if d.Cancel {
		b = append(b, 0xFF)
	} else {
		b = append(b, 0x7F)
		var f byte
		if d.Prog {
			f |= 0x80
		}
		if d.Dur {
			f |= 0x40
		}
		if d.NotRestricted {
			f |= 0x3F
		} else {
			if d.Web {
				f |= 0x10
			}
			if d.NoBlackout {
				f |= 0x08
			}
			if d.Archive {
				f |= 0x04
			}
			f |= d.Device & 3
		}
		b = append(b, f)
		if !d.Prog {
			b = append(b, byte(len(d.Comps)))
			for _, c := range d.Comps {
				b = append(b, c.Tag)
				b = append(b, b33(c.Offset, 0xFE)...)
			}
		}
		if d.Dur {
			b = append(b, byte(d.Duration>>32), byte(d.Duration>>24), byte(d.Duration>>16), byte(d.Duration>>8), byte(d.Duration))
		}
		var u []byte
		if d.UPIDType == 0x0D {
			for _, m := range d.MID {
				u = append(u, m.Type, byte(len(m.Body)))
				u = append(u, m.Body...)
			}
		} else {
			u = d.UPID
		}
		b = append(b, d.UPIDType, byte(len(u)))
		b = append(b, u...)
		b = append(b, d.Type, d.Num, d.Expected)
		if d.HasSub {
			b = append(b, d.SubNum, d.SubExpected)
		}
	}
	return append([]byte{0x02, byte(len(b))}, b...)
}

// CommandBytes encodes the splice command body.
func (s *Splice) CommandBytes() []byte {
	switch s.Cmd {
	case 0x00:
		return []byte{}
	case 0x06:
		return SpliceTime(s.TSHasPTS, s.TSPTS)
	case 0x05:
		i := s.Ins
		cmd := []byte{byte(i.Event >> 24), byte(i.Event >> 16), byte(i.Event >> 8), byte(i.Event)}
		if i.Cancel {
			return append(cmd, 0xFF)
		}
		cmd = append(cmd, 0x7F)
		f := byte(0x0F)
		if i.Out {
			f |= 0x80
		}
		if i.Prog {
			f |= 0x40
		}
		if i.Dur {
			f |= 0x20
		}
		if i.Immediate {
			f |= 0x10
		}
		cmd = append(cmd, f)
		if i.Prog && !i.Immediate {
			cmd = append(cmd, SpliceTime(i.HasPTS, i.PTS)...)
		}
		if !i.Prog {
			cmd = append(cmd, byte(len(i.Comps)))
			for _, c := range i.Comps {
				cmd = append(cmd, c.Tag)
				if !i.Immediate {
					cmd = append(cmd, SpliceTime(c.HasPTS, c.PTS)...)
				}
			}
		}
		if i.Dur {
			top := byte(0x7E)
			if i.AutoReturn {
				top |= 0x80
			}
			cmd = append(cmd, b33(i.Duration, top)...)
		}
		return append(cmd, byte(i.UniqueID>>8), byte(i.UniqueID), i.Avail, i.Avails)
	}
	return s.RawCmd
}

// CarriesTime reports whether the command carries a pts_time that defines the signal PTS.
func (s *Splice) CarriesTime() (bool, uint64) {
	switch s.Cmd {
	case 0x06:
		return s.TSHasPTS, s.TSPTS
	case 0x05:
		if !s.Ins.Cancel && s.Ins.Prog && !s.Ins.Immediate && s.Ins.HasPTS {
			return true, s.Ins.PTS
		}
	}
	return false, 0
}

// Encode serialises the whole section including CRC_32. Alignment stuffing bytes are 0.
func (s *Splice) Encode() []byte {
	cmd := s.CommandBytes()
	var loop []byte
	for i := range s.Descs {
		loop = append(loop, s.Descs[i].Bytes()...)
	}
	cl := len(cmd)
	if s.UnknownLen {
		cl = 0xFFF
	}
	enc := (s.EncAlg & 0x3F) << 1
	if s.Encrypted {
		enc |= 0x80
	}
	body := []byte{s.Proto}
	body = append(body, b33(s.Adj, enc)...)
	body = append(body, s.CW, byte(s.Tier>>4), byte(s.Tier<<4)|byte(cl>>8)&0x0F, byte(cl), s.Cmd)
	body = append(body, cmd...)
	body = append(body, byte(len(loop)>>8), byte(len(loop)))
	body = append(body, loop...)
	body = append(body, make([]byte, s.Stuffing)...)
	sl := len(body) + 4
	sec := append([]byte{s.TableID, 0x30 | byte(sl>>8)&0x0F, byte(sl)}, body...)
	c := CRC32MPEG2(sec)
	return append(sec, byte(c>>24), byte(c>>16), byte(c>>8), byte(c))
}

// StuffingRange returns the [from,to) offsets of the alignment stuffing bytes in Encode().
func (s *Splice) StuffingRange() (int, int) {
	n := len(s.Encode())
	return n - 4 - s.Stuffing, n - 4
}

// Canonical reports whether the library's normal form can reproduce the
// section byte for byte: real command length and no foreign descriptor after
// a segmentation descriptor.
func (s *Splice) Canonical() bool {
	if s.UnknownLen || s.Stuffing != 0 {
		return false
	}
	seenSeg := false
	for _, d := range s.Descs {
		if !d.Foreign {
			seenSeg = true
		} else if seenSeg {
			return false
		}
	}
	return true
}
