package ref

// PES is the logical start of a PES packet (ISO/IEC 13818-1 2.4.3.6/2.4.3.7).
type PES struct {
	Prefix   Hex    `json:"prefix"` // 3 bytes, 00 00 01 when well-formed
	StreamID byte   `json:"stream_id"`
	Length   uint16 `json:"length"`
	// optional header, only for stream ids that carry it
	Scrambling int     `json:"scrambling"` // 2 bits
	Priority   bool    `json:"priority"`
	Align      bool    `json:"align"`
	Copyright  bool    `json:"copyright"`
	Original   bool    `json:"original"`
	PTSDTS     int     `json:"pts_dts_flags"` // 0, 2 or 3
	PTS        uint64  `json:"pts"`
	DTS        uint64  `json:"dts"`
	ESCR       bool    `json:"escr"`
	ESRate     bool    `json:"es_rate"`
	Trick      bool    `json:"trick"`
	CopyInfo   bool    `json:"copy_info"`
	CRC        bool    `json:"crc"`
	Ext        bool    `json:"ext"`
	TREF       *uint64 `json:"tref,omitempty"` // with Ext: the extension carries a TREF field (it is not a DTS)
	OptFill    byte    `json:"opt_fill"`       // value bits of the flag-driven optional fields
	Stuffing   int     `json:"stuffing"`       // 0xFF stuffing bytes inside the header
	Data       Hex     `json:"data"`
}

// PESHasOptionalHeader reports whether the stream id is followed by the
// optional PES header (Table 2-21: all ids except program_stream_map,
// padding_stream, private_stream_2, ECM, EMM, program_stream_directory,
// DSMCC_stream and ITU-T H.222.1 type E).
func PESHasOptionalHeader(id byte) bool {
	switch id {
	case 0xBC, 0xBE, 0xBF, 0xF0, 0xF1, 0xFF, 0xF2, 0xF8:
		return false
	}
	return true
}

// HeaderDataLength is PES_header_data_length of the logical value.
func (p *PES) HeaderDataLength() int {
	n := 0
	switch p.PTSDTS {
	case 2:
		n += 5
	case 3:
		n += 10
	}
	if p.ESCR {
		n += 6
	}
	if p.ESRate {
		n += 3
	}
	if p.Trick {
		n++
	}
	if p.CopyInfo {
		n++
	}
	if p.CRC {
		n += 2
	}
	if p.Ext {
		n++
		if p.TREF != nil {
			n += 7
		}
	}
	return n + p.Stuffing
}

// Bytes serialises the PES packet start followed by its data.
func (p *PES) Bytes() []byte {
	out := append([]byte{}, p.Prefix...)
	out = append(out, p.StreamID, byte(p.Length>>8), byte(p.Length))
	if !PESHasOptionalHeader(p.StreamID) {
		return append(out, p.Data...)
	}
	f1 := byte(0x80) | byte(p.Scrambling&3)<<4
	if p.Priority {
		f1 |= 0x08
	}
	if p.Align {
		f1 |= 0x04
	}
	if p.Copyright {
		f1 |= 0x02
	}
	if p.Original {
		f1 |= 0x01
	}
	f2 := byte(p.PTSDTS&3) << 6
	if p.ESCR {
		f2 |= 0x20
	}
	if p.ESRate {
		f2 |= 0x10
	}
	if p.Trick {
		f2 |= 0x08
	}
	if p.CopyInfo {
		f2 |= 0x04
	}
	if p.CRC {
		f2 |= 0x02
	}
	if p.Ext {
		f2 |= 0x01
	}
	out = append(out, f1, f2, byte(p.HeaderDataLength()))
	switch p.PTSDTS {
	case 2:
		e := EncodePTS(0x2, p.PTS)
		out = append(out, e[:]...)
	case 3:
		e := EncodePTS(0x3, p.PTS)
		out = append(out, e[:]...)
		d := EncodePTS(0x1, p.DTS)
		out = append(out, d[:]...)
	}
	fill := func(n int) {
		for i := 0; i < n; i++ {
			out = append(out, p.OptFill)
		}
	}
	// the fields are filled with OptFill in their value bits; reserved and marker bits are 1 and the values are legal ones
	// (ESCR_extension at most 299, ES_rate not 0), as in a well-formed header
	if p.ESCR {
		fill(6)
		e := out[len(out)-6:]
		e[0] |= 0xC4
		e[2] |= 0x04
		e[4] = e[4]&^0x02 | 0x04 // ESCR_extension bit 8 clear: at most 255
		e[5] |= 0x01
	}
	if p.ESRate {
		fill(3)
		e := out[len(out)-3:]
		e[0] |= 0x80
		e[2] |= 0x01
		if e[0]&0x7F == 0 && e[1] == 0 && e[2]&0xFE == 0 {
			e[1] = 1
		}
	}
	if p.Trick {
		fill(1)
	}
	if p.CopyInfo {
		fill(1)
		out[len(out)-1] |= 0x80
	}
	if p.CRC {
		fill(2)
	}
	if p.Ext && p.TREF != nil {
		// PES_extension_flag_2 with the TREF field (H.222.0 2012 and later): flags byte with reserved bits 1 and
		// flag_2, marker + PES_extension_field_length 6, stream_id_extension_flag 1 / reserved / tref_extension_flag 0,
		// then TREF in the layout of a time stamp with prefix 1111
		e := EncodePTS(0xF, *p.TREF)
		out = append(out, 0x0F, 0x80|6, 0xFE)
		out = append(out, e[:]...)
	} else if p.Ext {
		out = append(out, 0x0E) // no extension sub-fields, reserved bits 1
	}
	for i := 0; i < p.Stuffing; i++ {
		out = append(out, 0xFF)
	}
	return append(out, p.Data...)
}
