package ref

import (
	"strconv"
	"strings"
)

// Frozen transcription of the library's documented closing-rule table and
// in/out lists at the pinned commit, typed in by hand as
// incoming type -> open type -> rule kind:
//
//	T  closes unconditionally (the table's Normal, Unconditional and the two
//	   breakaway kinds, which the descriptor-level relation treats as true)
//	E  closes when the event ids are equal
//	D  closes when the two signals' PTS values differ
//	X  closes when the event ids are equal and the incoming segment number
//	   equals its segments expected (placement opportunity ends)
var closeRulesText = map[byte]string{
	0x10: "10:T 14:T 17:T 19:T 20:T 22:T 24:T 26:T 30:T 34:T 36:T 3C:T 40:T 42:T 44:T",
	0x11: "10:E 14:E 17:E 19:E 20:T 22:T 24:T 26:T 30:T 34:T 36:T 3C:T 40:T 42:T 44:T",
	0x12: "10:E 14:E 17:E 19:E 20:T 30:T 32:T 34:T 36:T",
	0x13: "20:T 30:T 32:T 34:T 36:T",
	0x14: "10:T 17:T 19:T 20:T 30:T 32:T 34:T 36:T",
	0x19: "10:T 14:T 17:T 19:T 20:T 30:T 32:T 34:T 36:T",
	0x20: "20:T 30:T 32:T 34:T 36:T",
	0x21: "20:E 30:T 32:T 34:T 36:T",
	0x22: "20:T 22:T 24:T 26:T 30:T 34:T 36:T 3C:T 44:T",
	0x23: "22:E 30:T 34:T 36:T 3C:T 44:T",
	0x24: "20:T 22:T 24:T 26:T 30:T 34:T 36:T 3C:T 44:T",
	0x25: "24:E 30:T 34:T 36:T 3C:T 44:T",
	0x26: "20:T 22:T 24:T 26:T 30:T 34:T 36:T 3C:T 44:T",
	0x27: "26:E 30:T 34:T 36:T 3C:T 44:T",
	0x30: "30:T 32:T",
	0x31: "30:E",
	0x32: "30:T 32:T",
	0x33: "32:E",
	0x34: "30:D 3C:D 44:D",
	0x35: "30:T 34:X 3C:T 44:T",
	0x36: "30:D 3C:D 44:D",
	0x37: "30:T 36:X 3C:T 44:T",
	0x3C: "30:T 3C:T",
	0x3D: "3C:E",
	0x40: "40:T 13:T",
	0x41: "40:E 13:T",
	0x42: "20:T 22:T 24:T 26:T 30:T 34:T 36:T 3C:T 42:T 44:T",
	0x43: "20:T 22:T 24:T 26:T 30:T 34:T 36:T 3C:T 42:E 44:T",
	0x44: "30:D 3C:D 44:T",
	0x45: "30:T 3C:T 44:E",
	0x50: "10:T 14:T 17:T 19:T 20:T 30:T 32:T 34:T 36:T 40:T 50:T 13:T",
	0x51: "10:T 14:T 17:T 19:T 20:T 30:T 32:T 34:T 36:T 40:T 50:E 13:T",
}

// CloseRule returns the rule kind for (incoming, open), 0 when there is none.
func CloseRule(incoming, open byte) byte {
	return closeRules[incoming][open]
}

var closeRules = map[byte]map[byte]byte{}

func init() {
	for in, text := range closeRulesText {
		m := map[byte]byte{}
		for _, f := range strings.Fields(text) {
			p := strings.Split(f, ":")
			v, err := strconv.ParseUint(p[0], 16, 8)
			if err != nil || len(p) != 2 || len(p[1]) != 1 {
				panic("ref: bad close rule " + f)
			}
			m[byte(v)] = p[1][0]
		}
		closeRules[in] = m
	}
}

// CanClose is the closing relation on the finite abstraction.
func CanClose(incoming, open byte, eventEq, ptsEq, numEqExpected bool) bool {
	switch CloseRule(incoming, open) {
	case 'T':
		return true
	case 'E':
		return eventEq
	case 'D':
		return !ptsEq
	case 'X':
		return eventEq && numEqExpected
	}
	return false
}

var outTypes = map[byte]bool{0x10: true, 0x14: true, 0x17: true, 0x19: true, 0x20: true, 0x22: true, 0x30: true, 0x32: true, 0x34: true, 0x36: true, 0x40: true, 0x44: true, 0x50: true}
var inTypes = map[byte]bool{0x11: true, 0x12: true, 0x13: true, 0x15: true, 0x16: true, 0x18: true, 0x21: true, 0x23: true, 0x31: true, 0x33: true, 0x35: true, 0x37: true, 0x41: true, 0x45: true, 0x51: true}

// IsOutType / IsInType are the documented out / in lists.
func IsOutType(t byte) bool { return outTypes[t] }
func IsInType(t byte) bool  { return inTypes[t] }
