package ref

// EBP is the logical encoder boundary point structure (Comcast 0xA9 and
// CableLabs 0xDF flavours, OC-SP-EBP-I01 and its Comcast predecessor).
type EBP struct {
	CableLabs bool   `json:"cablelabs"`
	FormatID  uint32 `json:"format_id"` // CableLabs only, "EBP0" normally
	Flags     byte   `json:"flags"`     // 0x80 fragment 0x40 segment 0x20 SAP 0x10 grouping 0x08 time 0x04 discontinuity/concealment 0x01 extension
	ExtFlags  byte   `json:"ext_flags"` // present when Flags&0x01; CableLabs: 0x80 = partition flag
	Sap       byte   `json:"sap"`
	Grouping  Hex    `json:"grouping"` // Comcast: one byte; CableLabs: chain of 7-bit ids
	Seconds   uint32 `json:"seconds"`
	Fraction  uint32 `json:"fraction"`
	Partition byte   `json:"partition"`
	Reserved  Hex    `json:"reserved"`
}

func (e *EBP) HasPartition() bool { return e.CableLabs && e.Flags&0x01 != 0 && e.ExtFlags&0x80 != 0 }

// Bytes serialises tag, length and body.
func (e *EBP) Bytes() []byte {
	var body []byte
	if e.CableLabs {
		body = append(body, byte(e.FormatID>>24), byte(e.FormatID>>16), byte(e.FormatID>>8), byte(e.FormatID))
	}
	body = append(body, e.Flags)
	if e.Flags&0x01 != 0 {
		body = append(body, e.ExtFlags)
	}
	if e.Flags&0x20 != 0 {
		body = append(body, e.Sap)
	}
	if e.Flags&0x10 != 0 {
		if e.CableLabs {
			for i, g := range e.Grouping {
				b := g & 0x7F
				if i < len(e.Grouping)-1 {
					b |= 0x80
				}
				body = append(body, b)
			}
		} else {
			body = append(body, e.Grouping[0])
		}
	}
	if e.Flags&0x08 != 0 {
		body = append(body, byte(e.Seconds>>24), byte(e.Seconds>>16), byte(e.Seconds>>8), byte(e.Seconds),
			byte(e.Fraction>>24), byte(e.Fraction>>16), byte(e.Fraction>>8), byte(e.Fraction))
	}
	if e.HasPartition() {
		body = append(body, e.Partition)
	}
	body = append(body, e.Reserved...)
	tag := byte(0xA9)
	if e.CableLabs {
		tag = 0xDF
	}
	return append([]byte{tag, byte(len(body))}, body...)
}

// NTP era instants as Unix seconds.
const (
	EBPEra1900Unix = -2208988800 // 1900-01-01T00:00:00Z
	EBPEra2036Unix = 2085978496  // 2036-02-07T06:28:16Z
)

// EBPTimeUnix converts the NTP-style time to (unix seconds, nanoseconds) with
// exact integer arithmetic: era + seconds + floor(fraction*10^9 / 2^32) ns.
func EBPTimeUnix(seconds, fraction uint32) (int64, int64) {
	ns := int64((uint64(fraction) * 1000000000) >> 32)
	if seconds&0x80000000 != 0 {
		return EBPEra1900Unix + int64(seconds), ns
	}
	return EBPEra2036Unix + int64(seconds), ns
}
