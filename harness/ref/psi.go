package ref

import "fmt"

// Descriptor is a tag/length/body triple (ISO/IEC 13818-1 2.6).
type Descriptor struct {
	Tag  byte `json:"tag"`
	Body Hex  `json:"body"`
}

func descBytes(ds []Descriptor) []byte {
	var out []byte
	for _, d := range ds {
		out = append(out, d.Tag, byte(len(d.Body)))
		out = append(out, d.Body...)
	}
	return out
}

// ESInfo is one elementary stream entry of a program map section.
type ESInfo struct {
	StreamType byte         `json:"stream_type"`
	PID        int          `json:"pid"`
	Descs      []Descriptor `json:"descs"`
}

// PMT is the logical TS_program_map_section (ISO/IEC 13818-1 2.4.4.8).
type PMT struct {
	Program     uint16       `json:"program"`
	Version     int          `json:"version"`
	CurrentNext bool         `json:"current_next"`
	PCRPID      int          `json:"pcr_pid"`
	Private     bool         `json:"private"` // private_indicator bit (normally 0)
	ProgDescs   []Descriptor `json:"prog_descs"`
	Streams     []ESInfo     `json:"streams"`
}

func sectionWrap(tableID byte, ssi, private bool, afterLength []byte) []byte {
	l := len(afterLength) + 4
	b1 := byte(0x30) | byte(l>>8)&0x0F
	if ssi {
		b1 |= 0x80
	}
	if private {
		b1 |= 0x40
	}
	out := []byte{tableID, b1, byte(l)}
	out = append(out, afterLength...)
	crc := CRC32MPEG2(out)
	return append(out, byte(crc>>24), byte(crc>>16), byte(crc>>8), byte(crc))
}

// Body returns the section bytes between section_length and CRC_32.
func (p *PMT) body() []byte {
	ver := byte(0xC0) | byte(p.Version&0x1F)<<1
	if p.CurrentNext {
		ver |= 1
	}
	pd := descBytes(p.ProgDescs)
	out := []byte{byte(p.Program >> 8), byte(p.Program), ver, 0, 0,
		0xE0 | byte(p.PCRPID>>8)&0x1F, byte(p.PCRPID),
		0xF0 | byte(len(pd)>>8)&0x0F, byte(len(pd))}
	out = append(out, pd...)
	for _, s := range p.Streams {
		d := descBytes(s.Descs)
		out = append(out, s.StreamType, 0xE0|byte(s.PID>>8)&0x1F, byte(s.PID), 0xF0|byte(len(d)>>8)&0x0F, byte(len(d)))
		out = append(out, d...)
	}
	return out
}

// SectionLength is the section_length the section will carry.
func (p *PMT) SectionLength() int { return len(p.body()) + 4 }

// Section serialises table_id .. CRC_32.
func (p *PMT) Section() []byte { return sectionWrap(0x02, true, p.Private, p.body()) }

// CRC is the CRC_32 field of Section().
func (p *PMT) CRC() uint32 {
	s := p.Section()
	n := len(s)
	return uint32(s[n-4])<<24 | uint32(s[n-3])<<16 | uint32(s[n-2])<<8 | uint32(s[n-1])
}

// Select returns a copy with only the streams whose PID is in keep (original order).
func (p *PMT) Select(keep map[int]bool) *PMT {
	c := *p
	c.Streams = nil
	for _, s := range p.Streams {
		if keep[s.PID] {
			c.Streams = append(c.Streams, s)
		}
	}
	return &c
}

// PATEntry is one program_number / PID pair.
type PATEntry struct {
	Program uint16 `json:"program"`
	PID     int    `json:"pid"`
}

// PAT is the logical program_association_section (2.4.4.3).
type PAT struct {
	TSID        uint16     `json:"tsid"`
	Version     int        `json:"version"`
	CurrentNext bool       `json:"current_next"`
	SecNum      int        `json:"section_number,omitempty"`
	LastSecNum  int        `json:"last_section_number,omitempty"`
	Entries     []PATEntry `json:"entries"`
}

// Section serialises table_id .. CRC_32.
func (p *PAT) Section() []byte {
	ver := byte(0xC0) | byte(p.Version&0x1F)<<1
	if p.CurrentNext {
		ver |= 1
	}
	out := []byte{byte(p.TSID >> 8), byte(p.TSID), ver, byte(p.SecNum), byte(p.LastSecNum)}
	for _, e := range p.Entries {
		out = append(out, byte(e.Program>>8), byte(e.Program), 0xE0|byte(e.PID>>8)&0x1F, byte(e.PID))
	}
	return sectionWrap(0x00, true, false, out)
}

// ForeignSection is a complete section of another table with a valid CRC.
func ForeignSection(tableID byte, body []byte) []byte {
	return sectionWrap(tableID, true, true, body)
}

// Carrier describes how a section travels in a PSI payload: pointer_field
// with 0xFF filler, complete sections of other tables before it, and
// trailing 0xFF stuffing after it.
type Carrier struct {
	Pointer  int   `json:"pointer"`
	Before   []Hex `json:"before"`
	Trailing int   `json:"trailing"`
}

// Payload builds pointer_field ++ filler ++ before... ++ section ++ 0xFF*.
func (c Carrier) Payload(section []byte) []byte {
	out := []byte{byte(c.Pointer)}
	for i := 0; i < c.Pointer; i++ {
		out = append(out, 0xFF)
	}
	for _, b := range c.Before {
		out = append(out, b...)
	}
	out = append(out, section...)
	for i := 0; i < c.Trailing; i++ {
		out = append(out, 0xFF)
	}
	return out
}

// SectionStart is the offset of the section inside Payload().
func (c Carrier) SectionStart() int {
	n := 1 + c.Pointer
	for _, b := range c.Before {
		n += len(b)
	}
	return n
}

// Packetise splits a PSI payload over packets of one PID. sizes[i] is the
// number of payload bytes packet i carries (1..184); the sizes must cover the
// payload, and when they cover more the remainder of the last packet's
// payload is 0xFF padding. A packet with fewer than 184 payload bytes gets
// adaptation-field stuffing (af_len 0 for 183).
func Packetise(payload []byte, pid int, cc int, sizes []int) ([]*Packet, error) {
	var out []*Packet
	off := 0
	for i, s := range sizes {
		if s < 1 || s > 184 {
			return nil, fmt.Errorf("packet payload size %d out of range", s)
		}
		p := &Packet{Sync: 0x47, PID: pid, CC: (cc + i) & 0xF, PUSI: i == 0}
		chunk := make([]byte, s)
		for j := range chunk {
			if off+j < len(payload) {
				chunk[j] = payload[off+j]
			} else {
				chunk[j] = 0xFF
			}
		}
		off += s
		p.Payload = chunk
		if s == 184 {
			p.AFC = 1
		} else {
			p.AFC = 3
			p.AF = &AF{Len: 183 - s}
		}
		out = append(out, p)
	}
	if off < len(payload) {
		return nil, fmt.Errorf("sizes cover %d of %d payload bytes", off, len(payload))
	}
	return out, nil
}
