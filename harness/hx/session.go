package hx

import (
	"fmt"

	"pgregory.net/rapid"
)

// Sessions: interference testing. A property's ordinary check looks at one
// case with fresh objects and reads results immediately. A session runs
// several cases in one process, keeps the library objects they returned,
// optionally damages them, reuses input memory, repeats inputs, and re-checks
// every retained result later. That is what exposes hidden state in the
// library: caches keyed on the last input, pooled or ring-allocated results,
// results aliasing internal buffers, lazily updated fields.

// Probe re-checks one retained result against the model; nil = still as expected.
type Probe func() *Failure

// SessionRun is what a property's session function returns for one case.
type SessionRun struct {
	Probes []Probe
	Mutate func() // damages the returned objects through their public API / returned slices; may be nil
	// Extend does something a caller may do with results it owns that leaves their own contents intact
	// (appending to a returned slice). It runs for EVERY step once all steps are done, oldest first; all
	// retained results must be unaffected. May be nil.
	Extend func()
}

// Arena hands out input memory. In reuse mode every request is served from
// the same backing arrays, the way a caller with one read buffer behaves.
type Arena struct {
	Reuse bool
	Slots map[string]interface{} // property-specific recycled objects (e.g. packet buffers)
	bufs  map[int][]byte
}

// Copy returns b copied into arena slot `slot`.
func (a *Arena) Copy(slot int, b []byte) []byte {
	if a == nil || !a.Reuse {
		c := make([]byte, len(b))
		copy(c, b)
		return c
	}
	if a.bufs == nil {
		a.bufs = map[int][]byte{}
	}
	if cap(a.bufs[slot]) < len(b) {
		a.bufs[slot] = make([]byte, len(b), len(b)+64)
	}
	buf := a.bufs[slot][:len(b)]
	copy(buf, b)
	a.bufs[slot] = buf
	return buf
}

type SessStep struct {
	Idx    int  `json:"idx"`
	Mutate bool `json:"mutate,omitempty"`
	Reuse  bool `json:"reuse,omitempty"`
}

type SessCase[C any] struct {
	Cases  []C        `json:"cases"`
	Plan   []SessStep `json:"plan"`
	Filler int        `json:"filler"`
}

// GenSession draws 1..3 cases (later ones optionally derived from the first
// by vary, which should keep sizes so that caches keyed on lengths are hit)
// and a plan of 2..6 steps with repeats, mutations and input-memory reuse.
func GenSession[C any](t *rapid.T, gen func(*rapid.T) C, vary func(*rapid.T, C) C) SessCase[C] {
	sc := SessCase[C]{}
	n := rapid.IntRange(1, 3).Draw(t, "sess-ncases")
	for i := 0; i < n; i++ {
		if i > 0 && vary != nil && rapid.IntRange(0, 2).Draw(t, "sess-vary") != 0 {
			sc.Cases = append(sc.Cases, vary(t, sc.Cases[0]))
		} else {
			sc.Cases = append(sc.Cases, gen(t))
		}
	}
	steps := rapid.IntRange(2, 6).Draw(t, "sess-steps")
	prev := 0
	for i := 0; i < steps; i++ {
		s := SessStep{}
		if i > 0 && rapid.IntRange(0, 2).Draw(t, "sess-repeat") == 0 {
			s.Idx = prev
		} else {
			s.Idx = rapid.IntRange(0, n-1).Draw(t, "sess-idx")
		}
		prev = s.Idx
		s.Mutate = rapid.IntRange(0, 2).Draw(t, "sess-mutate") == 0
		s.Reuse = rapid.IntRange(0, 2).Draw(t, "sess-reuse") == 0
		sc.Plan = append(sc.Plan, s)
	}
	sc.Filler = rapid.SampledFrom([]int{0, 0, 3, 40, 70}).Draw(t, "sess-filler")
	return sc
}

type heldProbe struct {
	p     Probe
	step  int
	arena bool
	idx   int
}

// RunSession interprets a session. run executes the library calls of one case
// (taking its input memory from the arena) and returns re-checkable probes.
func RunSession[C any](sc SessCase[C], x *Ctx, run func(c C, a *Arena) (SessionRun, *Failure)) *Failure {
	if len(sc.Cases) == 0 || len(sc.Plan) == 0 {
		return Failf("bad-case", "empty session")
	}
	arena := &Arena{}
	var held []heldProbe
	var extend []func()
	repeated, mutated, reused := false, false, false
	seen := map[int]bool{}
	recheck := func(when string) *Failure {
		for _, h := range held {
			if f := h.p(); f != nil {
				return Failf("session-retained-"+f.Key, "a result obtained at step %d (case %d) changed after %s: %s", h.step, h.idx, when, f.Msg)
			}
		}
		return nil
	}
	for i, st := range sc.Plan {
		if st.Idx < 0 || st.Idx >= len(sc.Cases) {
			return Failf("bad-case", "plan index out of range")
		}
		if seen[st.Idx] {
			repeated = true
		}
		seen[st.Idx] = true
		arena.Reuse = st.Reuse
		if st.Reuse {
			reused = true
			// results of earlier reuse steps may legitimately alias the shared input memory
			kept := held[:0]
			for _, h := range held {
				if !h.arena {
					kept = append(kept, h)
				}
			}
			held = kept
		}
		r, f := run(sc.Cases[st.Idx], arena)
		if f != nil {
			f.Msg = fmt.Sprintf("session step %d (case %d, reuse=%v): %s", i, st.Idx, st.Reuse, f.Msg)
			f.Key = "session-" + f.Key
			return f
		}
		if r.Extend != nil {
			extend = append(extend, r.Extend)
		}
		for _, p := range r.Probes {
			if f := p(); f != nil {
				return Failf("session-fresh-"+f.Key, "session step %d (case %d, reuse=%v, plan %+v): result differs from the model right after the call: %s", i, st.Idx, st.Reuse, sc.Plan, f.Msg)
			}
		}
		if f := recheck(fmt.Sprintf("step %d ran case %d (plan %+v)", i, st.Idx, sc.Plan)); f != nil {
			return f
		}
		if st.Mutate && r.Mutate != nil {
			mutated = true
			r.Mutate()
			// mutated objects are not held; everything else must be unaffected by the mutation
			if f := recheck(fmt.Sprintf("the results of step %d were modified through their public API (plan %+v)", i, sc.Plan)); f != nil {
				return f
			}
		} else {
			for _, p := range r.Probes {
				held = append(held, heldProbe{p: p, step: i, arena: st.Reuse, idx: st.Idx})
			}
		}
	}
	if len(extend) > 0 {
		for _, e := range extend {
			e()
		}
		if f := recheck(fmt.Sprintf("the caller appended to the slices returned by the earlier steps (plan %+v)", sc.Plan)); f != nil {
			return f
		}
	}
	// filler traffic: many more calls of the same kind, results discarded
	arena.Reuse = false
	for k := 0; k < sc.Filler; k++ {
		r, f := run(sc.Cases[k%len(sc.Cases)], arena)
		if f != nil {
			f.Key = "session-" + f.Key
			return f
		}
		for _, p := range r.Probes {
			if f := p(); f != nil {
				return Failf("session-fresh-"+f.Key, "filler run %d: %s", k, f.Msg)
			}
		}
	}
	if sc.Filler > 0 {
		if f := recheck(fmt.Sprintf("%d further calls of the same kind", sc.Filler)); f != nil {
			return f
		}
	}
	x.NT(repeated || mutated || reused || sc.Filler > 0)
	x.LabelIf(repeated, "session:repeated-input")
	x.LabelIf(mutated, "session:result-mutated")
	x.LabelIf(reused, "session:input-memory-reused")
	x.LabelIf(sc.Filler >= 40, "session:>=40-filler-calls")
	return nil
}
