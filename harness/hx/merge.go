package hx

import (
	"encoding/binary"
	"encoding/json"
	"fmt"
	"os"
	"path/filepath"
	"sort"
	"strconv"
)

// Merge combines the shard files of one property into the evidence file.
// Driver-supplied facts (tier, seed, wall time, extra coverage keys) arrive
// through VERIF_MERGE_META (a JSON object).
func Merge(outDir, id, dest string) error {
	files, _ := filepath.Glob(filepath.Join(outDir, "ev-"+id+"-*.json"))
	sort.Strings(files)
	if len(files) == 0 {
		return fmt.Errorf("no shard files for %s in %s", id, outDir)
	}
	var meta struct {
		Tier       string                 `json:"tier"`
		Seed       int64                  `json:"seed"`
		WallS      float64                `json:"wall_s"`
		Violations int                    `json:"violations"`
		Extra      map[string]interface{} `json:"extra"`
	}
	if m := os.Getenv("VERIF_MERGE_META"); m != "" {
		if err := json.Unmarshal([]byte(m), &meta); err != nil {
			return err
		}
	}
	total := shardFile{ID: id, Labels: map[string]int64{}, Excluded: map[string]int64{}}
	hashes := []uint64{}
	subs := map[string]bool{}
	for _, f := range files {
		b, err := os.ReadFile(f)
		if err != nil {
			return err
		}
		var sf shardFile
		if err := json.Unmarshal(b, &sf); err != nil {
			return err
		}
		total.Evaluations += sf.Evaluations
		total.NonTrivial += sf.NonTrivial
		total.HashCapped = total.HashCapped || sf.HashCapped
		total.Violations += sf.Violations
		total.BulkEval += sf.BulkEval
		total.BulkNT += sf.BulkNT
		for k, v := range sf.Labels {
			total.Labels[k] += v
		}
		for k, v := range sf.Excluded {
			total.Excluded[k] += v
		}
		if len(total.Samples) < 10 {
			for _, s := range sf.Samples {
				if len(total.Samples) < 10 {
					total.Samples = append(total.Samples, s)
				}
			}
		}
		for _, s := range sf.Subspaces {
			subs[s] = true
		}
		if sf.Rule != "" {
			total.Rule = sf.Rule
		}
		if len(sf.Assumptions) > 0 {
			total.Assumptions = sf.Assumptions
		}
		hb, err := os.ReadFile(f[:len(f)-len(".json")] + ".hashes")
		if err == nil {
			for i := 0; i+8 <= len(hb); i += 8 {
				hashes = append(hashes, binary.LittleEndian.Uint64(hb[i:]))
			}
		}
	}
	sort.Slice(hashes, func(i, j int) bool { return hashes[i] < hashes[j] })
	distinct := 0
	for i := range hashes {
		if i == 0 || hashes[i] != hashes[i-1] {
			distinct++
		}
	}
	for s := range subs {
		total.Subspaces = append(total.Subspaces, s)
	}
	sort.Strings(total.Subspaces)

	labelPct := map[string]string{}
	for k, v := range total.Labels {
		pct := 0.0
		if total.Evaluations > 0 {
			pct = 100 * float64(v) / float64(total.Evaluations)
		}
		labelPct[k] = strconv.FormatInt(v, 10) + " (" + strconv.FormatFloat(pct, 'f', 2, 64) + "%)"
	}
	cov := map[string]interface{}{
		"evaluations":           total.Evaluations + total.BulkEval,
		"distinct_nontrivial":   int64(distinct) + total.BulkNT,
		"nontrivial_total":      total.NonTrivial + total.BulkNT,
		"hashed_cases":          total.Evaluations,
		"enumerated_cases":      total.BulkEval,
		"enumerated_nontrivial": total.BulkNT,
		"distinct_count_note":   "distinct_nontrivial = size of the union over shards of the sets of 64-bit hashes of non-trivial cases (each shard's set is capped at 2,000,000; capped=" + strconv.FormatBool(total.HashCapped) + ", so the number is a lower bound when capped) plus enumerated_nontrivial, the non-trivial points of completely enumerated sub-spaces (each point visited once by the enumeration, hence distinct; counted, not hashed)",
		"rule":                  total.Rule,
		"samples":               total.Samples,
		"labels":                labelPct,
		"excluded_known":        total.Excluded,
		"exhaustive":            false,
		"exhaustive_subspaces":  total.Subspaces,
		"shards":                len(files),
	}
	for k, v := range meta.Extra {
		cov[k] = v
	}
	if total.Samples == nil {
		cov["samples"] = []interface{}{}
	}
	ev := map[string]interface{}{
		"property_id": id,
		"tier":        meta.Tier,
		"seed":        meta.Seed,
		"level":       "exploration",
		"coverage":    cov,
		"assumptions": total.Assumptions,
		"wall_s":      meta.WallS,
		"violations":  meta.Violations,
	}
	if total.Assumptions == nil {
		ev["assumptions"] = []string{}
	}
	out, err := json.MarshalIndent(ev, "", " ")
	if err != nil {
		return err
	}
	if err := os.MkdirAll(filepath.Dir(dest), 0o755); err != nil {
		return err
	}
	return os.WriteFile(dest, append(out, '\n'), 0o644)
}
