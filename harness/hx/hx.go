// Package hx is the harness core shared by all property checks: the failure
// type with its classifier key, the evidence recorder, the known-findings
// list, replay files and the generic runner that connects a rapid generator
// with an oracle.
package hx

import (
	"encoding/binary"
	"encoding/json"
	"fmt"
	"hash/fnv"
	"os"
	"path/filepath"
	"runtime/debug"
	"sort"
	"strconv"
	"strings"
	"sync"
	"testing"

	"pgregory.net/rapid"
)

// Failure is a property violation observed on one case. Key identifies the
// specific call site / input class (used to match KNOWN_FINDINGS.txt); Msg is
// the human-readable observation.
type Failure struct {
	Key string `json:"key"`
	Msg string `json:"msg"`
}

func (f *Failure) Error() string { return f.Key + ": " + f.Msg }

// Failf builds a Failure.
func Failf(key, format string, args ...interface{}) *Failure {
	return &Failure{Key: key, Msg: fmt.Sprintf(format, args...)}
}

// Ctx is handed to an oracle for one case; the oracle reports labels and
// whether the case was non-trivial by the property's stated rule.
type Ctx struct {
	nt     bool
	labels []string
}

// NonTrivial marks the case as non-trivial.
func (c *Ctx) NonTrivial() { c.nt = true }

// NT marks the case non-trivial when cond holds.
func (c *Ctx) NT(cond bool) {
	if cond {
		c.nt = true
	}
}

// Label adds a class label (generator distribution statistics).
func (c *Ctx) Label(l string) { c.labels = append(c.labels, l) }

// LabelIf adds the label when cond holds.
func (c *Ctx) LabelIf(cond bool, l string) {
	if cond {
		c.labels = append(c.labels, l)
	}
}

const maxHashes = 2_000_000
const maxSamples = 6

type sample struct {
	h uint64
	v json.RawMessage
}

// Recorder accumulates the evidence of one property in one process.
type Recorder struct {
	mu          sync.Mutex
	ID          string
	Evaluations int64
	NonTrivial  int64
	hashes      map[uint64]struct{}
	hashCapped  bool
	Labels      map[string]int64
	Excluded    map[string]int64
	first       []json.RawMessage
	low         []sample // the non-trivial cases with the smallest hashes: a deterministic "random" sample
	Subspaces   []string
	Exhaustive  bool
	Rule        string
	Assumptions []string
	Violations  int
	printedKF   map[string]bool
	BulkEval    int64 // cases of completely enumerated sub-spaces evaluated by inline loops
	BulkNT      int64 // of those, the non-trivial ones (distinct by construction of the enumeration)
}

var (
	recMu sync.Mutex
	recs  = map[string]*Recorder{}
)

// Rec returns the process-wide recorder of a property.
func Rec(id string) *Recorder {
	recMu.Lock()
	defer recMu.Unlock()
	r := recs[id]
	if r == nil {
		r = &Recorder{ID: id, hashes: map[uint64]struct{}{}, Labels: map[string]int64{}, Excluded: map[string]int64{}, printedKF: map[string]bool{}}
		recs[id] = r
	}
	return r
}

// SetRule records the generation / non-triviality rule text of the property.
func (r *Recorder) SetRule(rule string, assumptions ...string) {
	r.mu.Lock()
	defer r.mu.Unlock()
	r.Rule = rule
	if len(assumptions) > 0 {
		r.Assumptions = assumptions
	}
}

// Subspace records that a finite sub-space was enumerated completely.
func (r *Recorder) Subspace(s string) {
	r.mu.Lock()
	defer r.mu.Unlock()
	for _, x := range r.Subspaces {
		if x == s {
			return
		}
	}
	r.Subspaces = append(r.Subspaces, s)
}

// Case records one evaluated case. sampleFn is only called when the case is
// kept as a sample.
func (r *Recorder) Case(hash uint64, x *Ctx, sampleFn func() interface{}) {
	r.mu.Lock()
	defer r.mu.Unlock()
	r.Evaluations++
	for _, l := range x.labels {
		r.Labels[l]++
	}
	if !x.nt {
		return
	}
	r.NonTrivial++
	if _, ok := r.hashes[hash]; ok {
		return
	}
	if len(r.hashes) < maxHashes {
		r.hashes[hash] = struct{}{}
	} else {
		r.hashCapped = true
	}
	if sampleFn == nil {
		return
	}
	if len(r.first) < 2 {
		if b, err := json.Marshal(sampleFn()); err == nil {
			r.first = append(r.first, capJSON(b))
		}
		return
	}
	if len(r.low) < maxSamples || hash < r.low[len(r.low)-1].h {
		b, err := json.Marshal(sampleFn())
		if err != nil {
			return
		}
		r.low = append(r.low, sample{hash, capJSON(b)})
		sort.Slice(r.low, func(i, j int) bool { return r.low[i].h < r.low[j].h })
		if len(r.low) > maxSamples {
			r.low = r.low[:maxSamples]
		}
	}
}

func capJSON(b []byte) json.RawMessage {
	if len(b) > 6000 {
		s, _ := json.Marshal(map[string]interface{}{"truncated_case_json": string(b[:6000])})
		return s
	}
	return b
}

// Bulk accounts for cases of an enumerated sub-space that were evaluated by an
// inline loop (too many to hash one by one). The enumeration visits each
// point once, so the non-trivial ones are distinct by construction.
func (r *Recorder) Bulk(evaluated, nontrivial int64) {
	r.mu.Lock()
	defer r.mu.Unlock()
	r.BulkEval += evaluated
	r.BulkNT += nontrivial
}

// shardFile is what one process leaves behind for the merge step.
type shardFile struct {
	ID          string            `json:"id"`
	Evaluations int64             `json:"evaluations"`
	NonTrivial  int64             `json:"nontrivial"`
	Distinct    int               `json:"distinct"`
	HashCapped  bool              `json:"hash_capped"`
	Labels      map[string]int64  `json:"labels"`
	Excluded    map[string]int64  `json:"excluded_known"`
	Samples     []json.RawMessage `json:"samples"`
	Subspaces   []string          `json:"exhaustive_subspaces"`
	Exhaustive  bool              `json:"exhaustive"`
	Rule        string            `json:"rule"`
	Assumptions []string          `json:"assumptions"`
	Violations  int               `json:"violations"`
	BulkEval    int64             `json:"bulk_evaluations"`
	BulkNT      int64             `json:"bulk_nontrivial"`
}

// OutDir is where shard outputs and replay files go.
func OutDir() string {
	if d := os.Getenv("VERIF_OUT"); d != "" {
		return d
	}
	return os.TempDir()
}

// Shard is this process' shard label.
func Shard() string {
	if s := os.Getenv("VERIF_SHARD"); s != "" {
		return s
	}
	return "0"
}

// FlushAll writes one shard file per recorder (called from TestMain).
func FlushAll() {
	recMu.Lock()
	defer recMu.Unlock()
	for id, r := range recs {
		r.mu.Lock()
		sf := shardFile{ID: id, Evaluations: r.Evaluations, NonTrivial: r.NonTrivial, Distinct: len(r.hashes), HashCapped: r.hashCapped,
			Labels: r.Labels, Excluded: r.Excluded, Subspaces: r.Subspaces, Exhaustive: r.Exhaustive, Rule: r.Rule, Assumptions: r.Assumptions, Violations: r.Violations, BulkEval: r.BulkEval, BulkNT: r.BulkNT}
		sf.Samples = append(sf.Samples, r.first...)
		for _, s := range r.low {
			sf.Samples = append(sf.Samples, s.v)
		}
		base := filepath.Join(OutDir(), fmt.Sprintf("ev-%s-%s", id, Shard()))
		b, _ := json.Marshal(sf)
		_ = os.WriteFile(base+".json", b, 0o644)
		hb := make([]byte, 0, 8*len(r.hashes))
		var tmp [8]byte
		for h := range r.hashes {
			binary.LittleEndian.PutUint64(tmp[:], h)
			hb = append(hb, tmp[:]...)
		}
		_ = os.WriteFile(base+".hashes", hb, 0o644)
		r.mu.Unlock()
	}
}

// ---------------------------------------------------------------------------
// known findings

type knownEntry struct {
	prop, key, text string
}

var (
	knownOnce sync.Once
	known     []knownEntry
)

func loadKnown() {
	path := os.Getenv("VERIF_KNOWN")
	if path == "" {
		path = "../../KNOWN_FINDINGS.txt"
	}
	b, err := os.ReadFile(path)
	if err != nil {
		return
	}
	for _, line := range strings.Split(string(b), "\n") {
		line = strings.TrimSpace(line)
		if !strings.HasPrefix(line, "known:") {
			continue // "fixed:" lines and comments suppress nothing
		}
		f := strings.Fields(strings.TrimPrefix(line, "known:"))
		var e knownEntry
		var rest []string
		for _, w := range f {
			switch {
			case strings.HasPrefix(w, "property=") && e.prop == "":
				e.prop = strings.TrimPrefix(w, "property=")
			case strings.HasPrefix(w, "key=") && e.key == "":
				e.key = strings.TrimPrefix(w, "key=")
			default:
				rest = append(rest, w)
			}
		}
		e.text = strings.Join(rest, " ")
		if e.prop != "" && e.key != "" {
			known = append(known, e)
		}
	}
}

// IsKnown reports whether (property, key) is listed as a known finding.
func IsKnown(prop, key string) (string, bool) {
	knownOnce.Do(loadKnown)
	for _, e := range known {
		if e.prop == prop && e.key == key {
			return e.text, true
		}
	}
	return "", false
}

// Tolerate handles a failure that may be a known finding: it returns true
// (and records/prints it) when the failure is listed, false when it is a new
// violation.
func (r *Recorder) Tolerate(f *Failure) bool {
	text, ok := IsKnown(r.ID, f.Key)
	if !ok {
		return false
	}
	r.mu.Lock()
	defer r.mu.Unlock()
	r.Excluded[f.Key]++
	if !r.printedKF[f.Key] {
		r.printedKF[f.Key] = true
		fmt.Printf("KNOWN-FINDING: property=%s key=%s %s\n", r.ID, f.Key, text)
	}
	return true
}

// ---------------------------------------------------------------------------
// replay files

// ReplayFile is the on-disk form of a failing (or regression) case.
type ReplayFile struct {
	Property string          `json:"property"`
	Variant  string          `json:"variant,omitempty"`
	Case     json.RawMessage `json:"case"`
	Key      string          `json:"key,omitempty"`
	Failure  string          `json:"failure,omitempty"`
}

// DumpReplay writes the failing case; it is overwritten on every failing
// execution so that the file left behind after shrinking is the minimal case.
func DumpReplay(prop, variant string, c interface{}, f *Failure) string {
	b, err := json.Marshal(c)
	if err != nil {
		b = []byte(`"unmarshalable case"`)
	}
	rf := ReplayFile{Property: prop, Variant: variant, Case: b, Key: f.Key, Failure: f.Msg}
	out, _ := json.MarshalIndent(rf, "", " ")
	path := filepath.Join(OutDir(), fmt.Sprintf("replay-%s-%s.json", prop, Shard()))
	_ = os.WriteFile(path, out, 0o644)
	return path
}

// HashJSON hashes the canonical JSON encoding of v.
func HashJSON(v interface{}) uint64 {
	b, _ := json.Marshal(v)
	return HashBytes(b)
}

// HashBytes is FNV-1a 64.
func HashBytes(bs ...[]byte) uint64 {
	h := fnv.New64a()
	for _, b := range bs {
		h.Write(b)
		h.Write([]byte{0xfe})
	}
	return h.Sum64()
}

// HashInts hashes a tuple of integers.
func HashInts(vs ...uint64) uint64 {
	h := uint64(14695981039346656037)
	for _, v := range vs {
		for i := 0; i < 8; i++ {
			h ^= (v >> (8 * uint(i))) & 0xff
			h *= 1099511628211
		}
	}
	return h
}

// ---------------------------------------------------------------------------
// runner

// Prop bundles generator and oracle of one property (or one variant of it).
type Prop[C any] struct {
	ID      string
	Variant string // distinguishes several case types under one property id
	Thin    int    // when > 1, only one in Thin rapid iterations generates and evaluates a case (expensive variants)
	Gen     func(t *rapid.T) C
	Check   func(c C, x *Ctx) *Failure
}

// Guard runs fn and converts a panic into a Failure with the given key prefix.
func Guard(key string, fn func() *Failure) (f *Failure) {
	defer func() {
		if r := recover(); r != nil {
			f = Failf(key+"-panic", "panic: %v\n%s", r, trimStack(debug.Stack()))
		}
	}()
	return fn()
}

func trimStack(b []byte) string {
	lines := strings.Split(string(b), "\n")
	if len(lines) > 40 {
		lines = lines[:40]
	}
	return strings.Join(lines, "\n")
}

// Eval runs the oracle on one case with bookkeeping: evidence, known
// findings, replay dump. It returns a non-nil Failure only for a violation
// that is not a known finding.
func (p Prop[C]) Eval(c C) *Failure {
	rec := Rec(p.ID)
	x := &Ctx{}
	f := Guard(p.ID+"-oracle", func() *Failure { return p.Check(c, x) })
	if f != nil && rec.Tolerate(f) {
		x.Label("excluded-known:" + f.Key)
		f = nil
	}
	rec.Case(HashJSON(c), x, func() interface{} { return map[string]interface{}{"variant": p.Variant, "case": c} })
	if f != nil {
		rec.mu.Lock()
		rec.Violations++
		rec.mu.Unlock()
		DumpReplay(p.ID, p.Variant, c, f)
	}
	return f
}

// EvalFast is Eval for enumerated sub-spaces where the caller supplies a cheap hash.
func (p Prop[C]) EvalFast(c C, hash uint64) *Failure {
	rec := Rec(p.ID)
	x := &Ctx{}
	f := Guard(p.ID+"-oracle", func() *Failure { return p.Check(c, x) })
	if f != nil && rec.Tolerate(f) {
		x.Label("excluded-known:" + f.Key)
		f = nil
	}
	rec.Case(hash, x, func() interface{} { return map[string]interface{}{"variant": p.Variant, "case": c} })
	if f != nil {
		rec.mu.Lock()
		rec.Violations++
		rec.mu.Unlock()
		DumpReplay(p.ID, p.Variant, c, f)
	}
	return f
}

// Run is the rapid search for the property.
func (p Prop[C]) Run(t *testing.T) {
	rapid.Check(t, func(rt *rapid.T) {
		if p.Thin > 1 && rapid.IntRange(0, p.Thin-1).Draw(rt, "thin") != 0 {
			return
		}
		c := p.Gen(rt)
		if f := p.Eval(c); f != nil {
			rt.Fatalf("VIOLATION-CANDIDATE property=%s variant=%s key=%s: %s", p.ID, p.Variant, f.Key, f.Msg)
		}
	})
}

// Fuzz returns the native fuzz target over the same generator and oracle.
func (p Prop[C]) Fuzz() func(*testing.T, []byte) {
	return rapid.MakeFuzz(func(rt *rapid.T) {
		c := p.Gen(rt)
		if f := p.Eval(c); f != nil {
			rt.Fatalf("VIOLATION-CANDIDATE property=%s variant=%s key=%s: %s", p.ID, p.Variant, f.Key, f.Msg)
		}
	})
}

// Replay runs the oracle on a stored case.
func (p Prop[C]) Replay(raw json.RawMessage) *Failure {
	var c C
	if err := json.Unmarshal(raw, &c); err != nil {
		return Failf("replay-unmarshal", "cannot decode case: %v", err)
	}
	return p.Eval(c)
}

// Replayer is the type-erased replay entry of a property variant.
type Replayer func(raw json.RawMessage) *Failure

var replayers = map[string]Replayer{}

// Register makes the property replayable under "ID/Variant".
func Register[C any](p Prop[C]) Prop[C] {
	replayers[p.ID+"/"+p.Variant] = p.Replay
	return p
}

// ReplayPath loads a replay file and runs it.
func ReplayPath(path string) (prop string, f *Failure, err error) {
	b, err := os.ReadFile(path)
	if err != nil {
		return "", nil, err
	}
	var rf ReplayFile
	if err := json.Unmarshal(b, &rf); err != nil {
		return "", nil, err
	}
	r := replayers[rf.Property+"/"+rf.Variant]
	if r == nil {
		return rf.Property, nil, fmt.Errorf("no replayer for %s/%s", rf.Property, rf.Variant)
	}
	return rf.Property, r(rf.Case), nil
}

// EnvInt reads an integer environment variable.
func EnvInt(name string, def int) int {
	if s := os.Getenv(name); s != "" {
		if v, err := strconv.Atoi(s); err == nil {
			return v
		}
	}
	return def
}

// Thorough reports whether the thorough tier is running.
func Thorough() bool { return os.Getenv("VERIF_TIER") == "thorough" }

// ShardIndex and NShards describe how the driver split the run across
// processes. Enumerations either run on shard 0 only or partition their space
// by index so that no point is visited (and counted) twice.
func ShardIndex() int { return EnvInt("VERIF_SHARD", 0) }

// NShards is the number of parallel processes of this run.
func NShards() int {
	n := EnvInt("VERIF_NSHARDS", 1)
	if n < 1 {
		n = 1
	}
	return n
}

// FirstShard reports whether this process is shard 0 (or not a numbered shard at all).
func FirstShard() bool { return ShardIndex() == 0 }
