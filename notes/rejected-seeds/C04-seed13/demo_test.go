package pes

import (
	"fmt"
	"testing"

	"github.com/Comcast/gots/v2"
)

// seedDemoOutcome runs one of the two PTS decoders and describes what it did:
// the value it returned, or that it refused the input by panicking.
func seedDemoOutcome(f func([]byte) uint64, in []byte) (out string) {
	defer func() {
		if r := recover(); r != nil {
			out = "refused (panic)"
		}
	}()
	return fmt.Sprintf("value %d", f(in))
}

// Both PTS decoders of the library must agree on every input. A PTS field that
// was cut (the first 0..4 bytes of a correctly written field, e.g. the tail of
// a payload that ends inside the field) is such an input.
func TestSeedDemoDecodersAgreeOnCutField(t *testing.T) {
	for _, pts := range []uint64{0, 1, 1 << 32, gots.MaxPtsValue, 0x155555555} {
		field := make([]byte, 5)
		gots.InsertPTS(field, pts)
		for n := 0; n <= 5; n++ {
			in := field[:n:n]
			a := seedDemoOutcome(gots.ExtractTime, in)
			b := seedDemoOutcome(ExtractTime, in)
			if a != b {
				t.Errorf("pts %d, first %d bytes % x: gots.ExtractTime: %s, pes.ExtractTime: %s", pts, n, in, a, b)
			}
		}
	}
	// nil and empty input
	for _, in := range [][]byte{nil, {}} {
		a := seedDemoOutcome(gots.ExtractTime, in)
		b := seedDemoOutcome(ExtractTime, in)
		if a != b {
			t.Errorf("input %#v: gots.ExtractTime: %s, pes.ExtractTime: %s", in, a, b)
		}
	}
}
