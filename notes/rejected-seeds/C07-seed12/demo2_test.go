package psi

import (
	"bytes"
	"testing"

	"github.com/Comcast/gots/v2"
	"github.com/Comcast/gots/v2/packet"
)

func seedDemo2Section(entries [][2]int) []byte {
	sl := 5 + 4*len(entries) + 4
	s := []byte{0x00, 0xB0 | byte(sl>>8), byte(sl), 0x00, 0x01, 0xC1, 0x00, 0x00}
	for _, e := range entries {
		s = append(s, byte(e[0]>>8), byte(e[0]), 0xE0|byte(e[1]>>8), byte(e[1]))
	}
	return append(s, gots.ComputeCRC(s)...)
}

// "A packet is classified as a PMT packet for a PAT exactly when its PID is a
// value of that map." Two entries carry the same program_number: the map keeps
// the later one, so the PID of the earlier one is not a value of the map
// (unless another program uses it as well).
func TestSeedDemo2IsPMTAgreesWithProgramMap(t *testing.T) {
	entries := [][2]int{{0, 0x10}, {5, 0x100}, {7, 0x300}, {5, 0x200}}
	payload := append([]byte{0x00}, seedDemo2Section(entries)...)

	var pkt packet.Packet
	for i := range pkt {
		pkt[i] = 0xFF
	}
	copy(pkt[:], []byte{0x47, 0x40, 0x00, 0x10})
	copy(pkt[4:], payload)
	other := packet.Create(0x100, packet.WithHasPayloadFlag)
	stream := append(append([]byte(nil), other[:]...), pkt[:]...)

	fromPayload, err := NewPAT(payload)
	if err != nil {
		t.Fatal(err)
	}
	fromPacket, err := NewPAT(pkt[:])
	if err != nil {
		t.Fatal(err)
	}
	fromStream, err := ReadPAT(bytes.NewReader(stream))
	if err != nil {
		t.Fatal(err)
	}

	for name, p := range map[string]PAT{"payload": fromPayload, "packet": fromPacket, "stream": fromStream} {
		m := p.ProgramMap()
		if len(m) != 2 || m[5] != 0x200 || m[7] != 0x300 {
			t.Fatalf("%s: ProgramMap() = %v", name, m)
		}
		for pid := 0; pid < 8192; pid++ {
			want := false
			for _, v := range m {
				want = want || v == pid
			}
			probe := packet.Create(pid, packet.WithHasPayloadFlag)
			got, err := IsPMT(probe, p)
			if err != nil || got != want {
				t.Errorf("%s: IsPMT(pid %#x) = %v, %v but ProgramMap() = %v", name, pid, got, err, m)
			}
		}
	}
}

// Control: without a repeated program_number the two paths agree with and without the change.
func TestSeedDemo2ControlDistinctProgramNumbers(t *testing.T) {
	entries := [][2]int{{0, 0x100}, {5, 0x100}, {7, 0x300}, {6, 0x200}, {8, 0x300}}
	p, err := NewPAT(append([]byte{0x00}, seedDemo2Section(entries)...))
	if err != nil {
		t.Fatal(err)
	}
	m := p.ProgramMap()
	for pid := 0; pid < 8192; pid++ {
		want := false
		for _, v := range m {
			want = want || v == pid
		}
		got, err := IsPMT(packet.Create(pid, packet.WithHasPayloadFlag), p)
		if err != nil || got != want {
			t.Errorf("IsPMT(pid %#x) = %v, %v but ProgramMap() = %v", pid, got, err, m)
		}
	}
}
