package packet

import (
	"errors"
	"io"
	"testing"
)

// seedDemo2Reader returns whole packets; the call that returns packet number
// failAt also returns failErr (data and error in the same call, as io.Reader
// allows), and every later call returns (0, failErr): a sticky failure.
type seedDemo2Reader struct {
	data    []byte
	pkt     int
	failAt  int
	failErr error
	failed  bool
}

func (r *seedDemo2Reader) Read(p []byte) (int, error) {
	if r.failed {
		return 0, r.failErr
	}
	if len(r.data) == 0 {
		return 0, io.EOF
	}
	k := copy(p, r.data[:PacketSize])
	r.data = r.data[k:]
	var err error
	if r.pkt == r.failAt {
		err = r.failErr
		r.failed = true
	}
	r.pkt++
	return k, err
}

// The packet write fails for packet 1, and the bytes of packet 1 arrived
// together with a read error. The property says: "if a packet write fails the
// error is returned".
func TestSeedDemoWriteErrorWinsOverReadErrorOfSamePacket(t *testing.T) {
	readErr := errors.New("seed demo: connection reset")
	writeErr := errors.New("seed demo: disk full")
	for _, wn := range []int{0, PacketSize} { // count the failing writer reports
		stream := make([]byte, 3*PacketSize)
		for i := range stream {
			stream[i] = byte(i / PacketSize)
		}
		delivered := 0
		w := IOWriter(PacketWriterFunc(func(p *Packet) (int, error) {
			delivered++
			if p[0] == 1 {
				return wn, writeErr
			}
			return PacketSize, nil
		}))
		r := &seedDemo2Reader{data: stream, failAt: 1, failErr: readErr}
		n, err := w.(io.ReaderFrom).ReadFrom(r)
		if err != writeErr {
			t.Errorf("wn=%d: ReadFrom error = %v, want the packet writer's error %v", wn, err, writeErr)
		}
		if n != int64(PacketSize+wn) || delivered != 2 {
			t.Errorf("wn=%d: n = %d, delivered = %d, want %d and 2", wn, n, delivered, PacketSize+wn)
		}
	}
}

// Controls: each of the two failures alone is reported identically by both
// versions, and so is a write failure on a packet that arrived with io.EOF.
func TestSeedDemoControlSingleFailures(t *testing.T) {
	readErr := errors.New("seed demo: connection reset")
	writeErr := errors.New("seed demo: disk full")
	mk := func() []byte {
		stream := make([]byte, 3*PacketSize)
		for i := range stream {
			stream[i] = byte(i / PacketSize)
		}
		return stream
	}
	failing := IOWriter(PacketWriterFunc(func(p *Packet) (int, error) {
		if p[0] == 1 {
			return 0, writeErr
		}
		return PacketSize, nil
	}))
	ok := IOWriter(PacketWriterFunc(func(p *Packet) (int, error) { return PacketSize, nil }))

	if n, err := ok.(io.ReaderFrom).ReadFrom(&seedDemo2Reader{data: mk(), failAt: 1, failErr: readErr}); err != readErr || n != 2*PacketSize {
		t.Errorf("read failure alone: n=%d err=%v", n, err)
	}
	if n, err := failing.(io.ReaderFrom).ReadFrom(&seedDemo2Reader{data: mk(), failAt: -1}); err != writeErr || n != PacketSize {
		t.Errorf("write failure alone: n=%d err=%v", n, err)
	}
	if n, err := failing.(io.ReaderFrom).ReadFrom(&seedDemo2Reader{data: mk()[:2*PacketSize], failAt: 1, failErr: io.EOF}); err != writeErr || n != PacketSize {
		t.Errorf("write failure on a packet that came with io.EOF: n=%d err=%v", n, err)
	}
	// read failure on packet 2, write failure on packet 1: the writer's error, nothing read after it
	if n, err := failing.(io.ReaderFrom).ReadFrom(&seedDemo2Reader{data: mk(), failAt: 2, failErr: readErr}); err != writeErr || n != PacketSize {
		t.Errorf("write failure before the read failure: n=%d err=%v", n, err)
	}
}
