package psi

import (
	"bytes"
	"testing"

	"github.com/Comcast/gots/v2"
)

type seedDemo2Stream struct {
	typ   uint8
	pid   int
	descs [][]byte // tag, length, body
}

// seedDemo2Section builds a complete section (table_id .. CRC_32).
func seedDemo2Section(tableID uint8, body []byte) []byte {
	sl := len(body) + 4
	s := []byte{tableID, 0xB0 | byte(sl>>8), byte(sl)}
	s = append(s, body...)
	return append(s, gots.ComputeCRC(s)...)
}

func seedDemo2PMTSection(version uint8, streams []seedDemo2Stream) []byte {
	body := []byte{0x00, 0x01, 0xC0 | version<<1 | 1, 0x00, 0x00, 0xE1, 0x00, 0xF0, 0x00}
	for _, st := range streams {
		var d []byte
		for _, x := range st.descs {
			d = append(d, x...)
		}
		body = append(body, st.typ, 0xE0|byte(st.pid>>8), byte(st.pid), 0xF0|byte(len(d)>>8), byte(len(d)))
		body = append(body, d...)
	}
	return seedDemo2Section(0x02, body)
}

// seedDemo2Packet carries payload (at most 184 bytes) in one packet; a shorter
// payload is preceded by adaptation field stuffing.
func seedDemo2Packet(pid int, pusi bool, cc int, payload []byte) []byte {
	p := make([]byte, 0, 188)
	b1 := byte(pid >> 8)
	if pusi {
		b1 |= 0x40
	}
	p = append(p, 0x47, b1, byte(pid))
	if len(payload) == 184 {
		p = append(p, 0x10|byte(cc&0xf))
	} else {
		afLen := 183 - len(payload)
		p = append(p, 0x30|byte(cc&0xf), byte(afLen))
		if afLen > 0 {
			p = append(p, 0x00)
			for i := 1; i < afLen; i++ {
				p = append(p, 0xFF)
			}
		}
	}
	return append(p, payload...)
}

func seedDemo2Pad(b []byte, n int) []byte {
	b = append([]byte{}, b...)
	for len(b) < n {
		b = append(b, 0xFF)
	}
	return b
}

func seedDemo2Check(t *testing.T, name string, ts []byte, pid int, want []seedDemo2Stream, wantVersion uint8) {
	t.Helper()
	pmt, err := ReadPMT(bytes.NewReader(ts), pid)
	if err != nil {
		t.Errorf("%s: ReadPMT returned %v", name, err)
		return
	}
	if pmt.VersionNumber() != wantVersion {
		t.Errorf("%s: version %d, want %d", name, pmt.VersionNumber(), wantVersion)
	}
	es := pmt.ElementaryStreams()
	if len(es) != len(want) || len(pmt.Pids()) != len(want) {
		t.Errorf("%s: %d streams, %d pids, want %d", name, len(es), len(pmt.Pids()), len(want))
		return
	}
	for i, w := range want {
		if int(es[i].StreamType()) != int(w.typ) || es[i].ElementaryPid() != w.pid || pmt.Pids()[i] != w.pid || len(es[i].Descriptors()) != len(w.descs) {
			t.Errorf("%s: stream %d differs", name, i)
			continue
		}
		for j, d := range w.descs {
			if es[i].Descriptors()[j].Tag() != d[0] {
				t.Errorf("%s: stream %d descriptor %d has tag %d, want %d", name, i, j, es[i].Descriptors()[j].Tag(), d[0])
			}
		}
	}
}

var (
	seedDemo2Subject = []seedDemo2Stream{
		{0x1B, 0x101, [][]byte{{0x0E, 0x03, 0xC0, 0x3A, 0x98}}},
		{0x0F, 0x102, [][]byte{{0x0A, 0x04, 'e', 'n', 'g', 0x00}}},
		{0x86, 0x103, nil},
	}
	// an older, longer PMT of the same program that needs two packets
	seedDemo2Old = func() []seedDemo2Stream {
		var s []seedDemo2Stream
		for i := 0; i < 30; i++ {
			s = append(s, seedDemo2Stream{0x1B, 0x200 + i, [][]byte{{0x52, 0x01, byte(i)}}})
		}
		return s
	}()
	// some other table that shares the PID and precedes the PMT in the payload
	seedDemo2Other = seedDemo2Section(0x42, []byte{0x00, 0x01, 0xC1, 0x00, 0x00, 0xAA, 0xBB, 0xCC})
)

const seedDemo2Pid = 0x100

// The transmission of a PMT payload is cut off after its first packet (the
// second packet is lost); the next payload on the PID starts with a PUSI and
// holds the subject PMT. The abandoned payload had another table in front of
// its PMT, the new one does not, and the abandoned first packet carried less
// payload (adaptation field stuffing) than the new one.
func TestSeedDemo2ReadPMTAfterAbandonedPayloadOfDifferentLayout(t *testing.T) {
	oldPayload := append(append([]byte{0x00}, seedDemo2Other...), seedDemo2PMTSection(3, seedDemo2Old)...)
	if len(oldPayload) <= 184 {
		t.Fatal("old payload is meant to need two packets")
	}
	subject := seedDemo2PMTSection(4, seedDemo2Subject)
	newPayload := seedDemo2Pad(append([]byte{0x00}, subject...), 184)

	var ts []byte
	ts = append(ts, seedDemo2Packet(seedDemo2Pid, true, 0, oldPayload[:120])...) // 120 payload bytes behind stuffing
	ts = append(ts, seedDemo2Packet(0x1FFF, false, 0, seedDemo2Pad(nil, 184))...)
	// (continuation of the old payload lost)
	ts = append(ts, seedDemo2Packet(seedDemo2Pid, true, 2, newPayload)...)
	seedDemo2Check(t, "single packet subject", ts, seedDemo2Pid, seedDemo2Subject, 4)

	// the same with a subject that needs two packets, split at 184
	big := seedDemo2PMTSection(5, seedDemo2Old)
	bigPayload := append([]byte{0x00}, big...)
	ts = ts[:2*188]
	ts = append(ts, seedDemo2Packet(seedDemo2Pid, true, 2, bigPayload[:184])...)
	ts = append(ts, seedDemo2Packet(seedDemo2Pid, false, 3, seedDemo2Pad(bigPayload[184:], 184))...)
	seedDemo2Check(t, "two packet subject", ts, seedDemo2Pid, seedDemo2Old, 5)
}

// Controls that hold with and without the change.
func TestSeedDemo2ReadPMTControls(t *testing.T) {
	subject := seedDemo2PMTSection(4, seedDemo2Subject)
	newPayload := seedDemo2Pad(append([]byte{0x00}, subject...), 184)
	oldPayload := append(append([]byte{0x00}, seedDemo2Other...), seedDemo2PMTSection(3, seedDemo2Old)...)

	// no abandoned payload in front
	seedDemo2Check(t, "plain", seedDemo2Packet(seedDemo2Pid, true, 0, newPayload), seedDemo2Pid, seedDemo2Subject, 4)

	// abandoned first packet with a full payload
	ts := append(seedDemo2Packet(seedDemo2Pid, true, 0, oldPayload[:184]), seedDemo2Packet(seedDemo2Pid, true, 2, newPayload)...)
	seedDemo2Check(t, "abandoned full packet", ts, seedDemo2Pid, seedDemo2Subject, 4)

	// abandoned payload that is the start of the very payload that follows (retransmission)
	big := append(append([]byte{0x00}, seedDemo2Other...), seedDemo2PMTSection(5, seedDemo2Old)...)
	ts = seedDemo2Packet(seedDemo2Pid, true, 0, big[:120])
	ts = append(ts, seedDemo2Packet(seedDemo2Pid, true, 2, big[:184])...)
	ts = append(ts, seedDemo2Packet(seedDemo2Pid, false, 3, seedDemo2Pad(big[184:], 184))...)
	seedDemo2Check(t, "retransmission", ts, seedDemo2Pid, seedDemo2Old, 5)

	// complete payload without a PMT in front, then the subject
	other := seedDemo2Pad(append([]byte{0x00}, seedDemo2Other...), 100)
	ts = append(seedDemo2Packet(seedDemo2Pid, true, 0, other), seedDemo2Packet(seedDemo2Pid, true, 1, newPayload)...)
	seedDemo2Check(t, "other table first", ts, seedDemo2Pid, seedDemo2Subject, 4)
}
