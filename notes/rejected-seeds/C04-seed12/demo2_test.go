package packet

import "testing"

// A PCR and an OPCR set on an adaptation field are read back unchanged. The adaptation field is
// never scrambled and its clocks do not depend on the transport_scrambling_control bits of the
// packet header, of which ISO/IEC 13818-1 (table 2-4) defines '00' only and leaves '01', '10'
// and '11' to the user.
func TestSeedDemo2PCRWithUserDefinedScramblingControl(t *testing.T) {
	const pcr, opcr = uint64(1)<<32*300 + 299, uint64(0x155555555)*300 + 256
	for tsc := TransportScramblingControlOptions(0); tsc < 4; tsc++ {
		for _, afc := range []AdaptationFieldControlOptions{AdaptationFieldFlag, PayloadAndAdaptationFieldFlag} {
			p := New()
			p.SetPID(0x100)
			p.SetTransportScramblingControl(tsc)
			if err := p.SetAdaptationFieldControl(afc); err != nil {
				t.Fatal(err)
			}
			af, err := p.AdaptationField()
			if err != nil {
				t.Fatal(err)
			}
			if err := af.SetHasPCR(true); err != nil {
				t.Errorf("tsc %d afc %d: SetHasPCR: %v", tsc, afc, err)
			}
			if err := af.SetHasOPCR(true); err != nil {
				t.Errorf("tsc %d afc %d: SetHasOPCR: %v", tsc, afc, err)
			}
			if err := af.SetPCR(pcr); err != nil {
				t.Errorf("tsc %d afc %d: SetPCR: %v", tsc, afc, err)
			}
			if err := af.SetOPCR(opcr); err != nil {
				t.Errorf("tsc %d afc %d: SetOPCR: %v", tsc, afc, err)
			}
			if got, err := af.PCR(); err != nil || got != pcr {
				t.Errorf("tsc %d afc %d: PCR() = %d, %v; want %d", tsc, afc, got, err, pcr)
			}
			if got, err := af.OPCR(); err != nil || got != opcr {
				t.Errorf("tsc %d afc %d: OPCR() = %d, %v; want %d", tsc, afc, got, err, opcr)
			}
		}
	}

	// the same when the scrambling control changes after the clocks were written
	p := New()
	p.SetAdaptationFieldControl(AdaptationFieldFlag)
	af, _ := p.AdaptationField()
	af.SetHasPCR(true)
	af.SetPCR(pcr)
	p.SetTransportScramblingControl(1)
	if got, err := af.PCR(); err != nil || got != pcr {
		t.Errorf("PCR() after the scrambling control became '01' = %d, %v; want %d", got, err, pcr)
	}
}
