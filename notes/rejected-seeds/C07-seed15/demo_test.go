package psi

import (
	"bytes"
	"reflect"
	"testing"

	"github.com/Comcast/gots/v2"
	"github.com/Comcast/gots/v2/packet"
)

// seedDemoPATSection builds a well-formed program association section.
func seedDemoPATSection(tsid uint16, version byte, entries [][2]int) []byte {
	sl := 9 + 4*len(entries)
	s := []byte{0x00, 0xb0 | byte(sl>>8), byte(sl), byte(tsid >> 8), byte(tsid),
		0xc1 | version<<1, 0x00, 0x00}
	for _, e := range entries {
		s = append(s, byte(e[0]>>8), byte(e[0]), 0xe0|byte(e[1]>>8), byte(e[1]))
	}
	return append(s, gots.ComputeCRC(s)...)
}

func seedDemoCheck(t *testing.T, how string, pat PAT, err error) {
	if err != nil {
		t.Fatalf("%s: %v", how, err)
	}
	if n := pat.NumPrograms(); n != 1 {
		t.Errorf("%s: NumPrograms() = %d, the section has 1 entry", how, n)
	}
	if m := pat.ProgramMap(); !reflect.DeepEqual(m, map[int]int{1: 0x100}) {
		t.Errorf("%s: ProgramMap() = %v, the section has the entry 1 -> 0x100", how, m)
	}
	if pid, err := pat.SPTSpmtPID(); err != nil || pid != 0x100 {
		t.Errorf("%s: SPTSpmtPID() = %d, %v, want 0x100", how, pid, err)
	}
	var pkt packet.Packet
	pkt[0], pkt[1], pkt[2], pkt[3] = 0x47, 0x02, 0x00, 0x10 // PID 0x200
	if is, err := IsPMT(&pkt, pat); err != nil || is {
		t.Errorf("%s: IsPMT(PID 0x200) = %v, %v, that PID is no value of the map", how, is, err)
	}
}

// The PAT section (version 3, one program) is directly followed, in the same payload, by the
// section that replaces it (version 4, another program), then by stuffing.
func TestSeedDemoPATFollowedBySection(t *testing.T) {
	a := seedDemoPATSection(0x1234, 3, [][2]int{{1, 0x100}})
	b := seedDemoPATSection(0x1234, 4, [][2]int{{2, 0x200}})

	payload := append([]byte{0x00}, a...)
	payload = append(payload, b...)
	for len(payload) < 184 {
		payload = append(payload, 0xff)
	}

	pat, err := NewPAT(payload)
	seedDemoCheck(t, "payload", pat, err)

	pkt := append([]byte{0x47, 0x40, 0x00, 0x10}, payload...)
	pat, err = NewPAT(pkt)
	seedDemoCheck(t, "packet", pat, err)

	var other packet.Packet
	other[0], other[1], other[2], other[3] = 0x47, 0x01, 0x00, 0x10
	stream := append(append([]byte{}, other[:]...), pkt...)
	pat, err = ReadPAT(bytes.NewReader(stream))
	seedDemoCheck(t, "stream", pat, err)
}
