package psi

import (
	"bytes"
	"reflect"
	"testing"

	"github.com/Comcast/gots/v2"
)

// seedDemoPATPacket builds a PID 0 packet carrying one well-formed
// program_association_section (pointer_field 0, correct CRC, 0xFF stuffing).
func seedDemoPATPacket(sectionNumber, lastSectionNumber byte, entries ...[2]int) []byte {
	sectionLength := 5 + 4*len(entries) + 4
	sec := []byte{0x00, 0xB0 | byte(sectionLength>>8), byte(sectionLength),
		0x00, 0x01, // transport_stream_id
		0xC3, // version 1, current
		sectionNumber, lastSectionNumber}
	for _, e := range entries {
		sec = append(sec, byte(e[0]>>8), byte(e[0]), 0xE0|byte(e[1]>>8), byte(e[1]))
	}
	sec = append(sec, gots.ComputeCRC(sec)...)
	pkt := bytes.Repeat([]byte{0xFF}, 188)
	pkt[0], pkt[1], pkt[2], pkt[3], pkt[4] = 0x47, 0x40, 0x00, 0x10, 0x00
	copy(pkt[5:], sec)
	return pkt
}

func seedDemoOtherPacket(pid int) []byte {
	pkt := bytes.Repeat([]byte{0xFF}, 188)
	pkt[0], pkt[1], pkt[2], pkt[3] = 0x47, byte(pid>>8), byte(pid), 0x10
	return pkt
}

func seedDemoExpect(t *testing.T, name string, stream []byte, wantN int, wantMap map[int]int, wantSPTS int) {
	t.Helper()
	pat, err := ReadPAT(bytes.NewReader(stream))
	if err != nil {
		t.Errorf("%s: unexpected error %v", name, err)
		return
	}
	if pat.NumPrograms() != wantN {
		t.Errorf("%s: NumPrograms = %d, want %d", name, pat.NumPrograms(), wantN)
	}
	if !reflect.DeepEqual(pat.ProgramMap(), wantMap) {
		t.Errorf("%s: ProgramMap = %v, want %v", name, pat.ProgramMap(), wantMap)
	}
	pid, err := pat.SPTSpmtPID()
	if wantSPTS >= 0 && (err != nil || pid != wantSPTS) {
		t.Errorf("%s: SPTSpmtPID = %d, %v, want %d", name, pid, err, wantSPTS)
	}
	if wantSPTS < 0 && err == nil {
		t.Errorf("%s: SPTSpmtPID = %d, want an error", name, pid)
	}
}

// The first PID 0 packet of the stream carries a well-formed section whose
// last_section_number is 1; a later PID 0 packet carries section 1. The table
// read from the stream must be exactly the first section.
func TestSeedDemoReadPATSectionOfMultiSectionTable(t *testing.T) {
	var stream []byte
	stream = append(stream, seedDemoOtherPacket(0x1FFF)...)
	stream = append(stream, seedDemoOtherPacket(0x100)...)
	stream = append(stream, seedDemoPATPacket(0, 1, [2]int{1, 0x100})...)
	stream = append(stream, seedDemoOtherPacket(0x100)...)
	stream = append(stream, seedDemoPATPacket(1, 1, [2]int{2, 0x200})...)
	stream = append(stream, seedDemoOtherPacket(0x1FFF)...)
	seedDemoExpect(t, "section 0 of 2, section 1 follows", stream, 1, map[int]int{1: 0x100}, 0x100)

	// same through the other carriers, for reference
	pat, err := NewPAT(seedDemoPATPacket(0, 1, [2]int{1, 0x100}))
	if err != nil || pat.NumPrograms() != 1 || !reflect.DeepEqual(pat.ProgramMap(), map[int]int{1: 0x100}) {
		t.Errorf("packet carrier: %v %v", pat, err)
	}
}

// Controls that behave the same with and without the change.
func TestSeedDemoReadPATControls(t *testing.T) {
	single := append(seedDemoOtherPacket(0x20), seedDemoPATPacket(0, 0, [2]int{0, 0x10}, [2]int{7, 0x1ABC})...)
	single = append(single, seedDemoPATPacket(0, 0, [2]int{9, 0x300})...)
	seedDemoExpect(t, "single section, another PAT follows", single, 2, map[int]int{7: 0x1ABC}, -1)

	alone := append(seedDemoOtherPacket(0x20), seedDemoPATPacket(0, 1, [2]int{1, 0x100})...)
	alone = append(alone, seedDemoOtherPacket(0x21)...)
	seedDemoExpect(t, "section 0 of 2, nothing follows", alone, 1, map[int]int{1: 0x100}, 0x100)

	if _, err := ReadPAT(bytes.NewReader(seedDemoOtherPacket(0x20))); err != gots.ErrPATNotFound {
		t.Errorf("no PAT: %v", err)
	}
}
