package scte35

import (
	"testing"

	"github.com/Comcast/gots/v2"
)

// seedDemo2Desc builds a descriptor through the public creation/setter API and
// puts it in a time_signal of its own. The sub-segment flag is set AFTER the
// type, so that it is kept for every type (SetTypeID only clears it when the
// type is changed afterwards) and HasSubSegments() reports it.
func seedDemo2Desc(typ SegDescType, subNum, subExp uint8) SegmentationDescriptor {
	sig := CreateSCTE35()
	cmd := CreateTimeSignalCommand()
	cmd.SetHasPTS(true)
	sig.SetCommandInfo(cmd)
	sig.SetPTS(90000)
	d := CreateSegmentationDescriptor()
	d.SetTypeID(typ)
	d.SetEventID(7)
	d.SetSegmentNumber(1)
	d.SetSegmentsExpected(2)
	d.SetHasSubSegments(true)
	d.SetSubSegmentNumber(subNum)
	d.SetSubSegmentsExpected(subExp)
	sig.SetDescriptors([]SegmentationDescriptor{d})
	return d
}

// Descriptor equality includes the sub-segment numbers whenever both
// descriptors report HasSubSegments(): two descriptors that differ in
// sub_segment_num or in sub_segments_expected are not equal, for every one of
// the 256 segmentation types.
func TestSeedDemoEqualComparesSubSegmentsForEveryType(t *testing.T) {
	for typ := 0; typ < 256; typ++ {
		a := seedDemo2Desc(SegDescType(typ), 1, 4)
		same := seedDemo2Desc(SegDescType(typ), 1, 4)
		otherNum := seedDemo2Desc(SegDescType(typ), 2, 4)
		otherExp := seedDemo2Desc(SegDescType(typ), 1, 5)
		if !a.HasSubSegments() || !otherNum.HasSubSegments() || !otherExp.HasSubSegments() {
			t.Fatalf("type 0x%02X: sub-segment flag not reported", typ)
		}
		if !a.Equal(same) || !same.Equal(a) {
			t.Fatalf("type 0x%02X: identical descriptors are not equal", typ)
		}
		if a.Equal(otherNum) || otherNum.Equal(a) {
			t.Fatalf("type 0x%02X: descriptors with sub_segment_num %d and %d are equal",
				typ, a.SubSegmentNumber(), otherNum.SubSegmentNumber())
		}
		if a.Equal(otherExp) || otherExp.Equal(a) {
			t.Fatalf("type 0x%02X: descriptors with sub_segments_expected %d and %d are equal",
				typ, a.SubSegmentsExpected(), otherExp.SubSegmentsExpected())
		}
	}
}

// Consequence in the tracker: the second descriptor is not a duplicate of the
// first one (it differs in sub_segment_num) and must be accepted.
func TestSeedDemoTrackerAcceptsOtherSubSegment(t *testing.T) {
	st := NewState()
	if _, err := st.ProcessDescriptor(seedDemo2Desc(SegDescProviderAdvertisementStart, 1, 4)); err != nil {
		t.Fatalf("first: %v", err)
	}
	if _, err := st.ProcessDescriptor(seedDemo2Desc(SegDescProviderAdvertisementStart, 2, 4)); err == gots.ErrSCTE35DuplicateDescriptor {
		t.Fatalf("a descriptor with another sub_segment_num is reported as a duplicate")
	}
}
