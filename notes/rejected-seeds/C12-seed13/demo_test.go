package ebp

import (
	"testing"
	"time"
)

// Setting a time in the representable range and reading it back returns an
// instant within one nanosecond, whatever else was done to the EBP before.
func TestSeedDemoTimeSetOnEmptyEBPReadsBack(t *testing.T) {
	instants := []time.Time{
		time.Date(1968, 1, 20, 3, 14, 8, 0, time.UTC),
		time.Date(2014, 4, 8, 13, 44, 56, 553818999, time.UTC),
		time.Date(2036, 2, 7, 6, 28, 15, 999999999, time.UTC),
		time.Date(2100, 3, 1, 0, 0, 0, 1, time.UTC),
	}
	check := func(name string, e EncoderBoundaryPoint, want time.Time) {
		got := e.EBPTime()
		if d := got.Sub(want); d < -time.Nanosecond || d > time.Nanosecond {
			t.Errorf("%s: set %v, read back %v", name, want, got)
		}
	}
	for _, want := range instants {
		cc := CreateComcastEBP()
		cc.SetIsEmpty(true)
		cc.SetEBPTime(want)
		check("comcast, empty", &cc, want)

		cl := CreateCableLabsEbp()
		cl.SetIsEmpty(true)
		cl.SetEBPTime(want)
		check("cablelabs, empty", &cl, want)

		// an empty EBP as it is decoded from a stream (tag, length 0)
		for _, in := range [][]byte{{ComcastEbpTag, 0}, {CableLabsEbpTag, 0}} {
			e, err := ReadEncoderBoundaryPoint(in)
			if err != nil {
				t.Fatal(err)
			}
			e.SetEBPTime(want)
			check("decoded empty", e, want)
			// filled in afterwards: the time set first is the one encoded
			e.SetIsEmpty(false)
			e.SetTimeFlag(true)
			back, err := ReadEncoderBoundaryPoint(e.Data())
			if err != nil {
				t.Fatal(err)
			}
			check("decoded empty, filled, re-decoded", back, want)
		}
	}
}
