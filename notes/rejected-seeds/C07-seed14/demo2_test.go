package psi

import (
	"testing"

	"github.com/Comcast/gots/v2/packet"
)

// seedDemo2View is an application-side view of a PAT: it only has the three
// methods of the PAT interface.
type seedDemo2View struct{ PAT }

// A PAT section that lists program 7 twice (0x0100 first, 0x0200 later) and
// program 3 once. The program map of that PAT is {7: 0x200, 3: 0x300}: 0x100 is
// not a value of the map, so a packet on PID 0x100 is not a PMT packet of it.
func TestSeedDemo2IsPMTFollowsTheProgramMap(t *testing.T) {
	entries := [][2]int{{7, 0x100}, {3, 0x300}, {7, 0x200}}
	sl := 9 + 4*len(entries)
	b := []byte{0x00, 0x00, 0xb0 | byte(sl>>8), byte(sl), 0x00, 0x01, 0xc1, 0x00, 0x00}
	for _, e := range entries {
		b = append(b, byte(e[0]>>8), byte(e[0]), 0xe0|byte(e[1]>>8), byte(e[1]))
	}
	b = append(b, 0, 0, 0, 0) // CRC, not checked

	pat, err := NewPAT(b)
	if err != nil {
		t.Fatal(err)
	}
	if n := pat.NumPrograms(); n != 3 {
		t.Fatalf("NumPrograms = %d, want 3", n)
	}
	m := pat.ProgramMap()
	if len(m) != 2 || m[7] != 0x200 || m[3] != 0x300 {
		t.Fatalf("ProgramMap = %v, want map[3:768 7:512]", m)
	}

	for pid := 0; pid < 0x2000; pid++ {
		var pkt packet.Packet
		pkt[0], pkt[1], pkt[2], pkt[3] = 0x47, byte(pid>>8), byte(pid), 0x10

		want := false
		for _, v := range m {
			if v == pid {
				want = true
			}
		}
		got, err := IsPMT(&pkt, pat)
		if err != nil {
			t.Fatal(err)
		}
		if got != want {
			t.Errorf("IsPMT(pid %#x) = %v, but %#x is a value of the program map: %v", pid, got, pid, want)
		}
		// the same PAT behind a view must classify the same way
		viaView, _ := IsPMT(&pkt, seedDemo2View{pat})
		if viaView != got {
			t.Errorf("IsPMT(pid %#x) = %v for the PAT and %v for a view of it", pid, got, viaView)
		}
	}
}
