package psi

import (
	"bytes"
	"testing"

	"github.com/Comcast/gots/v2"
)

type seedDemoES struct {
	streamType  byte
	pid         int
	descriptors []byte
}

// seedDemoPMTSection builds a well-formed TS_program_map_section with a correct CRC.
func seedDemoPMTSection(program int, version byte, current bool, streams ...seedDemoES) []byte {
	var body []byte
	for _, es := range streams {
		body = append(body, es.streamType, 0xE0|byte(es.pid>>8), byte(es.pid),
			0xF0|byte(len(es.descriptors)>>8), byte(len(es.descriptors)))
		body = append(body, es.descriptors...)
	}
	sectionLength := 9 + len(body) + 4
	vb := 0xC0 | version<<1
	if current {
		vb |= 1
	}
	sec := []byte{0x02, 0xB0 | byte(sectionLength>>8), byte(sectionLength),
		byte(program >> 8), byte(program), vb, 0x00, 0x00,
		0xE1, 0x00, // PCR_PID
		0xF0, 0x00, // program_info_length
	}
	sec = append(sec, body...)
	return append(sec, gots.ComputeCRC(sec)...)
}

func seedDemoCheck(t *testing.T, name string, got PMT, err error, wantVersion uint8, wantCNI bool, want ...seedDemoES) {
	t.Helper()
	if err != nil {
		t.Errorf("%s: unexpected error %v", name, err)
		return
	}
	if got.VersionNumber() != wantVersion || got.CurrentNextIndicator() != wantCNI {
		t.Errorf("%s: version/current_next = %d/%v, want %d/%v", name, got.VersionNumber(), got.CurrentNextIndicator(), wantVersion, wantCNI)
	}
	if len(got.ElementaryStreams()) != len(want) || len(got.Pids()) != len(want) {
		t.Errorf("%s: %d streams, %d pids, want %d (pids %v)", name, len(got.ElementaryStreams()), len(got.Pids()), len(want), got.Pids())
		return
	}
	for i, es := range got.ElementaryStreams() {
		if es.StreamType() != want[i].streamType || es.ElementaryPid() != want[i].pid || got.Pids()[i] != want[i].pid {
			t.Errorf("%s: stream %d is type %#x pid %d, want type %#x pid %d", name, i, es.StreamType(), es.ElementaryPid(), want[i].streamType, want[i].pid)
		}
	}
}

func seedDemoPacket(pid int, payload []byte) []byte {
	pkt := bytes.Repeat([]byte{0xFF}, 188)
	pkt[0], pkt[1], pkt[2], pkt[3] = 0x47, 0x40|byte(pid>>8), byte(pid), 0x10
	copy(pkt[4:], payload)
	return pkt
}

// The program map section of program 2 is carried behind another complete
// section that happens to be the program map section of program 1 (two
// programs sharing one PMT PID). "Other complete sections before it" must not
// change what is decoded.
func TestSeedDemoPMTBehindAnotherProgramMapSection(t *testing.T) {
	a := seedDemoPMTSection(1, 3, true, seedDemoES{0x1B, 0x100, nil})
	wantB := []seedDemoES{
		{0x0F, 0x200, []byte{0x0A, 0x04, 'e', 'n', 'g', 0x00}},
		{0x86, 0x201, nil},
	}
	b := seedDemoPMTSection(2, 7, false, wantB...)

	payload := append([]byte{0x00}, a...)
	payload = append(payload, b...)
	payload = append(payload, 0xFF, 0xFF, 0xFF)

	if done, err := PmtAccumulatorDoneFunc(payload); !done || err != nil {
		t.Fatalf("payload not complete: %v %v", done, err)
	}
	pmt, err := NewPMT(payload)
	seedDemoCheck(t, "NewPMT", pmt, err, 7, false, wantB...)

	stream := append(seedDemoPacket(0x1FFF, nil), seedDemoPacket(0x30, payload)...)
	pmt, err = ReadPMT(bytes.NewReader(stream), 0x30)
	seedDemoCheck(t, "ReadPMT", pmt, err, 7, false, wantB...)
}

// Control: the same section behind a complete section of another table id,
// and on its own, decodes identically with and without the change.
func TestSeedDemoPMTBehindOtherTableControl(t *testing.T) {
	wantB := []seedDemoES{
		{0x0F, 0x200, []byte{0x0A, 0x04, 'e', 'n', 'g', 0x00}},
		{0x86, 0x201, nil},
	}
	b := seedDemoPMTSection(2, 7, false, wantB...)
	other := []byte{0xC0, 0x00, 0x05, 1, 2, 3, 4, 5}

	payload := append([]byte{0x00}, other...)
	payload = append(payload, b...)
	pmt, err := NewPMT(payload)
	seedDemoCheck(t, "other table first", pmt, err, 7, false, wantB...)

	pmt, err = NewPMT(append([]byte{0x00}, b...))
	seedDemoCheck(t, "alone", pmt, err, 7, false, wantB...)
}
