package psi

import (
	"bytes"
	"testing"

	"github.com/Comcast/gots/v2"
	"github.com/Comcast/gots/v2/packet"
)

// Ten streams 0x100..0x109; nine PIDs requested that exist plus one absent PID
// (8192+0x109) that is no PID of the PMT: stream 0x109 must not be kept.
func TestSeedDemo2LongRequestListWithAbsentPid(t *testing.T) {
	build := func(n int) []byte {
		var es []byte
		for i := 0; i < n; i++ {
			es = append(es, 0x0F, 0xE1, byte(i), 0xF0, 0x00)
		}
		sl := 9 + len(es) + 4
		sec := []byte{0x02, 0xB0, byte(sl), 0x00, 0x01, 0xC3, 0x00, 0x00, 0xE1, 0x00, 0xF0, 0x00}
		sec = append(sec, es...)
		sec = append(sec, gots.ComputeCRC(sec)...)
		return append([]byte{0x00}, sec...)
	}
	in, want := build(10), build(9)
	p := &packet.Packet{}
	for i := range p {
		p[i] = 0xFF
	}
	p[0], p[1], p[2], p[3] = 0x47, 0x40, 0x30, 0x10
	copy(p[4:], in)
	req := []int{0x100, 0x101, 0x102, 0x103, 0x104, 0x105, 0x106, 0x107, 0x108, 8192 + 0x109}
	out, err := FilterPMTPacketsToPids([]*packet.Packet{p}, req)
	if err == nil || len(out) != 1 {
		t.Fatalf("want one packet and an error naming 8457, got %d packets, err %v", len(out), err)
	}
	if !bytes.Equal(out[0][4:4+len(want)], want) || out[0][4+len(want)] != 0xFF {
		t.Fatalf("filtered PMT is not the PMT of streams 0x100..0x108")
	}
}
