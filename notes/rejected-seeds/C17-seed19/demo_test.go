package packet

import (
	"bytes"
	"testing"
)

func seedDemoPkt(pusi bool, afc byte, afLen int, fill byte) *Packet {
	p := &Packet{}
	for i := range p {
		p[i] = fill
	}
	p[0], p[1], p[2], p[3] = 0x47, 0x01, 0x00, afc<<4
	if pusi {
		p[1] |= 0x40
	}
	if afc&2 != 0 {
		p[4] = byte(afLen)
		if afLen > 0 {
			p[5] = 0
		}
	}
	return p
}

// A unit start discards what came before even when the packet itself is refused.
func TestSeedDemoRefusedUnitStartDiscards(t *testing.T) {
	never := func([]byte) (bool, error) { return false, nil }
	for _, afLen := range []int{183, 184, 200, 255} {
		for _, afc := range []byte{2, 3} {
			a := NewAccumulator(never)
			first := seedDemoPkt(true, 1, 0, 0xA1)
			second := seedDemoPkt(false, 1, 0, 0xA2)
			if _, err := a.WritePacket(first); err != nil {
				t.Fatal(err)
			}
			if _, err := a.WritePacket(second); err != nil {
				t.Fatal(err)
			}
			bad := seedDemoPkt(true, afc, afLen, 0xA3)
			_, err := a.WritePacket(bad)
			pay, perr := Payload(bad)
			want := []byte{}
			wantPkts := 0
			if perr == nil {
				want, wantPkts = pay, 1
			} else if err == nil {
				t.Errorf("afc %d afLen %d: packet without payload accepted", afc, afLen)
			}
			if got := a.Bytes(); !bytes.Equal(got, want) {
				t.Errorf("afc %d afLen %d: %d bytes kept from before the most recent unit start, want %d",
					afc, afLen, len(got), len(want))
			}
			if got := a.Packets(); len(got) != wantPkts {
				t.Errorf("afc %d afLen %d: %d packets listed, want %d", afc, afLen, len(got), wantPkts)
			}
			// the next continuation packet follows the (refused) unit start
			third := seedDemoPkt(false, 1, 0, 0xA4)
			if _, err := a.WritePacket(third); err != nil {
				t.Fatal(err)
			}
			want = append(append([]byte{}, want...), third[4:]...)
			if got := a.Bytes(); !bytes.Equal(got, want) {
				t.Errorf("afc %d afLen %d: after continuation %d bytes, want %d", afc, afLen, len(got), len(want))
			}
		}
	}
}
