package packet

import (
	"bytes"
	"io"
	"testing"
)

// seedDemoSlowReader returns (0, nil) `idle` times before every chunk of data.
type seedDemoSlowReader struct {
	data  []byte
	idle  int
	left  int
	chunk int
}

func (r *seedDemoSlowReader) Read(p []byte) (int, error) {
	if len(r.data) == 0 {
		return 0, io.EOF
	}
	if r.left > 0 {
		r.left--
		return 0, nil
	}
	r.left = r.idle
	n := r.chunk
	if n > len(p) {
		n = len(p)
	}
	if n > len(r.data) {
		n = len(r.data)
	}
	copy(p, r.data[:n])
	r.data = r.data[n:]
	return n, nil
}

func TestSeedDemoReadFromIdleReader(t *testing.T) {
	stream := make([]byte, 5*PacketSize)
	for i := range stream {
		stream[i] = byte(i * 7)
	}
	for _, idle := range []int{1, 99, 100, 250} {
		var got []byte
		w := IOWriter(PacketWriterFunc(func(p *Packet) (int, error) {
			got = append(got, p[:]...)
			return PacketSize, nil
		}))
		r := &seedDemoSlowReader{data: stream, idle: idle, left: idle, chunk: 100}
		n, err := w.(io.ReaderFrom).ReadFrom(r)
		if err != nil || n != int64(len(stream)) || !bytes.Equal(got, stream) {
			t.Errorf("idle=%d: n=%d err=%v delivered=%d bytes, want %d, nil, all packets",
				idle, n, err, len(got), len(stream))
		}
	}
}
