package psi

import (
	"bytes"
	"testing"

	"github.com/Comcast/gots/v2"
)

// seedDemoPMT builds a complete PMT section with n streams, each with a
// stream identifier descriptor.
func seedDemoPMT(version uint8, n int) []byte {
	body := []byte{0x00, 0x01, 0xC0 | version<<1 | 1, 0x00, 0x00, 0xE1, 0x00, 0xF0, 0x00}
	for i := 0; i < n; i++ {
		pid := 0x200 + i
		body = append(body, 0x1B, 0xE0|byte(pid>>8), byte(pid), 0xF0, 0x03, 0x52, 0x01, byte(i))
	}
	sl := len(body) + 4
	s := append([]byte{0x02, 0xB0 | byte(sl>>8), byte(sl)}, body...)
	return append(s, gots.ComputeCRC(s)...)
}

// seedDemoPacket carries payload in one packet. A payload shorter than 184
// bytes is preceded by an adaptation field with the given flags byte and
// 0xFF stuffing.
func seedDemoPacket(pid int, pusi bool, cc int, afFlags byte, payload []byte) []byte {
	b1 := byte(pid >> 8)
	if pusi {
		b1 |= 0x40
	}
	p := []byte{0x47, b1, byte(pid)}
	if len(payload) == 184 {
		p = append(p, 0x10|byte(cc&0xf))
	} else {
		afLen := 183 - len(payload)
		p = append(p, 0x30|byte(cc&0xf), byte(afLen))
		if afLen > 0 {
			p = append(p, afFlags)
			for i := 1; i < afLen; i++ {
				p = append(p, 0xFF)
			}
		}
	}
	return append(p, payload...)
}

func seedDemoRead(t *testing.T, name string, ts []byte, wantStreams int, wantVersion uint8) {
	t.Helper()
	pmt, err := ReadPMT(bytes.NewReader(ts), 0x100)
	if err != nil {
		t.Errorf("%s: ReadPMT returned %v", name, err)
		return
	}
	if len(pmt.ElementaryStreams()) != wantStreams || len(pmt.Pids()) != wantStreams || pmt.VersionNumber() != wantVersion {
		t.Errorf("%s: %d streams of version %d, want %d of version %d", name, len(pmt.ElementaryStreams()), pmt.VersionNumber(), wantStreams, wantVersion)
		return
	}
	for i, es := range pmt.ElementaryStreams() {
		if es.ElementaryPid() != 0x200+i || es.StreamType() != 0x1B || len(es.Descriptors()) != 1 || es.Descriptors()[0].Tag() != 0x52 {
			t.Errorf("%s: stream %d differs", name, i)
		}
	}
}

// A PMT section in two packets; the second packet carries its part of the
// payload behind an adaptation field (stuffing) whose flags byte has the
// discontinuity_indicator set, and its continuity_counter is not the
// successor of the first packet's.
func TestSeedDemoContinuationPacketWithSignalledCounterJump(t *testing.T) {
	payload := append([]byte{0x00}, seedDemoPMT(7, 30)...)
	if len(payload) <= 184 || len(payload) > 184+182 {
		t.Fatalf("payload of %d bytes", len(payload))
	}
	for _, cc := range []int{0, 2, 5, 15} {
		for _, flags := range []byte{0x80, 0x80 | 0x20} {
			ts := seedDemoPacket(0x100, true, 0, 0, payload[:184])
			ts = append(ts, seedDemoPacket(0x100, false, cc, flags, payload[184:])...)
			seedDemoRead(t, "discontinuity_indicator and counter jump in the second packet", ts, 30, 7)
		}
	}
}

// Controls that hold with and without the change.
func TestSeedDemoControls(t *testing.T) {
	payload := append([]byte{0x00}, seedDemoPMT(7, 30)...)
	// every adaptation field flag that needs no optional field, counters in sequence
	for _, flags := range []byte{0x00, 0x80, 0x40, 0x20, 0xE0} {
		ts := seedDemoPacket(0x100, true, 0, 0, payload[:184])
		ts = append(ts, seedDemoPacket(0x100, false, 1, flags, payload[184:])...)
		seedDemoRead(t, "flags, counters in sequence", ts, 30, 7)
	}
	// every counter value in the second packet, discontinuity_indicator clear
	for cc := 0; cc < 16; cc++ {
		for _, flags := range []byte{0x00, 0x40, 0x20} {
			ts := seedDemoPacket(0x100, true, 0, 0, payload[:184])
			ts = append(ts, seedDemoPacket(0x100, false, cc, flags, payload[184:])...)
			seedDemoRead(t, "counter jump that is not signalled", ts, 30, 7)
		}
	}
	// discontinuity_indicator and a counter jump in a first packet
	ts := seedDemoPacket(0x100, true, 0, 0x80, payload[:100])
	ts = append(ts, seedDemoPacket(0x100, false, 1, 0, payload[100:])...)
	seedDemoRead(t, "discontinuity_indicator in the first packet", ts, 30, 7)
	ts = append(seedDemoPacket(0x100, true, 3, 0, append([]byte{0x00}, seedDemoPMT(1, 0)...)), seedDemoPacket(0x100, true, 9, 0x80, payload[:100])...)
	ts = append(ts, seedDemoPacket(0x100, false, 10, 0, payload[100:])...)
	seedDemoRead(t, "signalled jump at a payload unit start", ts, 30, 7)
	// discontinuity_indicator on another PID in between
	ts = seedDemoPacket(0x100, true, 0, 0, payload[:184])
	ts = append(ts, seedDemoPacket(0x101, false, 7, 0x80, make([]byte, 50))...)
	ts = append(ts, seedDemoPacket(0x100, false, 1, 0, payload[184:])...)
	seedDemoRead(t, "discontinuity_indicator on another PID", ts, 30, 7)
}
