package scte35

import (
	"testing"

	"github.com/Comcast/gots/v2"
)

// TestSeedDemoEncryptedSectionCommandByte: an encrypted section is rejected
// with the encryption error. In an encrypted splice_info_section everything
// from splice_command_type up to E_CRC_32 is cipher text, so the byte at the
// position of splice_command_type can be anything.
func TestSeedDemoEncryptedSectionCommandByte(t *testing.T) {
	// clear text: time_signal with pts_time 0x123456789, no descriptors
	sig := CreateSCTE35()
	cmd := CreateTimeSignalCommand()
	cmd.SetHasPTS(true)
	cmd.SetPTS(0x123456789)
	sig.SetCommandInfo(cmd)
	sig.SetPTS(0x123456789)
	clear := append([]byte{0x00}, sig.UpdateData()...) // pointer_field 0
	if _, err := NewSCTE35(clear); err != nil {
		t.Fatalf("clear section: %v", err)
	}
	const (
		flagsAt   = 1 + 3 + 1  // pointer, table header, protocol_version
		commandAt = 1 + 3 + 10 // splice_command_type
	)
	for c := 0; c < 256; c++ {
		enc := append([]byte(nil), clear...)
		enc[flagsAt] |= 0x80 // encrypted_packet
		enc[flagsAt] |= 0x02 // encryption_algorithm 1 (DES ECB)
		// "cipher text": the command type byte and the rest are not what they were
		enc[commandAt] = byte(c)
		for i := commandAt + 1; i < len(enc); i++ {
			enc[i] ^= byte(0x5a + i)
		}
		s, err := NewSCTE35(enc)
		if err != gots.ErrSCTE35EncryptionUnsupported || s != nil {
			t.Errorf("encrypted section, byte %#02x at splice_command_type: %v, %v; want nil, %v",
				c, s, err, gots.ErrSCTE35EncryptionUnsupported)
			if c > 8 {
				t.FailNow()
			}
		}
	}
}
