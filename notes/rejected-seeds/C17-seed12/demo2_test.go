package packet

import (
	"bytes"
	"testing"

	"github.com/Comcast/gots/v2"
)

// The accumulator works on the flags and the payload of whatever Packet value
// it is given; byte 0 plays no part in the property. Packets that differ from
// ordinary ones in byte 0 only must be treated like them.
func TestSeedDemo2FirstByteIsNotLookedAt(t *testing.T) {
	for _, first := range []byte{0x47, 0x00, 0xFF, 0x46, 0xC7} {
		mk := func(pusi bool, fill byte) *Packet {
			var p Packet
			p[0] = first
			p[1] = 0x01
			if pusi {
				p[1] |= 0x40
			}
			p[3] = 0x10
			for i := 4; i < 188; i++ {
				p[i] = fill
			}
			return &p
		}
		acc := NewAccumulator(func(b []byte) (bool, error) { return len(b) >= 3*184, nil })

		// refused until the first unit start
		if n, err := acc.WritePacket(mk(false, 1)); n != PacketSize || err != gots.ErrNoPayloadUnitStartIndicator {
			t.Errorf("first byte %#x: before the start: %d, %v", first, n, err)
		}
		var want []byte
		for i, s := range []struct {
			pusi bool
			fill byte
			err  error
		}{{true, 2, nil}, {false, 3, nil}, {true, 4, nil}, {false, 5, nil}, {false, 6, gots.ErrAccumulatorDone}} {
			p := mk(s.pusi, s.fill)
			before := *p
			n, err := acc.WritePacket(p)
			if n != PacketSize || err != s.err {
				t.Errorf("first byte %#x, packet %d: WritePacket = %d, %v, want %d, %v", first, i, n, err, PacketSize, s.err)
			}
			if *p != before {
				t.Errorf("first byte %#x, packet %d: packet modified", first, i)
			}
			if s.pusi {
				want = want[:0]
			}
			want = append(want, p[4:]...)
			if got := acc.Bytes(); !bytes.Equal(got, want) {
				t.Errorf("first byte %#x, packet %d: Bytes() has %d bytes, want %d", first, i, len(got), len(want))
			}
			if got := acc.Packets(); len(got) != len(want)/184 || (len(got) > 0 && *got[len(got)-1] != *p) {
				t.Errorf("first byte %#x, packet %d: Packets() has %d packets, want %d ending in the one written", first, i, len(got), len(want)/184)
			}
		}
		if n, err := acc.WritePacket(mk(true, 7)); n != 0 || err != gots.ErrAccumulatorDone {
			t.Errorf("first byte %#x: once complete: %d, %v", first, n, err)
		}
	}
}
