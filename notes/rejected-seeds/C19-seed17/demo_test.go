package scte35

import (
	"testing"

	"github.com/Comcast/gots/v2"
)

// application-side views around library objects
type demoSignalView struct{ SCTE35 }

type demoDescView struct {
	SegmentationDescriptor
	sig SCTE35
}

func (v demoDescView) SCTE35() SCTE35 { return v.sig }

func demoSignal(typ SegDescType, event uint32, pts uint64, hasPTS bool) (SCTE35, SegmentationDescriptor) {
	s := CreateSCTE35()
	cmd := CreateTimeSignalCommand()
	s.SetCommandInfo(cmd)
	s.SetHasPTS(hasPTS)
	s.SetAdjustPTS(gots.PTS(pts)) // signal time (pts_adjustment when the command has no time)
	d := CreateSegmentationDescriptor()
	d.SetTypeID(typ)
	d.SetEventID(event)
	s.SetDescriptors([]SegmentationDescriptor{d})
	return s, d
}

// A provider PO start (0x34) closes an open program start (here a
// provider ad start 0x30 or 0x3C) exactly when the two signals' PTS values differ.
func TestSeedDemoCanCloseDiffPTSThroughViews(t *testing.T) {
	for _, in := range []SegDescType{0x34, 0x36, 0x44} {
		for _, open := range []SegDescType{0x30, 0x3C} {
			for _, hasPTS := range []bool{true, false} {
				_, d := demoSignal(in, 1, 1000, hasPTS)
				os, o := demoSignal(open, 2, 5000, hasPTS)
				if d.SCTE35().PTS() == o.SCTE35().PTS() {
					t.Fatal("setup: PTS values must differ")
				}
				plain := d.CanClose(o)
				view := d.CanClose(demoDescView{o, demoSignalView{os}})
				if !plain || !view {
					t.Errorf("in %#x open %#x hasPTS=%v: PTS differ, want close; plain=%v through view=%v",
						in, open, hasPTS, plain, view)
				}
			}
		}
	}
}
