package packet

import (
	"bytes"
	"io"
	"testing"
)

// segmentSink is a packet writer whose Close only finishes the current output
// segment (it flushes and rolls over); packets written afterwards start the
// next segment. It is a perfectly legal PacketWriteCloser.
type segmentSink struct {
	segments [][][]byte
	cur      [][]byte
}

func (s *segmentSink) WritePacket(p *Packet) (int, error) {
	s.cur = append(s.cur, append([]byte(nil), p[:]...))
	return PacketSize, nil
}

func (s *segmentSink) Close() error {
	s.segments = append(s.segments, s.cur)
	s.cur = nil
	return nil
}

// TestSeedDemoWriteAfterClose: for EVERY slice of n*188 bytes, Write hands the
// n packets to the packet writer and returns the full length; ReadFrom
// delivers every complete packet of the reader. The adapter has no say in
// what Close means for the wrapped writer.
func TestSeedDemoWriteAfterClose(t *testing.T) {
	mk := func(seed byte, n int) []byte {
		b := make([]byte, n*PacketSize)
		for i := range b {
			b[i] = seed + byte(i) + byte(i/PacketSize)
		}
		return b
	}
	sink := &segmentSink{}
	w := IOWriteCloser(sink)

	first := mk(1, 2)
	if n, err := w.Write(first); n != len(first) || err != nil {
		t.Fatalf("first Write = %d, %v", n, err)
	}
	if err := w.Close(); err != nil {
		t.Fatalf("Close = %v", err)
	}
	if len(sink.segments) != 1 || len(sink.segments[0]) != 2 {
		t.Fatalf("Close was not passed on: %d segments", len(sink.segments))
	}

	second := mk(9, 3)
	n, err := w.Write(second)
	if n != len(second) || err != nil {
		t.Errorf("Write after Close = %d, %v; want %d, <nil>", n, err, len(second))
	}
	if len(sink.cur) != 3 {
		t.Fatalf("Write after Close delivered %d packets, want 3", len(sink.cur))
	}
	for i, p := range sink.cur {
		if !bytes.Equal(p, second[i*PacketSize:(i+1)*PacketSize]) {
			t.Errorf("packet %d differs", i)
		}
	}

	third := mk(77, 2)
	n64, err := w.(io.ReaderFrom).ReadFrom(bytes.NewReader(third))
	if n64 != int64(len(third)) || err != nil {
		t.Errorf("ReadFrom after Close = %d, %v; want %d, <nil>", n64, err, len(third))
	}
	if len(sink.cur) != 5 {
		t.Errorf("ReadFrom after Close: sink holds %d packets, want 5", len(sink.cur))
	}
}
