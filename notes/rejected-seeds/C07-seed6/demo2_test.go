package psi

import (
	"bytes"
	"reflect"
	"testing"

	"github.com/Comcast/gots/v2"
)

// seedDemo2PATPacket builds a PID 0 packet carrying one well-formed
// program_association_section (pointer_field 0, correct CRC, 0xFF stuffing).
func seedDemo2PATPacket(current bool, entries ...[2]int) []byte {
	sectionLength := 5 + 4*len(entries) + 4
	vb := byte(0xC2) // version 1
	if current {
		vb |= 1
	}
	sec := []byte{0x00, 0xB0 | byte(sectionLength>>8), byte(sectionLength), 0x00, 0x01, vb, 0x00, 0x00}
	for _, e := range entries {
		sec = append(sec, byte(e[0]>>8), byte(e[0]), 0xE0|byte(e[1]>>8), byte(e[1]))
	}
	sec = append(sec, gots.ComputeCRC(sec)...)
	pkt := bytes.Repeat([]byte{0xFF}, 188)
	pkt[0], pkt[1], pkt[2], pkt[3], pkt[4] = 0x47, 0x40, 0x00, 0x10, 0x00
	copy(pkt[5:], sec)
	return pkt
}

func seedDemo2Other(pid int) []byte {
	pkt := bytes.Repeat([]byte{0xFF}, 188)
	pkt[0], pkt[1], pkt[2], pkt[3] = 0x47, byte(pid>>8), byte(pid), 0x10
	return pkt
}

func seedDemo2Expect(t *testing.T, name string, stream []byte, wantN int, wantMap map[int]int) {
	t.Helper()
	pat, err := ReadPAT(bytes.NewReader(stream))
	if err != nil {
		t.Errorf("%s: unexpected error %v", name, err)
		return
	}
	if pat.NumPrograms() != wantN || !reflect.DeepEqual(pat.ProgramMap(), wantMap) {
		t.Errorf("%s: %d programs %v, want %d %v", name, pat.NumPrograms(), pat.ProgramMap(), wantN, wantMap)
	}
}

// The first PID 0 packet carries a well-formed section with
// current_next_indicator 0, a later PID 0 packet carries a current one.
func TestSeedDemo2ReadPATNextTableFirst(t *testing.T) {
	var stream []byte
	stream = append(stream, seedDemo2Other(0x1FFF)...)
	stream = append(stream, seedDemo2PATPacket(false, [2]int{1, 0x100})...)
	stream = append(stream, seedDemo2Other(0x100)...)
	stream = append(stream, seedDemo2PATPacket(true, [2]int{2, 0x200}, [2]int{3, 0x300})...)
	seedDemo2Expect(t, "next table, then current table", stream, 1, map[int]int{1: 0x100})
}

// Controls that behave the same with and without the change.
func TestSeedDemo2ReadPATControls(t *testing.T) {
	a := append(seedDemo2Other(0x20), seedDemo2PATPacket(true, [2]int{1, 0x100})...)
	a = append(a, seedDemo2PATPacket(false, [2]int{2, 0x200})...)
	seedDemo2Expect(t, "current table first", a, 1, map[int]int{1: 0x100})

	b := append(seedDemo2Other(0x20), seedDemo2PATPacket(false, [2]int{0, 0x10}, [2]int{5, 0x1FFE})...)
	b = append(b, seedDemo2Other(0x21)...)
	seedDemo2Expect(t, "next table only", b, 2, map[int]int{5: 0x1FFE})

	c := append(seedDemo2PATPacket(false, [2]int{1, 0x100}), seedDemo2PATPacket(false, [2]int{2, 0x200})...)
	seedDemo2Expect(t, "two next tables", c, 1, map[int]int{1: 0x100})
}
