package ebp

import (
	"testing"
	"time"
)

func seedDemo2Abs(d time.Duration) time.Duration {
	if d < 0 {
		return -d
	}
	return d
}

// Set a time, read it back: within one nanosecond, whatever else the object
// carries at that moment. Here the EBP has been marked empty before the time is set.
func TestSeedDemo2TimeSetOnEmptyEBP(t *testing.T) {
	want := time.Date(2021, 6, 1, 12, 30, 15, 250000000, time.UTC)

	c := CreateComcastEBP()
	var e EncoderBoundaryPoint = &c
	e.SetIsEmpty(true)
	e.SetEBPTime(want)
	if got := e.EBPTime(); seedDemo2Abs(got.Sub(want)) > time.Nanosecond {
		t.Errorf("empty EBP: EBPTime() = %v after SetEBPTime(%v)", got, want)
	}

	// and the EBP that is then built through the setters carries that time
	e.SetIsEmpty(false)
	e.SetTimeFlag(true)
	data := e.Data()
	if int(data[1]) != len(data)-2 {
		t.Fatalf("length byte %d, %d bytes follow", data[1], len(data)-2)
	}
	d, err := ReadEncoderBoundaryPoint(data)
	if err != nil {
		t.Fatalf("decode: %v", err)
	}
	if !d.TimeFlag() {
		t.Fatalf("time flag lost")
	}
	if got := d.EBPTime(); seedDemo2Abs(got.Sub(want)) > time.Nanosecond {
		t.Errorf("decoded: EBPTime() = %v, want %v", got, want)
	}

	l := CreateCableLabsEbp()
	l.SetIsEmpty(true)
	l.SetEBPTime(want)
	if got := l.EBPTime(); seedDemo2Abs(got.Sub(want)) > time.Nanosecond {
		t.Errorf("empty CableLabs EBP: EBPTime() = %v after SetEBPTime(%v)", got, want)
	}
}
