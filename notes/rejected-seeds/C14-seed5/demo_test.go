package psi

import (
	"bytes"
	"testing"

	"github.com/Comcast/gots/v2/packet"
)

func seedDemoCRC(b []byte) uint32 {
	crc := uint32(0xffffffff)
	for _, x := range b {
		crc ^= uint32(x) << 24
		for j := 0; j < 8; j++ {
			if crc&0x80000000 != 0 {
				crc = crc<<1 ^ 0x04c11db7
			} else {
				crc <<= 1
			}
		}
	}
	return crc
}

// seedDemoPMT builds one PMT packet on pid 0x30 for program 1 with the given (stream_type, pid) entries, no descriptors
func seedDemoPMT(pcrPid int, streams [][2]int) *packet.Packet {
	body := []byte{
		0x00, 0x01, 0xc1, 0x00, 0x00,
		0xe0 | byte(pcrPid>>8), byte(pcrPid), 0xf0, 0x00,
	}
	for _, s := range streams {
		body = append(body, byte(s[0]), 0xe0|byte(s[1]>>8), byte(s[1]), 0xf0, 0x00)
	}
	sl := len(body) + 4
	section := append([]byte{0x02, 0xb0 | byte(sl>>8), byte(sl)}, body...)
	crc := seedDemoCRC(section)
	section = append(section, byte(crc>>24), byte(crc>>16), byte(crc>>8), byte(crc))
	var pkt packet.Packet
	for i := range pkt {
		pkt[i] = 0xff
	}
	copy(pkt[:], []byte{0x47, 0x40, 0x30, 0x10, 0x00})
	copy(pkt[5:], section)
	return &pkt
}

// A requested PID that is not a PID of the PMT (here: a value that is not even a 13 bit number)
// must select nothing and must be reported as missing.
func TestSeedDemoFilterSelectsOnlyRequestedPids(t *testing.T) {
	in := seedDemoPMT(0x101, [][2]int{{0x1b, 0x101}, {0x0f, 0x102}, {0x06, 0x103}})
	want := seedDemoPMT(0x101, [][2]int{{0x0f, 0x102}})

	for _, absent := range []int{0x101 + 1<<16, 0x103 - 1<<16, 0x101 + 1<<32, 0x2101} {
		keep := *in
		out, err := FilterPMTPacketsToPids([]*packet.Packet{in}, []int{0x102, absent})
		if err == nil {
			t.Errorf("request {0x102, %#x}: no error although %#x is not in the PMT", absent, absent)
		}
		if len(out) != 1 {
			t.Fatalf("request {0x102, %#x}: %d packets", absent, len(out))
		}
		if !bytes.Equal(out[0][:], want[:]) {
			t.Errorf("request {0x102, %#x}:\n got  % x\n want % x", absent, out[0][:48], want[:48])
		}
		if keep != *in {
			t.Errorf("input modified")
		}
	}
}
