package psi

import (
	"bytes"
	"testing"

	"github.com/Comcast/gots/v2"
)

// A stream of null packets (PID 0x1FFF) that is cut right behind the 4-byte
// header of its last packet contains no PID-0 packet: ReadPAT must report
// gots.ErrPATNotFound, as it does for every other cut position.
func TestSeedDemoReadPATStreamCutBehindHeader(t *testing.T) {
	null := make([]byte, 188)
	null[0], null[1], null[2], null[3] = 0x47, 0x1f, 0xff, 0x10
	for i := 4; i < 188; i++ {
		null[i] = 0xff
	}
	stream := bytes.Repeat(null, 3)
	for cut := 2 * 188; cut <= 3*188; cut++ {
		p, err := ReadPAT(bytes.NewReader(stream[:cut]))
		if p != nil || err != gots.ErrPATNotFound {
			t.Errorf("stream of %d bytes (2 packets + %d): got (%v, %v), want (nil, %v)",
				cut, cut-2*188, p, err, gots.ErrPATNotFound)
		}
	}
}
