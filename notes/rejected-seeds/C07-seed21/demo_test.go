package psi

import (
	"testing"

	"github.com/Comcast/gots/v2/packet"
)

// PAT with three entries: program 1 -> 0x0100, program 2 -> 0x0200 and
// program 1 again -> 0x0300. The map holds 1 -> 0x0300 and 2 -> 0x0200, so
// 0x0100 is not a value of the map.
func TestSeedDemoIsPMTShadowedEntry(t *testing.T) {
	sec := []byte{0x00, 0x00, 0xb0, 0x15, 0x00, 0x01, 0xc1, 0x00, 0x00,
		0x00, 0x01, 0xe1, 0x00,
		0x00, 0x02, 0xe2, 0x00,
		0x00, 0x01, 0xe3, 0x00,
		0, 0, 0, 0}
	crc := gotsCRC(sec[1 : len(sec)-4])
	copy(sec[len(sec)-4:], crc)
	p, err := NewPAT(sec)
	if err != nil {
		t.Fatal(err)
	}
	m := p.ProgramMap()
	if len(m) != 2 || m[1] != 0x300 || m[2] != 0x200 || p.NumPrograms() != 3 {
		t.Fatalf("unexpected map %v / count %d", m, p.NumPrograms())
	}
	for _, pid := range []int{0x100, 0x200, 0x300, 0x101} {
		var pkt packet.Packet
		pkt[0], pkt[1], pkt[2], pkt[3] = 0x47, 0x40|byte(pid>>8), byte(pid), 0x10
		want := false
		for _, v := range m {
			if v == pid {
				want = true
			}
		}
		got, err := IsPMT(&pkt, p)
		if err != nil {
			t.Fatal(err)
		}
		if got != want {
			t.Errorf("IsPMT(pid %#x) = %v, but map %v says %v", pid, got, m, want)
		}
	}
}

func gotsCRC(b []byte) []byte {
	crc := uint32(0xffffffff)
	for _, x := range b {
		crc ^= uint32(x) << 24
		for i := 0; i < 8; i++ {
			if crc&0x80000000 != 0 {
				crc = crc<<1 ^ 0x04c11db7
			} else {
				crc <<= 1
			}
		}
	}
	return []byte{byte(crc >> 24), byte(crc >> 16), byte(crc >> 8), byte(crc)}
}
