package scte35

// Copy into scte35/ (package scte35). Uses only the exported API.

import (
	"strings"
	"testing"

	"github.com/Comcast/gots/v2"
)

// seedDemo2Section builds pointer_field + splice_info_section with a
// time_signal and one segmentation descriptor that carries the given
// multiple UPID list (type, value, type, value ...).
func seedDemo2Section(flags byte, mid ...string) []byte {
	var upid []byte
	for i := 0; i+1 < len(mid); i += 2 {
		upid = append(upid, mid[i][0], byte(len(mid[i+1])))
		upid = append(upid, mid[i+1]...)
	}
	d := []byte{0x02, 0, 'C', 'U', 'E', 'I', 0, 0, 0, 9, 0x7F, flags, byte(SegUPIDMID), byte(len(upid))}
	d = append(d, upid...)
	d = append(d, 0x40, 0, 0)
	d[1] = byte(len(d) - 2)

	body := []byte{
		0x00,
		0x00, 0x00, 0x00, 0x00, 0x00,
		0x00,
		0xFF, 0xFF, 0xFF,
		0x06,
		0xFE, 0x00, 0x00, 0x10, 0x00,
		byte(len(d) >> 8), byte(len(d)),
	}
	body = append(body, d...)
	n := len(body) + 4
	sec := append([]byte{0xFC, 0x30 | byte(n>>8), byte(n)}, body...)
	sec = append(sec, gots.ComputeCRC(sec)...)
	return append([]byte{0x00}, sec...)
}

func TestSeedDemo2StreamSwitchSignalId(t *testing.T) {
	const adi, ads = "\x09", "\x0e"
	const rotation = "urn:comcast:linear:licenserotation"
	const restricted, notRestricted = 0x9F, 0xBF

	for _, first := range []string{
		"BLACKOUT:Sq+kY9muQderGNiNtOoN6w==",
		"BLACKOUT:",
		"BLACKOUT",
		"BLACKOUT-17",
		"SIGNAL:BLACKOUT:Sq+kY9muQderGNiNtOoN6w==",
		"blackout:1",
		"",
	} {
		for _, flags := range []byte{restricted, notRestricted} {
			sig, err := NewSCTE35(seedDemo2Section(flags, adi, first, ads, rotation))
			if err != nil {
				t.Fatal(err)
			}
			d := sig.Descriptors()[0]
			m := d.MID()
			if len(m) != 2 || string(m[0].UPID()) != first || string(m[1].UPID()) != rotation {
				t.Fatalf("MID decoded wrong: %v", m)
			}

			// the stream switch signal id as a function of the decoded fields
			wantID, wantErr := "", gots.ErrVSSSignalIdNotFound
			if !d.IsDeliveryNotRestricted() && m[0].UPIDType() == SegUPIDADI && m[1].UPIDType() == SegUPADSINFO &&
				strings.Contains(first, "BLACKOUT") {
				wantID, wantErr = strings.TrimPrefix(first, "BLACKOUT:"), nil
			}
			id, err := d.StreamSwitchSignalId()
			if id != wantID || err != wantErr {
				t.Errorf("first UPID %q, delivery_not_restricted %v: StreamSwitchSignalId() = %q, %v; want %q, %v",
					first, d.IsDeliveryNotRestricted(), id, err, wantID, wantErr)
			}
		}
	}
}
