package psi

// Copy into psi/ (package psi). Uses only the exported API.

import (
	"bytes"
	"reflect"
	"testing"

	"github.com/Comcast/gots/v2"
	"github.com/Comcast/gots/v2/packet"
)

// seedDemoPPATPacket builds a PID 0 packet that carries one complete program
// association section. current is the current_next_indicator of the section.
func seedDemoPPATPacket(current bool, version int, entries [][2]int) []byte {
	sec := []byte{0x00, 0, 0, 0x12, 0x34, 0, 0x00, 0x00}
	sec[5] = 0xC0 | byte(version&0x1f)<<1
	if current {
		sec[5] |= 1
	}
	for _, e := range entries {
		sec = append(sec, byte(e[0]>>8), byte(e[0]), 0xE0|byte(e[1]>>8&0x1f), byte(e[1]))
	}
	n := len(sec) - 3 + 4
	sec[1] = 0xB0 | byte(n>>8)
	sec[2] = byte(n)
	sec = append(sec, gots.ComputeCRC(sec)...)

	pkt := make([]byte, packet.PacketSize)
	for i := range pkt {
		pkt[i] = 0xFF
	}
	copy(pkt, []byte{0x47, 0x40, 0x00, 0x10, 0x00})
	copy(pkt[5:], sec)
	return pkt
}

func seedDemoPOther(pid int) []byte {
	pkt := make([]byte, packet.PacketSize)
	copy(pkt, []byte{0x47, byte(pid >> 8 & 0x1f), byte(pid), 0x10})
	return pkt
}

func TestSeedDemoReadPATReturnsTheFirstPAT(t *testing.T) {
	first := [][2]int{{0, 16}, {1, 0x100}, {2, 0x1200}}
	later := [][2]int{{7, 0x30}}
	want := map[int]int{1: 0x100, 2: 0x1200}

	for _, current := range []bool{true, false} {
		var stream []byte
		stream = append(stream, seedDemoPOther(0x21)...)
		stream = append(stream, seedDemoPOther(0x1fff)...)
		patPkt := seedDemoPPATPacket(current, 3, first)
		stream = append(stream, patPkt...)
		stream = append(stream, seedDemoPOther(0x100)...)
		stream = append(stream, seedDemoPPATPacket(true, 4, later)...)
		stream = append(stream, seedDemoPOther(0x30)...)

		// the three carriers have to agree
		fromPacket, err := NewPAT(patPkt)
		if err != nil {
			t.Fatal(err)
		}
		fromPayload, err := NewPAT(patPkt[4:])
		if err != nil {
			t.Fatal(err)
		}
		fromStream, err := ReadPAT(bytes.NewReader(stream))
		if err != nil {
			t.Fatalf("current_next_indicator %v: ReadPAT: %v", current, err)
		}
		for name, p := range map[string]PAT{"packet": fromPacket, "payload": fromPayload, "stream": fromStream} {
			if got := p.NumPrograms(); got != 3 {
				t.Errorf("current_next_indicator %v, %s: NumPrograms() = %d, want 3", current, name, got)
			}
			if got := p.ProgramMap(); !reflect.DeepEqual(got, want) {
				t.Errorf("current_next_indicator %v, %s: ProgramMap() = %v, want %v", current, name, got, want)
			}
			if pid, err := p.SPTSpmtPID(); err == nil {
				t.Errorf("current_next_indicator %v, %s: SPTSpmtPID() = %d, want an error", current, name, pid)
			}
		}
	}
}
