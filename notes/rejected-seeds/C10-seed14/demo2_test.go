package scte35

// Copy into scte35/ (package scte35).

import (
	"testing"

	"github.com/Comcast/gots/v2"
)

// seedDemo2View is an application-side view of a descriptor: the library's
// descriptor plus some labels. It is used by value, and it has all the methods
// of SegmentationDescriptor through the embedded interface.
type seedDemo2View struct {
	SegmentationDescriptor
	labels []string
}

func seedDemo2Desc(t *testing.T, typ SegDescType, event uint32, pts gots.PTS) SegmentationDescriptor {
	t.Helper()
	sig := CreateSCTE35()
	cmd := CreateTimeSignalCommand()
	cmd.SetHasPTS(true)
	sig.SetCommandInfo(cmd)
	sig.SetPTS(pts)
	d := CreateSegmentationDescriptor()
	d.SetTypeID(typ)
	d.SetEventID(event)
	sig.SetDescriptors([]SegmentationDescriptor{d})
	return d
}

func TestSeedDemo2ValueViewsOfDescriptors(t *testing.T) {
	defer func() {
		if r := recover(); r != nil {
			t.Fatalf("a state tracker call panicked: %v", r)
		}
	}()
	s := NewState()
	a := seedDemo2View{seedDemo2Desc(t, SegDescProgramStart, 1, 90000), []string{"a"}}
	b := seedDemo2View{seedDemo2Desc(t, SegDescChapterStart, 2, 180000), []string{"b"}}
	if _, err := s.ProcessDescriptor(a); err != nil {
		t.Fatalf("program start: %v", err)
	}
	if _, err := s.ProcessDescriptor(b); err != nil {
		t.Fatalf("chapter start: %v", err)
	}
	if n := len(s.Open()); n != 2 {
		t.Fatalf("%d descriptors open, want 2", n)
	}
}
