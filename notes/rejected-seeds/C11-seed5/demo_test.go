package pes

import (
	"bytes"
	"testing"

	"github.com/Comcast/gots/v2/packet"
)

// seedDemoPacket builds a transport packet with the given PID, PUSI set, no
// adaptation field, whose payload starts with a well-formed PES header
// (video stream 0xE0, data_alignment_indicator set, PTS only).
func seedDemoPacket(pid int) (*packet.Packet, []byte) {
	var pkt packet.Packet
	pkt[0] = 0x47
	pkt[1] = 0x40 | byte(pid>>8&0x1f) // PUSI + PID
	pkt[2] = byte(pid)
	pkt[3] = 0x10 // payload only, cc 0
	hdr := []byte{0x00, 0x00, 0x01, 0xE0, 0x00, 0x00, 0x84, 0x80, 0x05, 0x21, 0x00, 0x01, 0x00, 0x01}
	copy(pkt[4:], hdr)
	for i := 4 + len(hdr); i < len(pkt); i++ {
		pkt[i] = byte(i)
	}
	return &pkt, append([]byte{}, pkt[4+len(hdr):]...)
}

// The statement: a transport packet yields PES header bytes exactly when PUSI
// is set and its payload begins with 00 00 01 - for every PID.
func TestSeedDemoPESHeaderOnEveryPID(t *testing.T) {
	for _, pid := range []int{0x0100, 0x1FFE, 0x1FFF} {
		pkt, wantData := seedDemoPacket(pid)
		pay, err := packet.PESHeader(pkt)
		if err != nil {
			t.Errorf("pid 0x%04X: packet.PESHeader: %v", pid, err)
			continue
		}
		if !bytes.Equal(pay, pkt[4:]) {
			t.Errorf("pid 0x%04X: PESHeader returned %d bytes, want the payload", pid, len(pay))
		}
		h, err := NewPESHeader(pay)
		if err != nil || !h.HasPTS() || h.PTS() != 0 || !h.DataAligned() {
			t.Errorf("pid 0x%04X: header decoded wrong: %v", pid, err)
		}
		data, ok := AlignedPUSI(pkt)
		if !ok || !bytes.Equal(data, wantData) {
			t.Errorf("pid 0x%04X: AlignedPUSI = (%d bytes, %v), want (%d bytes, true)", pid, len(data), ok, len(wantData))
		}
	}
}
