package psi

// Copy into psi/ (package psi). Uses only the exported API.

import (
	"encoding/hex"
	"testing"

	"github.com/Comcast/gots/v2/packet"
)

// remappedPAT decorates a library PAT: it embeds the library's object and
// replaces the program map (here: the PMT of the program has been moved to
// another PID by a remultiplexer). NumPrograms and SPTSpmtPID are the promoted
// methods of the embedded library object.
type remappedPAT struct {
	PAT
	m map[int]int
}

func (r remappedPAT) ProgramMap() map[int]int {
	c := make(map[int]int, len(r.m))
	for k, v := range r.m {
		c[k] = v
	}
	return c
}

// mapOnlyPAT is a minimal implementation of the interface whose single
// program accessor reports an outdated PID (e.g. it was computed before the
// map was edited).
type mapOnlyPAT struct {
	m    map[int]int
	spts int
}

func (p mapOnlyPAT) NumPrograms() int         { return len(p.m) }
func (p mapOnlyPAT) ProgramMap() map[int]int  { return p.m }
func (p mapOnlyPAT) SPTSpmtPID() (int, error) { return p.spts, nil }

func seedDemoPkt(pid int) *packet.Packet {
	var pkt packet.Packet
	pkt[0] = 0x47
	pkt[1] = byte(pid >> 8 & 0x1f)
	pkt[2] = byte(pid)
	pkt[3] = 0x10
	return &pkt
}

func seedDemoCheck(t *testing.T, name string, pat PAT) {
	t.Helper()
	values := map[int]bool{}
	for _, pid := range pat.ProgramMap() {
		values[pid] = true
	}
	for _, pid := range []int{0, 100, 101, 200, 4660, 8191} {
		got, err := IsPMT(seedDemoPkt(pid), pat)
		if err != nil {
			t.Fatalf("%s: IsPMT(pid %d): %v", name, pid, err)
		}
		if got != values[pid] {
			t.Errorf("%s: IsPMT(pid %d) = %v, but the program map of the PAT is %v", name, pid, got, pat.ProgramMap())
		}
	}
}

func TestSeedDemo2IsPMTUsesTheProgramMap(t *testing.T) {
	// one program: program 1 -> PID 100
	b, _ := hex.DecodeString("0000b00d0000c100000001e064dee0f320")
	lib, err := NewPAT(b)
	if err != nil {
		t.Fatal(err)
	}
	// the library's own object (control, passes with and without the change)
	seedDemoCheck(t, "library PAT", lib)
	// decorator: the program map says the PMT is on PID 200 now
	seedDemoCheck(t, "decorated PAT, PMT moved", remappedPAT{lib, map[int]int{1: 200}})
	// decorator: the program has been filtered out
	seedDemoCheck(t, "decorated PAT, program hidden", remappedPAT{lib, map[int]int{}})
	// minimal implementation with two programs in the map
	seedDemoCheck(t, "minimal PAT", mapOnlyPAT{map[int]int{1: 100, 2: 4660}, 101})
}
