package scte35

import (
	"testing"

	"github.com/Comcast/gots/v2"
)

func seedDemo2PO(eventID uint32, pts gots.PTS, withSub bool, subNum, subExp uint8) SegmentationDescriptor {
	sig := CreateSCTE35()
	sig.SetCommandInfo(CreateTimeSignalCommand())
	sig.SetHasPTS(true)
	sig.SetPTS(pts)
	d := CreateSegmentationDescriptor()
	d.SetTypeID(SegDescProviderPOStart) // 0x34
	d.SetEventID(eventID)
	d.SetHasProgramSegmentation(true)
	d.SetSegmentNumber(1)
	d.SetSegmentsExpected(2)
	if withSub {
		d.SetHasSubSegments(true)
		d.SetSubSegmentNumber(subNum)
		d.SetSubSegmentsExpected(subExp)
	}
	sig.SetDescriptors([]SegmentationDescriptor{d})
	return d
}

// Two provider placement opportunity starts on the same signal time and with
// the same event id and segment numbers; one carries the optional sub-segment
// fields, the other does not. They are different descriptors (they differ on
// the wire), a 0x34 never closes a 0x34, so both have to be open, and an
// explicit close of one must return that one.
func TestSeedDemoSubSegmentSibling(t *testing.T) {
	plain := seedDemo2PO(7, 5000, false, 0, 0)
	withSub := seedDemo2PO(7, 5000, true, 1, 3)

	st := NewState()
	if _, err := st.ProcessDescriptor(plain); err != nil {
		t.Fatalf("plain: %v", err)
	}
	closed, err := st.ProcessDescriptor(withSub)
	if err != nil || len(closed) != 0 {
		t.Errorf("descriptor with sub-segments: closed=%v err=%v, want accepted, nothing closed", closed, err)
	}
	open := st.Open()
	if len(open) != 2 || open[0] != plain || open[1] != withSub {
		t.Errorf("Open() = %v, want [plain withSub]", open)
	}

	closed, err = st.Close(withSub)
	if err != nil || len(closed) != 1 {
		t.Fatalf("Close(withSub): closed=%v err=%v", closed, err)
	}
	if closed[0].HasSubSegments() != withSub.HasSubSegments() ||
		closed[0].SubSegmentNumber() != withSub.SubSegmentNumber() ||
		closed[0].SubSegmentsExpected() != withSub.SubSegmentsExpected() {
		t.Errorf("Close(withSub) reported a descriptor that is not equal to its argument: hasSub=%v %d/%d",
			closed[0].HasSubSegments(), closed[0].SubSegmentNumber(), closed[0].SubSegmentsExpected())
	}
	open = st.Open()
	if len(open) != 1 || open[0] != plain {
		t.Errorf("Open() after Close(withSub) = %v, want [plain]", open)
	}
}

// The same pair in the other order, decoded twice from the wire format.
func TestSeedDemoSubSegmentSiblingDecoded(t *testing.T) {
	reparse := func(d SegmentationDescriptor) SegmentationDescriptor {
		sig, err := NewSCTE35(append(seedDemoPointer(), d.SCTE35().UpdateData()...))
		if err != nil {
			t.Fatalf("NewSCTE35: %v", err)
		}
		if len(sig.Descriptors()) != 1 {
			t.Fatalf("descriptors: %d", len(sig.Descriptors()))
		}
		return sig.Descriptors()[0]
	}
	withSub := reparse(seedDemo2PO(9, 123456, true, 2, 2))
	plain := reparse(seedDemo2PO(9, 123456, false, 0, 0))
	if !withSub.HasSubSegments() || plain.HasSubSegments() {
		t.Fatalf("decoding lost the sub-segment fields: %v %v", withSub.HasSubSegments(), plain.HasSubSegments())
	}

	st := NewState()
	if _, err := st.ProcessDescriptor(withSub); err != nil {
		t.Fatalf("withSub: %v", err)
	}
	if _, err := st.ProcessDescriptor(plain); err != nil {
		t.Errorf("descriptor without sub-segments rejected: %v", err)
	}
	if open := st.Open(); len(open) != 2 {
		t.Errorf("Open() has %d descriptors, want 2", len(open))
	}
	closed, err := st.Close(plain)
	if err != nil || len(closed) != 1 || closed[0].HasSubSegments() {
		t.Errorf("Close(plain): closed=%v err=%v, want the descriptor without sub-segments", closed, err)
	}
}

// seedDemoPointer returns the pointer_field in front of a section.
func seedDemoPointer() []byte { return []byte{0} }
