package psi

import (
	"bytes"
	"reflect"
	"testing"

	"github.com/Comcast/gots/v2"
	"github.com/Comcast/gots/v2/packet"
)

// seedDemoPATSection builds one well-formed program association section.
func seedDemoPATSection(tsid int, version, sectionNumber, lastSectionNumber byte, entries [][2]int) []byte {
	sl := 5 + 4*len(entries) + 4
	s := []byte{0x00, 0xB0 | byte(sl>>8), byte(sl), byte(tsid >> 8), byte(tsid),
		0xC1 | version<<1, sectionNumber, lastSectionNumber}
	for _, e := range entries {
		s = append(s, byte(e[0]>>8), byte(e[0]), 0xE0|byte(e[1]>>8), byte(e[1]))
	}
	return append(s, gots.ComputeCRC(s)...)
}

func seedDemoCheck(t *testing.T, carrier string, p PAT, entries [][2]int) {
	t.Helper()
	wantMap := map[int]int{}
	for _, e := range entries {
		if e[0] != 0 {
			wantMap[e[0]] = e[1]
		}
	}
	if got := p.NumPrograms(); got != len(entries) {
		t.Errorf("%s: NumPrograms() = %d, the section has %d entries", carrier, got, len(entries))
	}
	if got := p.ProgramMap(); !reflect.DeepEqual(got, wantMap) {
		t.Errorf("%s: ProgramMap() = %v, the section holds %v", carrier, got, wantMap)
	}
	pid, err := p.SPTSpmtPID()
	if len(entries) == 1 && entries[0][0] != 0 {
		if err != nil || pid != entries[0][1] {
			t.Errorf("%s: SPTSpmtPID() = %d, %v, want %d", carrier, pid, err, entries[0][1])
		}
	} else if err == nil {
		t.Errorf("%s: SPTSpmtPID() = %d, want an error", carrier, pid)
	}
	for _, probe := range []int{0x100, 0x200, 0x300} {
		want := false
		for _, v := range wantMap {
			want = want || v == probe
		}
		pkt := packet.Create(probe, packet.WithHasPayloadFlag)
		if got, err := IsPMT(pkt, p); err != nil || got != want {
			t.Errorf("%s: IsPMT(pid %#x) = %v, %v, want %v", carrier, probe, got, err, want)
		}
	}
}

// The subject is section 0 of a PAT that is split over two sections
// (last_section_number 1). It has one entry. In the payload / packet it is
// directly followed by section 1 of the same table, which is legal
// (ISO 13818-1 2.4.4: sections may follow each other in a payload).
func TestSeedDemoSectionFollowedByNextSection(t *testing.T) {
	entries := [][2]int{{1, 0x100}}
	sec0 := seedDemoPATSection(0x1234, 3, 0, 1, entries)
	sec1 := seedDemoPATSection(0x1234, 3, 1, 1, [][2]int{{2, 0x200}})

	payload := append([]byte{0x00}, sec0...)
	payload = append(payload, sec1...)

	// carrier 1: payload bytes
	p, err := NewPAT(append([]byte(nil), payload...))
	if err != nil {
		t.Fatal(err)
	}
	seedDemoCheck(t, "payload", p, entries)

	// carrier 2: whole 188 byte packet
	var pkt packet.Packet
	for i := range pkt {
		pkt[i] = 0xFF
	}
	copy(pkt[:], []byte{0x47, 0x40, 0x00, 0x10})
	copy(pkt[4:], payload)
	p, err = NewPAT(pkt[:])
	if err != nil {
		t.Fatal(err)
	}
	seedDemoCheck(t, "packet", p, entries)

	// carrier 3: stream, PAT packet behind packets of other PIDs
	var stream []byte
	for _, pid := range []int{0x1FFF, 0x100, 0x11} {
		other := packet.Create(pid, packet.WithHasPayloadFlag)
		stream = append(stream, other[:]...)
	}
	stream = append(stream, pkt[:]...)
	p, err = ReadPAT(bytes.NewReader(stream))
	if err != nil {
		t.Fatal(err)
	}
	seedDemoCheck(t, "stream", p, entries)
}

// Control: the very same section followed by stuffing, and followed by a
// section of another table version, decodes the same with and without the change.
func TestSeedDemoControlSameSectionOtherTrailers(t *testing.T) {
	entries := [][2]int{{1, 0x100}}
	sec0 := seedDemoPATSection(0x1234, 3, 0, 1, entries)
	for name, trailer := range map[string][]byte{
		"stuffing":      bytes.Repeat([]byte{0xFF}, 20),
		"other version": seedDemoPATSection(0x1234, 4, 1, 1, [][2]int{{2, 0x200}}),
		"same number":   seedDemoPATSection(0x1234, 3, 0, 1, [][2]int{{2, 0x200}}),
	} {
		payload := append([]byte{0x00}, sec0...)
		payload = append(payload, trailer...)
		p, err := NewPAT(payload)
		if err != nil {
			t.Fatal(err)
		}
		seedDemoCheck(t, name, p, entries)
	}
}
