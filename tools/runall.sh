#!/bin/bash
# runs every check's quick (or given) tier on /repo and reports exit codes; regenerates all evidence files
TIER=${1:-quick}
cd "$(dirname "$0")/.."
rc_all=0
for p in $(python3 -c "import json; print(' '.join(sorted(json.load(open('check.config.json')))))"); do
  out=$(./check $p --tier $TIER 2>&1); rc=$?
  echo "$p rc=$rc $(echo "$out" | tail -1 | cut -c1-160)"
  [ $rc -ne 0 ] && rc_all=1 && echo "$out" | tail -5
done
exit $rc_all
