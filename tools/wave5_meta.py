#!/usr/bin/env python3
"""Fills the hand-written fields of the wave-5 seed metas (see wave3_meta.py)."""
import json, os
V = os.path.dirname(os.path.dirname(os.path.abspath(__file__)))
AUTHOR = ("independent sub-agent (wave 5: ten agents with two properties each; property text, private clone of /repo at 6b5ef97, "
          "and a description of the harness including everything added after waves 3 and 4)")
MISSED = "missed by the checks as they stood when it was delivered; caught after the strengthening named here: "
OK = "caught as delivered"
D = {
 "C01-seed9": ("SetTransportScramblingControl forces 00 on a packet whose payload starts a splice_info_section (PUSI, pointer_field, table_id 0xFC, protocol_version 0)", MISSED + "shaped payloads now include complete splice_info_section / PAT / PMT sections behind a pointer_field"),
 "C02-seed9": ("Create builds its option list in a reused package-level buffer: an option that itself calls a creation helper clobbers the options still to be applied", MISSED + "an option that creates three other packets, followed by a further option"),
 "C03-seed9": ("adaptationfield.EncoderBoundaryPoint returns only the CableLabs EBP descriptor when the private data is a descriptor loop containing one", OK),
 "C03-seed10": ("SetTransportPrivateData / SetAdaptationFieldExtension compute byte(len) before the fit check: 256+k bytes are stored as k bytes", OK),
 "C04-seed9": ("NewPESHeader reads PTS/DTS only when the slice covers the whole PES_header_data_length", MISSED + "PES headers cut short by the packet payload at every length from 14 bytes up, with header stuffing"),
 "C04-seed10": ("ExtractPCR / ExtractTime use a package-level bit reader: concurrent decoding on different buffers corrupts results or panics", MISSED + "variant 'concurrent' (8 goroutines round-tripping different values on their own buffers; the same for ComputeCRC in C13)"),
 "C05-seed9": ("UpdateData sizes its buffer from the 12-bit section_length read back: String()/UpdateData panic for re-encodings longer than 4095 bytes in certain windows", OK),
 "C05-seed10": ("sub-segment fields read as buf.Next(2)[0],[1]: panic for a 0x34/0x36 descriptor with exactly one byte after segments_expected inside consistent outer lengths", MISSED + "segmentation descriptors ending 1..6 bytes early / 1..3 late with descriptor_length, loop length, section_length and CRC all consistent, biased to the sub-segment tail"),
 "C06-seed9": ("the PMT parser replaces stream_type 0x06 by 0x81/0x87 when the stream carries a DVB AC-3 / E-AC-3 descriptor", MISSED + "codec-announcing descriptors (0x6A, 0x7A, 0x7B, 0x7C, 0x81, 0xCC) on private and user-private streams"),
 "C06-seed10": ("ReadPMT drops the partial section on a continuity_counter 'gap' computed without the 4-bit mask: a section whose packets wrap 15 -> 0 is lost", OK),
 "C07-seed9": ("ReadPAT prefers a later PAT with current_next_indicator 1 over a first one with 0", OK),
 "C07-seed10": ("IsPMT takes a fast path through SPTSpmtPID instead of the program map: wrong for PAT implementations whose map differs from the library object's", MISSED + "IsPMT through a PAT view (embedding the library object) that hides one program"),
 "C08-seed9": ("URN UPIDs (type 0x0F) lose a trailing NUL byte on decode", OK),
 "C09-seed9": ("MID() returns detached copies: edits through the returned handles are not reflected", MISSED + "setter kinds 43/44 (edit MID entries / components through the handles the getters return); the same generator exposed genuine defect d-s11 (stale cached upid_length, repair 5eb876b)"),
 "C09-seed10": ("foreign descriptors are copied as one span from the first to the last: a segmentation descriptor in between is emitted twice", OK),
 "C10-seed9": ("a descriptor on a PTS-less signal is accepted when the command is an immediate splice_insert", MISSED + "PTS-less signals of four kinds (splice_null, immediate / cancelled splice_insert, time-less time_signal) and timed splice_insert signals"),
 "C10-seed10": ("Equal compares sub_segment_num with the other's sub_segments_expected: not reflexive for 1-of-2 sub-segments", OK),
 "C11-seed9": ("Data() is cut at 6 + PES_packet_length when another PES start code follows there", OK),
 "C12-seed9": ("insertUtcTime rebuilds the second with time.Date in the value's location: off by an hour in the repeated wall-clock hour of a DST location", MISSED + "instants within two hours of the DST transitions of five zone-database locations (embedded tzdata)"),
 "C12-seed10": ("StreamSyncSignal searches 0x1D first, then 0x1C, instead of the first of either", OK),
 "C13-seed9": ("chunked table-driven ComputeCRC restarts when the running value is 0 at a 4096-byte chunk boundary", MISSED + "inputs that begin with one or two complete CRC-valid blocks of 4..8192 bytes"),
 "C13-seed10": ("UpdateData keeps the old CRC when the re-encoded body equals the decoded bytes: a stale input CRC is re-emitted", MISSED + "the emitted-SCTE variant of C13 now decodes inputs with a stale CRC_32 (C09 caught it as delivered)"),
 "C14-seed9": ("the filter drops the CUEI registration descriptor from the program loop when every 0x86 stream is filtered out", OK),
 "C14-seed10": ("a requested PID equal to a CA_PID is not reported missing", OK),
 "C15-seed9": ("RolledOver additionally requires the wrapped gap to be at most 30 minutes", OK),
 "C16-seed9": ("Sync accepts an implausible header when four plausible ones follow at a 188-byte stride in an already filled bufio buffer", MISSED + "grids of 5..9 whole packets whose first 1..3 headers are implausible, read through a 4096-byte bufio.Reader"),
 "C17-seed9": ("a predicate error that is or wraps ErrAccumulatorDone also moves the accumulator to the done state", MISSED + "predicate errors that are / wrap the completion sentinel and stop once the buffer has grown past k+184"),
 "C17-seed10": ("the copy of the most recent packet is deferred to the next call", OK),
 "C18-seed9": ("the fill loop clears the reader's error whenever the packet was filled (io.ReadFull contract): an error delivered together with the completing bytes by a non-sticky reader is lost", MISSED + "reader errors delivered together with data, once or for good"),
 "C19-seed9": ("the event-id rule falls back to 'same UPID' when the event ids differ", MISSED + "derived descriptors share every other field with the first (one in three) and may differ in type (partner or any) and in two attributes"),
 "C19-seed10": ("CanClose is false when both descriptors are in component mode with disjoint component tags", OK),
 "C20-seed9": ("elementary streams of type 0x06 with a DVB AC-3 descriptor report audio / lagging", OK),
 "C20-seed10": ("DecodeDolbyVisionCodec uses the originalCodec argument (dvav for avc1/avc3)", OK),
}
for name, (needs, hist) in D.items():
    p = os.path.join(V, "seeded", name, "meta.json")
    m = json.load(open(p))
    m["breaks_property"] = m["property"]
    m["author"] = AUTHOR
    m["needs_to_manifest"], m["history"] = needs, hist
    json.dump(m, open(p, "w"), indent=1)
    print(name, m["check_results"].get("quick", {}).get("verdict"))
