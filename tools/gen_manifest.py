#!/usr/bin/env python3
"""Regenerates /verif/MANIFEST.json from the table below (run after adding a check)."""
import json
import os

VERIF = os.path.dirname(os.path.dirname(os.path.abspath(__file__)))

# id -> (technique, level text, level note, design_ref)
CLAIMED = {
    "C01": ("bounded-exhaustive enumeration of the header state x value spaces + property-based testing (rapid) over arbitrary packet contents, oracle = ISO 13818-1 bit positions and 'XOR outside the field mask is zero'",
            "All 2^24 states of header bytes 1-3 are enumerated for every getter of both accessor styles and for packet validation; every setter is enumerated over all states of the byte(s) it touches x all in-range values (PID: 65536 states x 21 values quick / all 8192 thorough) with the whole 188-byte packet compared; equality over all 1504 single-bit flips; FromBytes over all lengths 0..400. The rest of the packet contents is sampled by rapid. Within the enumerated header spaces the check is complete; for the remaining 1480 bits it relies on the setters touching only header bytes (any write elsewhere is caught by the whole-packet comparison on sampled contents).",
            "Trusted: the harness' transcription of the ISO header layout; only in-range setter arguments are used.",
            "DESIGN.md section 4 C01"),
    "C02": ("property-based testing (rapid) over reference-model-built well-formed packets + enumeration of all (af_len, payload length) pairs; oracle = byte-exact reference re-encoding",
            "Generated well-formed packets (all AFC modes, af_len 0..183, all fitting optional-field subsets) x payload lengths 0..200: the header/payload partition, copy independence, the returned count, and the complete 188 bytes after SetPayload are compared with the reference model's encoding; all (af_len, n) pairs are enumerated for three adaptation-field contents. Creation helpers are checked for the requested sync/PID/CC/flags/payload.",
            "Trusted: ref.Packet (ISO 13818-1 2.4.3 serialiser/parser written for the harness). PUSI of CreateTestPacket only asserted with payload; see DESIGN S-notes.",
            "DESIGN.md section 4 C02"),
    "C03": ("model-based (stateful) property-based testing: generated setter histories applied to the library and to a reference model, compared byte-for-byte and getter-by-getter after every step; bounded-exhaustive toggle histories",
            "Histories of 1..40 adaptation-field setter calls (generator follows the reference model so that lengths hit exactly-fits / one-too-many) from generated well-formed packets; after every call all 188 bytes equal the reference serialisation, every getter of both APIs equals the model, refused calls leave the packet unchanged and fitting calls succeed. All toggle histories of length <= 3 from 8 af_len x 32 initial subsets are enumerated.",
            "Trusted: ref.Packet. One known finding (method getters of private data/extension return length-prefixed bytes) is tolerated by key and reported as KNOWN-FINDING.",
            "DESIGN.md section 4 C03"),
    "C04": ("property-based testing (rapid) with boundary-bit value generators + enumeration of single/double-bit values; oracle = explicit ISO bit-position tables, round trip, metamorphic bit flips, differential between the two PTS decoders",
            "PCR base/ext and PTS/DTS values drawn from the boundary-bit set and uniformly; written bytes compared with the ISO layout (reserved/marker bits 1), canary bytes after the field, round trip, invariance of decoding under every subset of non-value bits, agreement of gots.ExtractTime, pes.ExtractTime and the reference on arbitrary bytes, end to end through adaptation-field PCR/OPCR and PES headers.",
            "Trusted: ref.EncodePCR/EncodePTS/DecodePCR/DecodePTS (bit tables written from ISO 13818-1). The 4-bit PTS prefix is not asserted.",
            "DESIGN.md section 4 C04"),
    "C05": ("fuzzing and property-based testing for totality: rapid-generated (entry point, input) cases from three input families (reference-built well-formed, structurally mutated, arbitrary) + a fixed hostile grid + native coverage-guided go fuzzing (structured and raw-bytes targets) in the thorough tier; oracle = no panic / returns within the watchdog budget / bounded heap / caller buffer unmodified / returned objects survive all getters, printing and re-encoding",
            "17 entry-point groups covering every decoding entry point of packet, adaptationfield, psi, pes, ebp, scte35 and the stream readers are driven with reference-built instances, 1-3 structural mutations of them (truncation anywhere, boundary constants and +-1/2 on any byte incl. every length field, forced MID lists, 65 KiB descriptor loops) and arbitrary bytes; panics are recovered and keyed by innermost library function + statement text, non-termination and memory blow-up are observed by an in-process watchdog (20 s / 1 GiB), read-only calls must leave the input byte-identical.",
            "Trusted: Go's recover/runtime.MemStats; thresholds are 4-6 orders of magnitude above a case's normal cost. A returned error is always acceptable; the CLI main package is not driven.",
            "DESIGN.md section 4 C05"),
    "C06": ("property-based testing (rapid) with a reference PMT encoder, carrier and packetiser as the independent model; metamorphic over packetisations (same section, any split/pointer/stuffing/interleaving must decode identically); prefix-exhaustive check of the completion predicate; full enumeration of the table-header space",
            "Reference-built PMT sections (descriptors incl. probes, up to the 1021-byte limit) x carriers (pointer_field, preceding sections, trailing stuffing) x packetisations (every payload size 1..184, other-PID packets interleaved) are decoded through NewPMT and ReadPMT and compared field by field with the model; PmtAccumulatorDoneFunc is evaluated on every prefix (small payloads) or on all packet boundaries + neighbourhoods of section boundaries; ExtractCRC, the PSI header accessors and the TableHeader codec (all 2^20 headers) are compared with the model.",
            "Trusted: ref.PMT/Carrier/Packetise (written from ISO 13818-1 2.4.4), ref.CRC32MPEG2. Restrictions listed as assumptions in the evidence (inner section boundaries, legal packetisations for ReadPMT).",
            "DESIGN.md section 4 C06"),
    "C07": ("property-based testing (rapid) with a reference PAT encoder over three carriers + enumeration of every entry count",
            "Reference-built PATs with 0..253 entries (network entry, PIDs > 255) as payload bytes, as a 188-byte packet (both stuffing styles) and in a stream after other-PID packets; NumPrograms, the exact program map, the single-program accessor, IsPMT classification (map values, neighbours, drawn PIDs, nil PAT) and the not-found error (incl. truncated last packet) are compared with the model. Every entry count is enumerated for every carrier.",
            "Trusted: ref.PAT. pointer_field 0 and distinct program numbers only.",
            "DESIGN.md section 4 C07"),
    "C14": ("property-based testing (rapid): differential against a reference re-encoding of the filtered PMT, plus decode round trip and CRC residue under the independent reference CRC",
            "For reference-built multi-packet PMTs and generated PID lists (subsets in any order, absent, duplicate, PAT/PMT PID, empty, all-absent) the output packets are compared byte-for-byte with input headers ++ pointer+filler ++ reference encoding of the selected streams ++ 0xFF padding, the packet count with the least k that holds it, the error contract incl. the missing PIDs named in the error, inputs unmodified; RemoveElementaryStreams on a decoded PMT is compared with the model.",
            "Trusted: ref.PMT (Select/Section), ref.Packetise, ref.CRC32MPEG2. Ambiguous list mixes (only-absent + PAT/PMT PID) accept nil or a stream-less PMT.",
            "DESIGN.md section 4 C14"),
    "C20": ("exhaustive enumeration of the 256 stream types and of every decoder under all 256 tags + property-based testing (rapid) over well-formed descriptor bodies",
            "All 256 stream_type codes are checked through LookupPmtStreamType, NewPmtElementaryStream, streams decoded from a reference-built PMT and the by-PID query against the statement's code lists (typed into the harness); each decoder is checked on generated well-formed bodies of its kind and for its neutral value under every other tag.",
            "Trusted: the harness' transcription of the statement's lists and decoder definitions. Ranges as in the quantifier text (bitrate < 2^21, Dolby Vision level < 32).",
            "DESIGN.md section 4 C20"),
    "C08": ("property-based testing (rapid) with an independent SCTE 35 reference encoder: generated sections are decoded and every getter compared with the model ('modulo meaning'); negative generator for the four rejection classes; native fuzz over the same generator in the thorough tier",
            "Reference-encoded splice_info_sections over the whole supported syntax (all splice_insert modes, components, break_duration, 33/40-bit boundary values, 0..5 segmentation/foreign descriptors of all shapes, MID lists, sub-segments, pointer_field) are decoded and every getter of signal, command, components, descriptors, offsets and UPIDs is compared with the model where the syntax carries the field; PTS() against (pts_time + pts_adjustment) mod 2^33; descriptor back-references; unsupported command / encrypted / unknown table id / non-CUEI identifier must map to their sentinel errors.",
            "Trusted: ref.Splice encoder (written from SCTE 35 section 9) and ref.CRC32MPEG2. time-less time_signal / program splice are outside the supported list.",
            "DESIGN.md section 4 C08"),
    "C09": ("model-based property-based testing (rapid): signals realised through the creation/setter API (with set-then-clear noise) or by decoding, followed by a generated history of setter calls applied to library and model; differential against the reference encoder byte for byte, round trip through the decoder, idempotence, CRC residue under the independent CRC",
            "UpdateData() must equal the reference encoding of the model in the library's normal form for every generated (construction path, setter history); section_length/CRC are checked independently; Data() must not change before UpdateData(); UpdateData twice and String() leave the bytes unchanged; descriptor getters reflect setters; decoding the encoded bytes reports the model; a decoded canonical section re-encodes to itself. 39 setter kinds incl. flag clearing, out-of-width values, UPID kind switching, descriptor list and command replacement.",
            "Trusted: ref.Splice encoder, ref.CRC32MPEG2, the harness' model of documented setter semantics. Undocumented SetTypeID/sub-segment interaction is neutralised by re-setting the flag.",
            "DESIGN.md section 4 C09"),
    "C10": ("stateful property-based testing (rapid): generated ProcessDescriptor/Close/Open histories with history invariants by object identity checked after every call; bounded-exhaustive histories of length <= 4 over an 11-symbol alphabet",
            "Histories of up to 40 calls over a 26-type alphabet (both API-built and decoded descriptors, shared and advancing signal times, immediate re-processing, PTS-less signals, explicit closes of open/old/fresh descriptors); after every call the open list and the closed list are checked against the invariants of the statement (no unprocessed/closed/discarded/duplicate entries, opening order, closed => was open, closable per the transcribed rule table, last-opened first, duplicate and PTS-less rejection leave the state unchanged); a recovered panic is a violation.",
            "Trusted: the history bookkeeping in the harness and ref.CloseRules. A breakaway counts as open while hidden; what vanishes from Open() at a resumption counts as discarded.",
            "DESIGN.md section 4 C10"),
    "C11": ("property-based testing (rapid) with a reference PES encoder + enumeration of stream ids x timestamp modes x header_data_length",
            "Reference-built PES packet starts (all stream ids, flag bits, PTS/DTS modes with boundary-bit values, correctly sized optional fields, header stuffing to 255, data) are decoded and every getter and Data() compared with the model; carried in transport packets with PUSI on/off, payload sizes 0..184 and intact or bit-flipped start-code prefix, packet.PESHeader and pes.AlignedPUSI are compared with the statement's conditions.",
            "Trusted: ref.PES, ref.Packet. 0xBC only prefix/id; ids without optional header carry >= 1 data byte; AlignedPUSI only asserted for complete headers.",
            "DESIGN.md section 4 C11"),
    "C12": ("property-based testing (rapid) with a reference EBP encoder for both flavours: decode comparison, byte-identical re-encode, builder-API round trip, time round trip with exact integer reference arithmetic; enumeration of all flag bytes",
            "Reference-built Comcast and CableLabs EBPs (all flags, grouping chains, partition, reserved bytes) are decoded and compared getter by getter, re-encoded and compared byte for byte; the same model realised through Create*/setters must encode to bytes that decode to the same values with a correct length byte; instants over the whole NTP range biased to second edges must survive SetEBPTime/EBPTime within 1 ns.",
            "Trusted: ref.EBP, ref.EBPTimeUnix (exact integer arithmetic). EBP size <= 183 bytes, non-empty EBPs, flags only set (Set*Flag(false) is a no-op by design).",
            "DESIGN.md section 4 C12"),
    "C19": ("exhaustive enumeration of the finite abstraction (65536 type pairs x 16 condition combinations; 720-descriptor family for equality) + property-based testing (rapid) that all other descriptor fields do not matter",
            "CanClose is evaluated on real descriptor objects for all 256x256 type pairs x event-equal x PTS-equal x segnum=expected x sub-segments and compared with a hand-transcribed rule table; IsIn/IsOut for all 256 types; Equal on all ordered pairs of a 720-descriptor family for definition, reflexivity, symmetry, and congruence on equal pairs; rapid triples with every other field varied (API-built and decoded objects) check 'depends only on', transitivity and congruence.",
            "Trusted: ref.CloseRules (transcription of the pinned commit's table; an intentional upstream rule change must be mirrored there).",
            "DESIGN.md section 4 C19"),
    "C13": ("differential testing against an independent CRC-32/MPEG-2 reference: exhaustive for lengths 0-2 and single-bit strings, property-based (rapid) otherwise",
            "ComputeCRC is compared with a reference written from the definition (bitwise and table-driven twins, catalogue check value) on all strings of length <= 2, all single-bit strings up to 96 bytes + sampled lengths to 1024 (thorough: all to 1024), and random strings up to 4096 bytes; the appended-CRC residue is checked with both implementations. Residues of emitted sections are asserted in the C09/C14 oracles.",
            "Trusted: the reference CRC (self-checked at start-up against 0x0376E6E7 for '123456789').",
            "DESIGN.md section 4 C13"),
    "C16": ("differential property-based testing (rapid): Sync vs a reference scan over generated streams with constructed false sync bytes and cut headers, through fragmenting readers and several buffer sizes; bounded-exhaustive placements",
            "Streams over a skewed alphabet with constructed false sync bytes of both kinds before an optional true header, cut anywhere, read through bufio readers of 4 sizes over fragmenting sources; offset, error and the exact bytes left in the reader are compared with a reference scan implementing the statement's predicate. All placements with up to 6 false sync bytes are enumerated.",
            "Trusted: the reference scan (10 lines); bufio.Reader as the PeekScanner implementation.",
            "DESIGN.md section 4 C16"),
    "C17": ("model-based (stateful) property-based testing: generated WritePacket/Bytes/Packets/Reset histories against a three-state reference model, with aliasing probes and a lockstep differential against a fresh accumulator after Reset",
            "Histories of up to 30 calls with generated packets and four predicate kinds; after every call Bytes() and Packets() are compared with the model, returned slices are overwritten and the caller's packet modified to expose aliasing, completion/refusal/predicate-error returns are checked, and after Reset a fresh accumulator is driven in lockstep.",
            "Trusted: the reference state machine in the harness; ref.Packet for payload extraction. A payload-less packet after the unit start may or may not be listed by Packets().",
            "DESIGN.md section 4 C17"),
    "C18": ("property-based testing (rapid) with fault injection: generated packet data through every adapter construction, seven reader fragmentations, failing packet writers and failing readers; bounded-exhaustive small combinations",
            "The sequence of packets seen by a recording packet-writer mock, the returned count and the error are compared with the statement for Write (incl. non-multiple lengths and a failing packet write at every position) and for ReadFrom (directly and via io.Copy) through bytes/bufio/one-byte/half/data-with-EOF/chunked readers and a reader failing with its own error after k bytes. Small combinations are enumerated.",
            "Trusted: the mock packet writer (returns 188 on success) and the reader wrappers from testing/iotest.",
            "DESIGN.md section 4 C18"),
    "C15": ("property-based testing (rapid) against uint64 reference arithmetic + complete enumeration of the threshold windows; native fuzz over the same generator in the thorough tier",
            "Generated-input search: every clause of the statement is evaluated on (p,q,d) triples with heavy bias to the four thresholds and the wrap, and every pair from the +-8 (thorough +-40) tick windows around the thresholds is enumerated. A threshold off-by-one, a wrong mask in Add or a swapped DurationFrom case is hit within the first few hundred cases; absence is not proven for the full 2^66 pair space.",
            "Trusted: the harness' uint64 reference arithmetic written from the statement; Go arithmetic. Assumes 33-bit inputs as the statement does.",
            "DESIGN.md section 4 C15"),
}

SESSION_NOTE = " Second generation (after independently seeded changes, DESIGN section 10.1): interference sessions re-check RETAINED results after later calls, after 40-70 further calls, after the results were modified through their public API, with inputs repeated and with input memory / packet objects recycled for a varied input of the same length; decoder inputs carry a canary in their spare capacity."
WAVE3_NOTE = {
    "C01": "payloads shaped like PES/PSI/packet starts; FromBytes over the sizes of other framings with the packet at an offset; complete splice_info_section / PAT / PMT sections as payload content; stuffing-only packets",
    "C02": "PES/PSI-shaped payload data; Create with a window of a caller-owned option slice, then all of it; zero-length data as nil and as empty; an option that itself creates packets; adaptation-field flag options; own windows with clipped capacity and windows of the whole packet; packet and data as views of one larger buffer; WithPES after every combination of flag options",
    "C03": "setter data sits in a caller buffer with live bytes behind it; the packet's own adaptation field handed back to SetAdaptationField; sources with an empty adaptation field; a bystander packet; own windows with clipped capacity; nil and empty-field sources of SetAdaptationField",
    "C04": "decoders handed slices longer than the field; non-value bits of the PTS/DTS fields inside a PES header flipped; PES headers cut by the packet payload; variant 'concurrent' (8 goroutines on their own buffers); WithPES at a unit start after every combination of flag options; clock / splice / private-data combinations in exactly fitting fields",
    "C05": "decoder allocation budget (64 KiB + 128 bytes per input byte, exact TotalAlloc deltas) and whole-sequence budget; segmentation descriptors cut inside consistent outer lengths; printed text inspected for fmt-swallowed panics; the filter's PID list compared afterwards; more than 64 KiB behind tiny sections; stack growth budget (4 MiB + 8 bytes per input byte); 64 KiB..1 MiB of three-byte sections",
    "C06": "program map sections in front of the subject section; pointer_field up to 255 for the payload-level API; sections of up to 4093 bytes in front of the PMT; codec-announcing descriptors on private streams; codec descriptors; other-PID packets carrying a complete PAT; payloads of exactly 188 bytes behind pointer_field 0x47; bufio readers the caller reads on from (table compared again)",
    "C07": "free section_number/last_section_number and a second, different PID-0 packet later in the stream; pointer_field > 0; IsPMT through a PAT view that hides one program; bufio readers the caller reads on from (table compared again); PAT sections on other PIDs; IsPMT probes with every adaptation_field_control",
    "C08": "sibling descriptors (same type, event id, segment numbers); alignment_stuffing bytes in decoder inputs; pointer_field up to 255; what the pointer_field skips (section tails, section-head-shaped bytes); short foreign sections / descriptors as negatives",
    "C09": "UPID arguments are adjacent windows of one caller buffer (must stay intact); own component / MID lists handed back reordered; alignment stuffing in decoded inputs; adopting a descriptor of another signal and editing it through the caller's handle; decorated UPID / ComponentOffset list elements; edits through the handles MID() / Components() return; up to 255 components; over-width setter values with command-level getter comparison; own ComponentOffset implementations; SetDescriptors with nil / empty lists; variant 'concurrent' (8 goroutines encoding their own signals); descriptors addressed through handles; set-then-clear pairs",
    "C10": "sub-segment fields and stream-switch-shaped multiple-UPID lists in five shapes; cancel indicator, pts_adjustment splits, descriptors inside a decorator type; PTS-less signals of four kinds; a bystander tracker; unattached descriptors; open objects (incl. the pending breakaway) submitted again; per-call allocation budget",
    "C11": "six-byte PES starts; no alignment indicator without optional header; TREF extension; data starting like a video access unit; headers cut by the packet end; two PES packets of one stream in one buffer; legal ESCR / ES_rate values",
    "C12": "instants handed over in non-UTC zones; zone-database locations within two hours of a DST transition; non-UTC process time zone",
    "C13": "filter inputs with a stale CRC_32 of their own; session phase Extend (the caller appends to every returned slice, retained results re-checked); inputs beginning with CRC-valid blocks; stale input CRC in the emitted-SCTE variant; variant 'concurrent'; sap_type bits on decoded inputs",
    "C14": "requested values outside 13 bits that alias stream PIDs under truncation; error contract with ignored PIDs by the letter; descriptor bodies that are packet-long runs of 0xFF",
    "C15": "pairs at power-of-two distances (drawn and enumerated); round durations of the 90 kHz clock; GOARCH=386 pass in the thorough tier; pairs mirrored around the wrap; sums next to powers of two",
    "C16": "a PeekScanner with only the interface's methods; grids of whole packets whose first headers are implausible; thorough tier: first header 2 GiB into a generated stream (amd64 and 386) and 4 GiB",
    "C17": "byte-identical consecutive packets; a predicate that is done and failing at once; a second live accumulator fed other packets and Reset at the same moments; predicate errors that are / wrap the completion sentinel; packet list exact and independent of the accumulator; content-sensitive predicates; packed PSI stream histories; payload-less unit starts and sticky predicate errors tolerated",
    "C18": "packet writers that also have their own Write; timeout-like reader errors before a second ReadFrom; reader errors that wrap io.EOF / io.ErrUnexpectedEOF; bare io.ErrUnexpectedEOF; errors delivered together with data, once or for good; a bystander adapter; regular files as readers; bufio buffers smaller than a packet; reads that return (0, nil); temporary (non-timeout) reader errors; packet writers with their own Write and ReadFrom",
    "C19": "decorated (non-library) implementations of the descriptor interface as arguments; cancel indicator on API-built descriptors; signal time split into pts_time + pts_adjustment; derived descriptors sharing every other field, differing in type or in two attributes; four signal kinds; unattached descriptors; cancel flag; both readings of 'sub-segment numbers' accepted; descriptors that a state tracker has already seen; stream-switch UPID lists; sibling descriptors of one signal",
    "C20": "eight originalCodec arguments for the Dolby Vision codec string; IsTTMLDescTagExtension under all 256 tags; case variants of format identifiers; comma-separated codec lists; neutral values by constancy over foreign tags; full HEVC codec strings; TTML / Dolby Vision bodies in their full syntax",
}
SESSION_IDS = {"C01", "C02", "C04", "C06", "C07", "C08", "C09", "C11", "C12", "C13", "C14", "C20"}

NOT_YET = "check not built yet in this round (designed in DESIGN.md section 4; to be claimed when its check exists)"


def main():
    props = [json.loads(l) for l in open(os.path.join(VERIF, "properties.jsonl"))]
    checks = []
    na = []
    for p in props:
        pid = p["id"]
        if pid in CLAIMED:
            tech, text, note, ref = CLAIMED[pid]
            checks.append({
                "property_id": pid,
                "quick_cmd": "./check %s --tier quick" % pid,
                "thorough_cmd": "./check %s --tier thorough" % pid,
                "evidence_file": "/verif/evidence/%s.json" % pid,
                "replay_cmd_template": "./check %s --replay {path}" % pid,
                "engine": "gots-pbt-harness",
                "level_claimed": {"category": "exploration", "text": text + (SESSION_NOTE if pid in SESSION_IDS else "") + ((" Later rounds (DESIGN sections 10.2-10.8, 5.0; oracles reviewed for over-strictness and run against statement-conforming variants of the library, 5.2-5.3), generator / oracle widened with: " + WAVE3_NOTE[pid] + ".") if pid in WAVE3_NOTE else ""), "design_ref": ref},
                "level_note": note,
                "technique": tech + ("; interference sessions (retained results, repeated / recycled inputs) over the same oracle" if pid in SESSION_IDS else ""),
            })
        else:
            na.append({"property_id": pid, "reason": NOT_YET})
    hooks_commits = []
    m = {
        "version": 1,
        "setup_cmd": "./check --setup",
        "hooks": {
            "guard": "verif",
            "enable": "go build tag 'verif' (the driver compiles the harness with -tags verif); no hook code exists in /repo, every property is observable through the exported API",
            "baseline_off_cmd": "cd /repo && GOFLAGS= go test -vet=off -count=1 ./...",
            "source_commits": hooks_commits,
            "add_only": True,
        },
        "engines": [{
            "name": "gots-pbt-harness",
            "path": "/verif/harness",
            "serves_properties": sorted(CLAIMED),
            "kind_free_text": "Go test binary (pgregory.net/rapid v1.3.0 generators + shrinking, bounded-exhaustive enumerations, native go fuzz targets over the same generators) with independent reference models in harness/ref; python driver /verif/check",
        }],
        "checks": checks,
        "not_applicable": na,
        "notes": "All checks rebuild the harness against /repo's working tree (replace directive). VERIF_SEED selects the rapid seed (remapped so that 0 is not 'random'). Exit 2 = inconclusive/infrastructure, never a violation.",
    }
    with open(os.path.join(VERIF, "MANIFEST.json"), "w") as f:
        json.dump(m, f, indent=1)
        f.write("\n")


if __name__ == "__main__":
    main()
