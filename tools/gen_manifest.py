#!/usr/bin/env python3
"""Regenerates /verif/MANIFEST.json from the table below (run after adding a check)."""
import json
import os

VERIF = os.path.dirname(os.path.dirname(os.path.abspath(__file__)))

# id -> (technique, level text, level note, design_ref)
CLAIMED = {
    "C15": ("property-based testing (rapid) against uint64 reference arithmetic + complete enumeration of the threshold windows; native fuzz over the same generator in the thorough tier",
            "Generated-input search: every clause of the statement is evaluated on (p,q,d) triples with heavy bias to the four thresholds and the wrap, and every pair from the +-8 (thorough +-40) tick windows around the thresholds is enumerated. A threshold off-by-one, a wrong mask in Add or a swapped DurationFrom case is hit within the first few hundred cases; absence is not proven for the full 2^66 pair space.",
            "Trusted: the harness' uint64 reference arithmetic written from the statement; Go arithmetic. Assumes 33-bit inputs as the statement does.",
            "DESIGN.md section 4 C15"),
}

NOT_YET = "check not built yet in this round (designed in DESIGN.md section 4; to be claimed when its check exists)"


def main():
    props = [json.loads(l) for l in open(os.path.join(VERIF, "properties.jsonl"))]
    checks = []
    na = []
    for p in props:
        pid = p["id"]
        if pid in CLAIMED:
            tech, text, note, ref = CLAIMED[pid]
            checks.append({
                "property_id": pid,
                "quick_cmd": "./check %s --tier quick" % pid,
                "thorough_cmd": "./check %s --tier thorough" % pid,
                "evidence_file": "/verif/evidence/%s.json" % pid,
                "replay_cmd_template": "./check %s --replay {path}" % pid,
                "engine": "gots-pbt-harness",
                "level_claimed": {"category": "exploration", "text": text, "design_ref": ref},
                "level_note": note,
                "technique": tech,
            })
        else:
            na.append({"property_id": pid, "reason": NOT_YET})
    hooks_commits = []
    m = {
        "version": 1,
        "setup_cmd": "./check --setup",
        "hooks": {
            "guard": "verif",
            "enable": "go build tag 'verif' (the driver compiles the harness with -tags verif); no hook code exists in /repo, every property is observable through the exported API",
            "baseline_off_cmd": "cd /repo && GOFLAGS= go test -vet=off -count=1 ./...",
            "source_commits": hooks_commits,
            "add_only": True,
        },
        "engines": [{
            "name": "gots-pbt-harness",
            "path": "/verif/harness",
            "serves_properties": sorted(CLAIMED),
            "kind_free_text": "Go test binary (pgregory.net/rapid v1.3.0 generators + shrinking, bounded-exhaustive enumerations, native go fuzz targets over the same generators) with independent reference models in harness/ref; python driver /verif/check",
        }],
        "checks": checks,
        "not_applicable": na,
        "notes": "All checks rebuild the harness against /repo's working tree (replace directive). VERIF_SEED selects the rapid seed (remapped so that 0 is not 'random'). Exit 2 = inconclusive/infrastructure, never a violation.",
    }
    with open(os.path.join(VERIF, "MANIFEST.json"), "w") as f:
        json.dump(m, f, indent=1)
        f.write("\n")


if __name__ == "__main__":
    main()
