#!/usr/bin/env python3
"""Sensitivity run: apply one deliberate breakage to a scratch copy of /repo and run a check on it.

  tools/mutant.py <Cnn> <relative file> <old text> <new text> [--tier quick] [--name label] [--nth k]
  tools/mutant.py <Cnn> --patch <diff file> [--name label]

Steps: copy /repo to a scratch dir under /tmp, apply the edit, confirm it builds and that the
unedited upstream suite still passes (a mutant the suite catches is not interesting), run
`VERIF_REPO=<scratch> ./check <Cnn> --tier <tier>`, append the outcome to notes/mutants.jsonl,
remove the scratch copy. Never touches /repo.
"""
import json
import os
import shutil
import subprocess
import sys
import tempfile
import time

VERIF = os.path.dirname(os.path.dirname(os.path.abspath(__file__)))


def main():
    a = sys.argv[1:]
    pid = a.pop(0)
    tier, name, nth, patch = "quick", None, 1, None
    pos = []
    while a:
        x = a.pop(0)
        if x == "--tier":
            tier = a.pop(0)
        elif x == "--name":
            name = a.pop(0)
        elif x == "--nth":
            nth = int(a.pop(0))
        elif x == "--patch":
            patch = a.pop(0)
        else:
            pos.append(x)
    scratch = tempfile.mkdtemp(prefix="mut-", dir="/tmp")
    repo = os.path.join(scratch, "repo")
    try:
        shutil.copytree("/repo", repo, ignore=shutil.ignore_patterns(".git"))
        if patch:
            r = subprocess.run(["patch", "-p1", "-i", os.path.abspath(patch)], cwd=repo, stdout=subprocess.PIPE, stderr=subprocess.STDOUT, text=True)
            if r.returncode != 0:
                print("PATCH-FAILED", r.stdout)
                return 3
            desc = {"patch": patch}
        else:
            rel, old, new = pos
            path = os.path.join(repo, rel)
            src = open(path).read()
            if src.count(old) < nth:
                print("OLD-TEXT-NOT-FOUND (%d occurrences)" % src.count(old))
                return 3
            idx = -1
            for _ in range(nth):
                idx = src.index(old, idx + 1)
            src = src[:idx] + new + src[idx + len(old):]
            open(path, "w").write(src)
            desc = {"file": rel, "old": old, "new": new, "nth": nth}
        env = dict(os.environ, GOFLAGS="", GOPROXY="off", GOSUMDB="off", GOTOOLCHAIN="local")
        r = subprocess.run(["go", "build", "./..."], cwd=repo, env=env, stdout=subprocess.PIPE, stderr=subprocess.STDOUT, text=True)
        if r.returncode != 0:
            print("MUTANT-DOES-NOT-BUILD", r.stdout[-1500:])
            return 3
        r = subprocess.run(["go", "test", "-vet=off", "-count=1", "./..."], cwd=repo, env=env, stdout=subprocess.PIPE, stderr=subprocess.STDOUT, text=True)
        suite_ok = r.returncode == 0
        if not suite_ok:
            print("UPSTREAM-SUITE-CATCHES-IT:", [l for l in r.stdout.splitlines() if l.startswith("--- FAIL")][:5])
        t0 = time.time()
        env2 = dict(os.environ, VERIF_REPO=repo)
        r = subprocess.run([os.path.join(VERIF, "check"), pid, "--tier", tier], cwd=VERIF, env=env2, stdout=subprocess.PIPE, stderr=subprocess.STDOUT, text=True)
        dt = time.time() - t0
        out = r.stdout
        verdict = {0: "MISSED", 1: "CAUGHT", 2: "INCONCLUSIVE"}.get(r.returncode, "rc%d" % r.returncode)
        detail = [l for l in out.splitlines() if l.startswith("violation detail") or l.startswith("INCONCLUSIVE")]
        print("%s property=%s tier=%s suite_passes=%s wall=%.1fs name=%s" % (verdict, pid, tier, suite_ok, dt, name))
        for l in detail[:3]:
            print("   ", l[:600])
        if verdict == "INCONCLUSIVE":
            print(out[-2000:])
        rec = {"property": pid, "name": name, "tier": tier, "verdict": verdict, "suite_passes": suite_ok, "wall_s": round(dt, 1), "detail": (detail[0][:300] if detail else "")}
        rec.update(desc)
        with open(os.path.join(VERIF, "notes", "mutants.jsonl"), "a") as f:
            f.write(json.dumps(rec) + "\n")
        return 0
    finally:
        shutil.rmtree(scratch, ignore_errors=True)


if __name__ == "__main__":
    sys.exit(main())
