#!/usr/bin/env python3
"""Fills the hand-written fields of the wave-9 seed metas (see wave3_meta.py)."""
import json, os
V = os.path.dirname(os.path.dirname(os.path.abspath(__file__)))
AUTHOR = ("independent sub-agent (wave 9: ten agents, two properties each, about twenty minutes; property text, private clone of /repo at 0811837, a "
          "description of the harness including everything added through wave 8, and the list of behaviours ruled statement-conforming)")
MISSED = "missed by the checks as they stood when it was delivered; caught after the strengthening named here: "
OK = "caught as delivered"
D = {
 "C01-seed17": ("Equal compares 23 words plus a tail and accumulates with xor (same idea as C01-seed13/15)", OK),
 "C02-seed17": ("SetPayload returns early when the new data merely begins with the current payload", OK),
 "C03-seed17": ("adaptationExtensionLength treats an extension whose length byte is the last byte of the packet as empty", OK),
 "C04-seed17": ("NewPESHeader bounds its presence checks by 6+PES_packet_length computed in 16 bits: lengths 65530..65535 in a longer buffer lose PTS/DTS (same idea as C04-seed11)", OK),
 "C05-seed17": ("the filter's result list is sized once from the first packet's room and filled by index: a continuation packet with a longer header overruns it", OK),
 "C06-seed17": ("ReadPMT skips PMT-PID packets whose 184-byte payload is all 0xFF as padding", OK),
 "C07-seed17": ("IsPMT answers false for any packet without payload before it looks at the PAT", MISSED + "IsPMT probe packets with every adaptation_field_control (payload only, both, adaptation field only)"),
 "C08-seed17": ("a MID entry of type 0x0D whose body is an exact chain of known entries is replaced by its inner entries (same idea as C08-seed14)", OK),
 "C09-seed17": ("SetSpliceImmediate(true) clears the time flags of the components and clearing it again does not restore them", OK),
 "C10-seed17": ("the 'still open means duplicate' scan iterates Open(), which hides the pending breakaway (same idea as C10-seed11/15)", OK),
 "C11-seed17": ("a DTS equal to the PTS is normalised to PTS-only (same idea as C11-seed14)", OK),
 "C12-seed17": ("StreamSyncSignal masks the Comcast grouping byte with 0x7F: 0x9C / 0x9D report a sync signal", OK),
 "C13-seed17": ("the chunk size of the re-packetiser is computed once from the first packet (same idea as C13-seed11/13/15)", OK),
 "C14-seed17": ("the filter skips non-first packets whose payload is all 0xFF while concatenating", MISSED + "descriptor bodies that are runs of 0xFF as long as a packet payload (the fill-to-limit stream of the PMT generator)"),
 "C15-seed17": ("DurationFrom's rollover branches require the distance to be strictly below the window: d = 162000000 across the wrap is wrong", OK),
 "C16-seed17": ("a bulk skip for buffered readers counts dropped bytes in a uint32: offsets beyond 4 GiB come out short by 2^32", MISSED + "thorough tier only: a third generated stream with the first plausible header 2^32+2^20+7 bytes in"),
 "C17-seed17": ("a unit start arriving while accumulating restarts only when bytes were accumulated: the packet list keeps a stale zero-payload unit start", OK),
 "C20-seed17": ("the by-PID lag query answers from a PID-to-index map built at the first query that RemoveElementaryStreams does not re-index (same idea as C20-seed15)", OK),
}
for name, (needs, hist) in D.items():
    p = os.path.join(V, "seeded", name, "meta.json")
    m = json.load(open(p))
    m["breaks_property"] = m["property"]
    m["author"] = AUTHOR
    m["needs_to_manifest"], m["history"] = needs, hist
    json.dump(m, open(p, "w"), indent=1)
    print(name, {k: v.get("verdict") for k, v in m["check_results"].items()})
