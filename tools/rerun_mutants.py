#!/usr/bin/env python3
"""Re-runs every logged sensitivity mutant (notes/mutants.jsonl, latest entry per name) against the current checks
and prints the ones whose verdict changed. Output also goes to notes/mutants-rerun.txt."""
import json, os, subprocess, sys
V = os.path.dirname(os.path.dirname(os.path.abspath(__file__)))
last = {}
for l in open(os.path.join(V, "notes", "mutants.jsonl")):
    try:
        m = json.loads(l)
    except Exception:
        continue
    if "old" in m and "new" in m and m.get("file"):
        last[(m["property"], m.get("name") or m["old"][:30])] = m
out = open(os.path.join(V, "notes", "mutants-rerun.txt"), "w")
for (pid, name), m in sorted(last.items()):
    if name.endswith("-rerun"):
        continue
    args = [os.path.join(V, "tools", "mutant.py"), pid, m["file"], m["old"], m["new"], "--name", str(name) + "-rerun", "--nth", str(m.get("nth", 1))]
    p = subprocess.run(args, stdout=subprocess.PIPE, stderr=subprocess.STDOUT, text=True)
    lines = [x for x in p.stdout.splitlines() if x.startswith(("CAUGHT", "MISSED", "BUILD", "SUITE", "INCONCL", "ERROR"))]
    now = lines[-1].split()[0] if lines else "?"
    line = "%s %-40s was %-7s now %s" % (pid, name, m.get("verdict"), now)
    print(line, flush=True)
    out.write(line + "\n"); out.flush()
