#!/usr/bin/env python3
"""Re-bases seeded patches that no longer apply to /repo HEAD (after a repair touched the same file).

For every seeded/<id>/patch.diff: if `git apply --check` fails in a scratch clone of /repo, try
`git apply --3way`; a merge without conflicts is written back as the new patch.diff (meta.json gets a
rebase_note), conflicts are listed for manual work. Nothing in /repo is touched; the scratch clone is removed."""
import json, os, subprocess, sys, tempfile, shutil
V = os.path.dirname(os.path.dirname(os.path.abspath(__file__)))
tmp = tempfile.mkdtemp(prefix="rebase-", dir="/tmp")
clone = os.path.join(tmp, "r")
subprocess.run(["git", "clone", "-q", "/repo", clone], check=True)
head = subprocess.run(["git", "-C", clone, "log", "--format=%h", "-1"], stdout=subprocess.PIPE, text=True).stdout.strip()
def git(*a, **k):
    return subprocess.run(["git", "-C", clone] + list(a), stdout=subprocess.PIPE, stderr=subprocess.STDOUT, text=True, **k)
manual = []
for d in sorted(os.listdir(os.path.join(V, "seeded"))):
    patch = os.path.join(V, "seeded", d, "patch.diff")
    git("reset", "-q", "--hard"); git("clean", "-fdq")
    if git("apply", "--check", patch).returncode == 0:
        continue
    r = git("apply", "--3way", patch)
    conflict = "conflicts" in r.stdout or git("diff", "--name-only", "--diff-filter=U").stdout.strip()
    if r.returncode != 0 or conflict:
        manual.append(d)
        print("MANUAL", d, r.stdout.strip().splitlines()[-1][:120] if r.stdout.strip() else "")
        continue
    b = subprocess.run(["go", "build", "./..."], cwd=clone, env=dict(os.environ, GOFLAGS="", GOPROXY="off", GOSUMDB="off", GOTOOLCHAIN="local"), stdout=subprocess.PIPE, stderr=subprocess.STDOUT, text=True)
    if b.returncode != 0:
        manual.append(d)
        print("MANUAL(build)", d, b.stdout.strip().splitlines()[-1][:120])
        continue
    git("add", "-A")
    new = git("diff", "--cached", "HEAD").stdout
    open(patch, "w").write(new)
    mp = os.path.join(V, "seeded", d, "meta.json")
    m = json.load(open(mp))
    m["rebase_note"] = (m.get("rebase_note", "") + "; " if m.get("rebase_note") else "") + "re-based onto /repo %s by a 3-way merge without conflicts" % head
    json.dump(m, open(mp, "w"), indent=1)
    print("REBASED", d)
shutil.rmtree(tmp)
print("manual:", " ".join(manual))
