#!/usr/bin/env python3
"""Fills the hand-written fields of the wave-7 seed metas (see wave3_meta.py)."""
import json, os
V = os.path.dirname(os.path.dirname(os.path.abspath(__file__)))
AUTHOR = ("independent sub-agent (wave 7: ten agents, two properties each; property text, private clone of /repo at 0811837, "
          "and a description of the harness including everything added after waves 3-6, the audit rounds and the 386 pass)")
MISSED = "missed by the checks as they stood when it was delivered; caught after the strengthening named here: "
OK = "caught as delivered"
D = {
 "C01-seed13": ("Equal compares word-wise and accumulates the differences with xor instead of or: differences in two words that cancel lane by lane go unnoticed", OK),
 "C02-seed13": ("SetPayload keeps its private copy of the argument only when cap(data) <= 188: a packet that is a view into a larger buffer, with data cut from the same buffer, is read after it was overwritten", MISSED + "the packet as the middle one of three in a 564-byte buffer, the data a piece of that buffer overlapping it"),
 "C03-seed13": ("adaptationfield.EncoderBoundaryPoint skips the descriptors in front of an EBP descriptor and returns only the rest of the private data", OK),
 "C03-seed14": ("SetAdaptationField restuffs in 8-byte words and stops at the first all-0xFF word: old content behind an aligned run of 0xFF survives in the stuffing area", OK),
 "C04-seed14": ("WithPES stores its payload through the method SetPayload, which refuses a packet that has the adaptation-field flag but not yet the payload flag: no PES header is written", MISSED + "WithPES on packets created with every combination of the flag options, at a unit start (the earlier end-to-end check never reached the PES reader: WithPES does not set the unit start indicator)"),
 "C05-seed13": ("UpdateData sizes the descriptor loop from each descriptor's own length byte: a cut descriptor that re-encodes to more than 257 bytes panics", OK),
 "C05-seed14": ("UpdateData sizes the section from the 16-bit section_length: a re-encoding a few bytes over 65535 panics", OK),
 "C06-seed13": ("NewPMT treats a 188-byte slice that starts with 0x47 as a transport packet: pointer_field 0x47 with a payload of exactly 188 bytes is refused", MISSED + "payloads of exactly 188 bytes with pointer_field 0x47 (one small PMT in eight)"),
 "C06-seed14": ("ReadPMT gives up with not-found as soon as an intact PAT on PID 0 does not list the requested PID", MISSED + "other-PID packets that carry a complete, CRC-correct PAT (listing other PIDs only, the PMT PID, or nothing)"),
 "C07-seed13": ("ReadPAT has a fast path for *bufio.Reader that builds the table on the reader's internal buffer (Peek): the table changes when the caller reads on", MISSED + "streams read through bufio.Readers of 16..4096 bytes that the caller goes on reading afterwards; the retained table is compared again (also for ReadPMT)"),
 "C08-seed13": ("trailing blanks are trimmed from fixed-width text UPIDs while decoding", OK),
 "C08-seed14": ("a MID entry whose body is itself an exact list of entries is flattened into the outer list", OK),
 "C09-seed13": ("SetDescriptors with an empty list also clears the foreign descriptors kept from decoding", MISSED + "setter kind SetDescriptors(nil / empty list)"),
 "C10-seed13": ("the 'still open means duplicate' scan runs only for out-type descriptors: a pending breakaway can be accepted twice", OK),
 "C11-seed13": ("Data() is clipped at 6+PES_packet_length when another start code follows", OK),
 "C11-seed14": ("on audio stream ids a DTS equal to the PTS is dropped", OK),
 "C12-seed14": ("StreamSyncSignal searches for 0x1D first, then for 0x1C", OK),
 "C13-seed13": ("the re-packetisation loop takes the per-packet room from the first packet's header only (same idea as C13-seed11)", OK),
 "C13-seed14": ("the filter keeps the incoming CRC_32 when no stream was removed", OK),
 "C14-seed13": ("RemoveElementaryStreams also removes a Dolby Vision enhancement layer whose base layer is removed", OK),
 "C14-seed14": ("a requested PID named as CA_PID by a CA descriptor is not reported missing (same idea as C14-seed11)", OK),
 "C15-seed13": ("After falls back to plain comparison when p and q are equally far from the rollover point", MISSED + "pairs that mirror the wrap: p = 2^33 - b, d = 2b, q = b for round, power-of-two and arbitrary b"),
 "C16-seed13": ("Sync skips four bytes after a reserved-PID false header (same idea as C16-seed12)", OK),
 "C16-seed14": ("a fast path for readers with Buffered/Discard counts the skipped bytes in an int: offsets from 2^31 wrap negative on 32-bit builds", MISSED + "thorough tier only: two generated streams whose first plausible header lies just below and above 2^31 bytes in, run on amd64 and in the 386 pass (quick tier: not caught)"),
 "C17-seed13": ("the accumulator memoises the predicate's last answer by buffer length and forgets it at Reset but not at a unit start: content-sensitive predicates get a stale answer", MISSED + "predicates that look at the content (first / last byte against a threshold) instead of the length"),
 "C18-seed13": ("ReadFrom has a fast path for readers with Peek/Discard: a bufio.Reader whose buffer is smaller than a packet delivers nothing (bufio.ErrBufferFull)", MISSED + "bufio.Readers with buffers of 16..189 bytes as sources"),
 "C18-seed14": ("a Read that returns (0, nil) is turned into io.ErrNoProgress and ends the delivery", MISSED + "fragmenting readers with a Read that returns (0, nil) once in between"),
 "C19-seed13": ("a State marks the descriptors it holds open behind a program breakaway and CanClose answers differently for marked ones", MISSED + "in one case in three the descriptors go through a state tracker (processed, breakaway, explicit close) before the relations are evaluated"),
 "C19-seed14": ("Equal adopts the tracker's stream-switch duplicate rule: two 0x40 descriptors with the same signal id are equal whatever their times", MISSED + "one descriptor in six carries the multiple-UPID list of a stream-switch signal (half of them type 0x40), also shared between the descriptors of a triple"),
 "C20-seed13": ("DecodeDolbyVisionCodec treats originalCodec as an RFC 6381 list and appends the other entries", MISSED + "comma-separated codec lists among the originalCodec arguments"),
 "C20-seed14": ("DecodeDolbyVisionCodec returns dvav for profile 9 when originalCodec starts with avc (same idea as C20-seed11)", OK),
}
for name, (needs, hist) in D.items():
    p = os.path.join(V, "seeded", name, "meta.json")
    m = json.load(open(p))
    m["breaks_property"] = m["property"]
    m["author"] = AUTHOR
    m["needs_to_manifest"], m["history"] = needs, hist
    json.dump(m, open(p, "w"), indent=1)
    print(name, {k: v.get("verdict") for k, v in m["check_results"].items()})
