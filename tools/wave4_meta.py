#!/usr/bin/env python3
"""Fills the hand-written fields of the wave-4 seed metas (see wave3_meta.py)."""
import json, os
V = os.path.dirname(os.path.dirname(os.path.abspath(__file__)))
AUTHOR = ("independent sub-agent (wave 4: property text, private clone of /repo at 0655af4, and a description of the harness "
          "including everything added after wave 3; asked for changes that still slip through)")
MISSED = "missed by the checks as they stood when it was delivered; caught after the strengthening named here: "
OK = "caught as delivered"
D = {
 "C01-seed7": ("Equal/Equals folds word differences with XOR: packets that differ in two bytes at offsets congruent mod 8 with the same XOR delta compare equal", OK),
 "C02-seed7": ("SetPayload(nil) clears the payload flag instead of storing zero bytes; an empty non-nil slice behaves as before", MISSED + "zero-length data is handed over both as an empty slice and as nil"),
 "C03-seed7": ("SetAdaptationField resets the destination before copying: with the packet's own adaptation field as the source every flag and field is wiped", MISSED + "op copyOwnAF (the packet's own AdaptationField() handed back)"),
 "C03-seed8": ("SetTransportPrivateData truncates the length to a byte first: 256+k bytes are stored as k bytes instead of being refused", OK),
 "C04-seed7": ("NewPESHeader limits the PTS/DTS reads by 5 + PES_packet_length, one byte short: header-only PES packets with a minimal header lose PTS or DTS", OK),
 "C05-seed7": ("AlignedPUSI reads payload bytes 6 and 8 itself: panics for PUSI packets with af_len 177..179 whose short payload starts 00 00 01", OK),
 "C05-seed8": ("UpdateData / String() reuse s.data when it has capacity: printing a decoded signal overwrites the caller's input buffer", OK),
 "C06-seed7": ("a sectionStart helper computes 1 + pointer_field in uint8 and is used by NewPMT, ReadPMT, the done predicate and all header accessors: pointer_field 255 breaks", MISSED + "pointer_field up to 255 for the payload-level API (the generator had stopped at 184); this also exposed the same wrap in psi.SectionLength on the pinned tree (repair c4d1441). Patch rebased onto that repair (one context line)"),
 "C06-seed8": ("ReadPMT defers a table with current_next_indicator 0 and waits for a later one", OK),
 "C07-seed7": ("the 188-byte path of NewPAT skips the adaptation field only when its length is > 0: packets with AFC 11 and af_len 0 are mis-decoded", OK),
 "C07-seed8": ("IsPMT scans the raw entries: true for a packet on the network PID (program_number 0)", OK),
 "C08-seed7": ("sections with alignment_stuffing bytes before CRC_32 are rejected, including the library's own SetAlignmentStuffing output", MISSED + "0..8 alignment_stuffing bytes in decoder inputs (C08, C09 decoded path)"),
 "C08-seed8": ("component list of a splice_insert pre-checked as count x 6 bytes: component-mode inserts with >= 3 time-less components and a short tail are rejected", OK),
 "C09-seed7": ("SetDescriptors stores a copy of a descriptor that already belongs to another signal: later setters through the caller's handle are not reflected", MISSED + "setter kind 42: adopt a descriptor of another signal (decoded or API-built) and edit it through the caller's handle"),
 "C10-seed7": ("ProcessDescriptor honours the cancel indicator: a cancelled descriptor pulls the open descriptor with the same event id out of the stack and is never recorded as received", MISSED + "API-built descriptors with the cancel indicator set (1 in 8)"),
 "C11-seed7": ("AlignedPUSI drops the leading zero of a 00 00 00 01 start code on aligned video streams", OK),
 "C12-seed7": ("fraction overflow carries into the seconds: the last nanosecond of the range wraps to 1968", OK),
 "C12-seed8": ("the era boundary is compared in t.Location(): eastern-zone instants in the last hours before 2036-02-07T06:28:16Z land in the wrong era", OK),
 "C13-seed7": ("ComputeCRC results are 4-byte windows of a shared 1 KiB block: appending to an earlier result overwrites the next one", MISSED + "session phase Extend: once all steps are done the caller appends to every slice it was handed, oldest first, and all retained results are re-checked"),
 "C13-seed8": ("ComputeCRC(nil) returns nil instead of FFFFFFFF", OK),
 "C14-seed7": ("a requested PID equal to the CA_PID of a CA descriptor is ignored like the PAT/PMT PIDs in the missing-PID check", OK),
 "C15-seed7": ("DurationFrom returns 0 for a distance of exactly 90000 ticks (neither < nor > the clock rate)", MISSED + "distances that are round durations of the 90 kHz clock (1 ms .. 1 h, +-1 tick), drawn and enumerated"),
 "C15-seed8": ("RolledOver additionally requires the wrap distance to be at most 30 minutes", OK),
 "C16-seed7": ("Sync skips four bytes after a reserved-PID false header: a real header starting at its fourth byte is missed", OK),
 "C17-seed7": ("Reset points the packet list at a package-level slice: two accumulators that were Reset share spare capacity and see each other's packets", MISSED + "a second accumulator fed other packets between the steps, Reset at the same moments, checked after every step"),
 "C18-seed7": ("ReadFrom compares reader errors with errors.Is: an error that wraps io.EOF / io.ErrUnexpectedEOF is swallowed or replaced", MISSED + "reader error kinds that wrap io.EOF and io.ErrUnexpectedEOF"),
 "C19-seed7": ("the DiffPTS rules also compare the raw splice_time: equal signal PTS reached through different pts_time/pts_adjustment splits counts as different", MISSED + "the signal time of each descriptor is split into pts_time + pts_adjustment in drawn ways"),
 "C19-seed8": ("CanClose is false when either descriptor has the cancel indicator set (API-built descriptors keep their type)", MISSED + "cancel indicator set on API-built descriptors (1 in 6)"),
 "C20-seed7": ("NewPmtElementaryStream marks stream_type 0x06 as lagging when its descriptor loop carries tag 0x6A or 0x7A", OK),
}
for name, (needs, hist) in D.items():
    p = os.path.join(V, "seeded", name, "meta.json")
    m = json.load(open(p))
    m["breaks_property"] = m["property"]
    m["author"] = AUTHOR
    m["needs_to_manifest"], m["history"] = needs, hist
    json.dump(m, open(p, "w"), indent=1)
    print(name, m["check_results"].get("quick", {}).get("verdict"))
