#!/usr/bin/env python3
"""Prints the markdown table of /verif/seeded/* for DESIGN.md section 10."""
import json, os
V = os.path.dirname(os.path.dirname(os.path.abspath(__file__)))
print("| seed | property | what it needs in order to manifest | upstream suite passes | caught by | first violation reported (key) |")
print("|---|---|---|---|---|---|")
for d in sorted(os.listdir(os.path.join(V, "seeded"))):
    m = json.load(open(os.path.join(V, "seeded", d, "meta.json")))
    res = m.get("check_results", {})
    caught = [t for t in ("quick", "thorough") if res.get(t, {}).get("verdict") == "caught"]
    det = ""
    for t in caught[:1]:
        det = res[t]["detail"].replace("violation detail: ", "").split(" ")[0]
    hist = " (**after strengthening**: " + m["history"] + ")" if m.get("history") else ""
    print("| %s | %s | %s%s | %s | %s | `%s` |" % (d, m["property"], m.get("needs_to_manifest", "").replace("|", "/"), hist.replace("|", "/"),
          "yes" if m.get("upstream_suite_passes_with_patch") else "no", (caught[0] + " tier") if caught else "**not caught**", det))
