#!/usr/bin/env python3
"""Fills the hand-written fields of the wave-11 seed metas (see wave3_meta.py)."""
import json, os
V = os.path.dirname(os.path.dirname(os.path.abspath(__file__)))
AUTHOR = ("independent sub-agent (wave 11: five agents, two properties each, about five minutes each, the ten properties with a miss in waves 9-10; property text, private clone of /repo at 0811837, a "
          "description of the harness including everything added through wave 10, the list of behaviours ruled statement-conforming, and a list of ideas delivered more than once before)")
MISSED = "missed by the checks as they stood when it was delivered; caught after the strengthening named here: "
OK = "caught as delivered"
D = {
 "C03-seed21": ("ownBytes copies the setter argument only when it lies wholly inside the packet: an argument that starts inside the packet and ends behind it (packet and argument are views of one buffer) is overwritten by the resize before it is stored", MISSED + "the packet under test is the head of a larger caller buffer; steps tpdStraddle / extStraddle hand over a slice from inside the field's current value to 1..40 bytes behind the packet (the bytes behind the packet must stay untouched)"),
 "C06-seed21": ("parsePMTSection appends the header's PCR_PID to Pids()", OK),
 "C08-seed21": ("NewSCTE35 first tries the input as a section without pointer_field when byte 0 is 0xFC and 3 + the next 12 bits equal the input length", MISSED + "filler kind 4: behind a pointer_field of 0xFC the skipped bytes are shaped like a section whose section_length announces exactly the rest of the input"),
 "C09-seed21": ("SetUPIDType on a MID descriptor keeps the MID entries and Data() writes them as the UPID while the UPID is empty", OK),
 "C10-seed21": ("the close loop also closes an open descriptor when one of the same type and event id is already in this call's closed list, skipping the rule that compares signal times", MISSED + "late-sibling histories over the types whose rule compares signal times (0x30/0x3C/0x44 open on two or three signal times, event ids from a set of two, then a late 0x34/0x36/0x44)"),
 "C13-seed21": ("the filter copies the input section's CRC_32 when the filtered section is byte-identical to the input (same idea as C13-seed6/10/14)", OK),
 "C14-seed21": ("a requested PID equal to the PMT's PCR_PID is ignored like the PAT and PMT PIDs", OK),
 "C16-seed21": ("a false sync with a reserved PID makes Sync skip all four header bytes (same idea as C16-seed19)", OK),
 "C18-seed21": ("ReadFrom makes at most 188 Read calls per packet and then gives up with io.ErrNoProgress: a one-byte reader with one empty read inside a packet loses it", OK),
}
for name, (needs, hist) in D.items():
    p = os.path.join(V, "seeded", name, "meta.json")
    m = json.load(open(p))
    m["breaks_property"] = m["property"]
    m["author"] = AUTHOR
    m["needs_to_manifest"], m["history"] = needs, hist
    json.dump(m, open(p, "w"), indent=1)
    print(name, {k: v.get("verdict") for k, v in m["check_results"].items()})

