#!/usr/bin/env python3
"""Fills the hand-written fields of the wave-8 seed metas (see wave3_meta.py)."""
import json, os
V = os.path.dirname(os.path.dirname(os.path.abspath(__file__)))
AUTHOR = ("independent sub-agent (wave 8: ten agents, two properties each; property text, private clone of /repo at 0811837, a description of the "
          "harness including everything added through wave 7, and the list of behaviours the soundness passes ruled statement-conforming)")
MISSED = "missed by the checks as they stood when it was delivered; caught after the strengthening named here: "
OK = "caught as delivered"
D = {
 "C01-seed15": ("Equal compares 64-bit words in four interleaved lanes and folds the differences with xor: differences that cancel within a 32-byte residue class go unnoticed", OK),
 "C02-seed15": ("SetPayload takes its private copy through a helper that returns slices longer than 188 bytes uncopied: a 189..200-byte window of a larger buffer that also holds the packet is read after the adaptation field was rewritten", OK),
 "C03-seed15": ("adaptationfield.EncoderBoundaryPoint walks the private data as a field list and returns only the bytes from the EBP field onwards (same idea as C03-seed13)", OK),
 "C04-seed15": ("AdaptationField.OPCR() demands room for a PCR in front of the OPCR: with OPCR_flag only and adaptation_field_length 7..12 the getter fails after a successful SetOPCR", MISSED + "every clock / splice / private-data combination also in a field the requested fields fill exactly, or with one byte to spare"),
 "C04-seed16": ("NewPESHeader looks for the optional header only within pesBytes[:PES_packet_length]: short complete PES packets lose DTS / PTS", OK),
 "C05-seed15": ("the PMT section list is walked by recursion, one stack frame per section: stack use is 20-40 times the input size, a 24 MiB zero-filled buffer dies of a stack overflow", MISSED + "64 KiB..1 MiB of three-byte sections behind one pointer_field; the decode budget also bounds the growth of the goroutine stacks (4 MiB + 8 bytes per input byte)"),
 "C05-seed16": ("IsDolbyATMOS loops with a uint8 index up to len(data): never returns for EC-3 descriptors of 256 bytes or more without a 0x01 byte", OK),
 "C06-seed15": ("ReadPMT skips a packet that 'duplicates' the previous one (equal payload, no adaptation field) without comparing the continuity counter", OK),
 "C07-seed16": ("NewPAT's 188-byte path checks 'whole section in the packet' with >= instead of >: a section that ends exactly at byte 188 is refused", OK),
 "C08-seed15": ("a cancelled descriptor removes earlier descriptors with the same event id from Descriptors()", OK),
 "C08-seed16": ("encryption_algorithm != 0 is treated as encrypted although encrypted_packet is 0", OK),
 "C09-seed15": ("UpdateData assembles the descriptor loop in a package-level scratch buffer: goroutines encoding their own signals get each other's descriptors", MISSED + "variant 'concurrent': 8 goroutines each build and encode 400 signals of their own"),
 "C09-seed16": ("SetDescriptors(nil / empty) also drops the foreign descriptors (same idea as C09-seed13)", OK),
 "C10-seed15": ("the 'still open means duplicate' scan skips the hidden breakaway slot (same idea as C10-seed11)", OK),
 "C11-seed15": ("Data() is cut at 6+PES_packet_length when another PES packet of the same stream follows in the buffer", MISSED + "two PES packets of one stream in one buffer, PES_packet_length ending exactly where the second starts"),
 "C12-seed15": ("StreamSyncSignal prefers 0x1C over an earlier 0x1D", OK),
 "C13-seed15": ("the re-packetisation loop takes the per-packet room from the first packet's header only (same idea as C13-seed11)", OK),
 "C13-seed16": ("'sap_type support': the two bits behind private_indicator are remembered on decode and written back after the CRC was computed", MISSED + "decoded inputs with any value in those two bits (and a CRC_32 that is right for them)"),
 "C14-seed15": ("the filter drops the program-level CUEI registration descriptor when no SCTE-35 stream is kept", OK),
 "C14-seed16": ("a requested stand-alone PCR PID is ignored like the PAT/PMT PIDs (same idea as C14-seed12)", OK),
 "C15-seed15": ("PTS.Add has a 32-bit fast path whose carry test is off by one: p + d == 2^32 - 1 gives 2^33 - 1", MISSED + "sums that land on or next to a power of two (2^28 .. 2^33)"),
 "C16-seed15": ("after a false sync byte Sync pre-rejects an adjacent candidate on a reserved PID with a 4-bit mask: PIDs 0x1004-0x100F directly behind a 0x47 are skipped", OK),
 "C17-seed15": ("a PSI-aware shortcut: a unit start whose pointer_field equals what the open section still lacks completes the old unit instead of restarting", MISSED + "histories that are a packed PSI stream (a section over several packets whose tail sits in front of the next section in a packet that is itself a unit start), threshold at the size of the complete section"),
 "C18-seed15": ("ReadFrom retries reads that fail with a Temporary, non-Timeout error (EINTR) up to eight times and then returns nil", MISSED + "reader error kind 'temporary but not a timeout'"),
 "C18-seed16": ("ReadFrom hands the reader to the wrapped packet writer when that writer has Write and ReadFrom methods of its own", MISSED + "packet writer types with their own Write and ReadFrom (constructors 6 and 7)"),
 "C19-seed15": ("CanClose is false for same-type siblings with different event ids when both belong to the same signal object", MISSED + "in one case in four the first two descriptors are siblings in one API-built signal"),
 "C19-seed16": ("CanClose is false when the argument is the receiver itself", OK),
 "C20-seed15": ("the by-PID lag query answers from a slice parallel to pids that RemoveElementaryStreams does not rebuild", OK),
 "C20-seed16": ("DecodeDolbyVisionCodec returns dvh1.PP.LL when originalCodec starts with 'hvc1.'", MISSED + "full HEVC codec strings ('hvc1.2.4.L120.90') among the originalCodec arguments"),
}
for name, (needs, hist) in D.items():
    p = os.path.join(V, "seeded", name, "meta.json")
    m = json.load(open(p))
    m["breaks_property"] = m["property"]
    m["author"] = AUTHOR
    m["needs_to_manifest"], m["history"] = needs, hist
    json.dump(m, open(p, "w"), indent=1)
    print(name, {k: v.get("verdict") for k, v in m["check_results"].items()})
