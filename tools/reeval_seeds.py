#!/usr/bin/env python3
"""Re-runs the property's check against every kept seed whose last verdict is not 'caught' (or all with --all)."""
import json, os, subprocess, sys
V = os.path.dirname(os.path.dirname(os.path.abspath(__file__)))
all_ = "--all" in sys.argv
only = [a for a in sys.argv[1:] if not a.startswith("--")]
for d in sorted(os.listdir(os.path.join(V, "seeded"))):
    if only and not any(d.startswith(o) for o in only):
        continue
    m = json.load(open(os.path.join(V, "seeded", d, "meta.json")))
    res = m.get("check_results", {})
    if not all_ and any(r.get("verdict") == "caught" for r in res.values()):
        continue
    demo = [f for f in os.listdir(os.path.join(V, "seeded", d)) if f.startswith("demo") and f.endswith(".go")][0]
    p = subprocess.run([os.path.join(V, "tools", "seed_eval.py"), m["property"], os.path.join(V, "seeded", d), "--patch", "patch.diff", "--demo", demo, "--name", d, "--tiers", "quick"],
                       stdout=subprocess.PIPE, stderr=subprocess.STDOUT, text=True)
    print(p.stdout.strip().splitlines()[-1][:260] if p.stdout.strip() else "?")
