#!/bin/bash
# usage: fixstep.sh <Cnn> <regress-name> <commit message file> <known-findings text>
# copies the current replay to the regress dir, commits the already-edited /repo, records the fixed: line, re-runs the rapid test
set -e
P=$1; NAME=$2; MSGFILE=$3; TEXT=$4
mkdir -p /verif/harness/props/testdata/regress/$P
cp /tmp/vo/replay-$P-0.json /verif/harness/props/testdata/regress/$P/$NAME.json
cd /repo
GOFLAGS= go test -vet=off -count=1 ./... 2>&1 | grep -v '^ok\|no test files' || true
git add -A && git commit -q -F $MSGFILE
H=$(git log --format=%h -1)
echo "fixed: property=$P $H $TEXT [regress $P/$NAME.json]" >> /verif/KNOWN_FINDINGS.txt
echo "committed $H"
