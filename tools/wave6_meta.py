#!/usr/bin/env python3
"""Fills the hand-written fields of the wave-6 seed metas (see wave3_meta.py)."""
import json, os
V = os.path.dirname(os.path.dirname(os.path.abspath(__file__)))
AUTHOR = ("independent sub-agent (wave 6: ten agents, property pairs (C0k, C1k); property text, private clone of /repo at 0811837, "
          "and a description of the harness including everything added after waves 3-5 and the two audit rounds)")
MISSED = "missed by the checks as they stood when it was delivered; caught after the strengthening named here: "
OK = "caught as delivered"
D = {
 "C01-seed11": ("Equal treats two packets that differ only in a re-stamped PCR (ISO 'duplicate packets') as equal", OK),
 "C01-seed12": ("function-style IsNull is also true for an adaptation-field-only packet that is pure stuffing, on any PID", MISSED + "stuffing-only packets (af_len 183, no flags) on drawn PIDs, also as an enumeration fill"),
 "C02-seed11": ("SetPayload copies its argument aside only when an alias test on the slice's capacity end says it shares the packet's array: a clipped own window p[a:b:c] is not recognised", MISSED + "own windows with the capacity clipped to the window"),
 "C02-seed12": ("the private copy is made only in the branch that rewrites stuffing: an own window that includes the adaptation_field_length byte is read after that byte was rewritten", MISSED + "windows of the packet's own 188 bytes, header and adaptation field included"),
 "C03-seed11": ("ownBytes copies the setter argument only when an alias test on the capacity end says it shares the packet's array", MISSED + "own windows of private data / extension with clipped capacity"),
 "C04-seed11": ("NewPESHeader cuts the slice at a PES packet end computed in 16 bits: PES_packet_length 65530..65535 loses PTS/DTS", OK),
 "C05-seed11": ("String() of an SCTE-35 elementary stream reads cue_stream_type without a length check; fmt swallows the panic", MISSED + "cue_identifier descriptors (also empty ones) on 0x86 streams; printed text is inspected for fmt's (PANIC= marker"),
 "C05-seed12": ("FilterPMTPacketsToPids compacts the caller's PID list in place", MISSED + "the PID list handed to the filter is compared afterwards (C05: caller-supplied memory)"),
 "C06-seed11": ("ReadPMT drops the collected sections at a continuation packet that announces a continuity_counter jump with the discontinuity_indicator", MISSED + "continuity_counter jumps announced by the discontinuity_indicator at continuation packets"),
 "C08-seed11": ("NewSCTE35 also accepts a bare section without pointer_field when the payload looks like one: pointer_field 252 over bytes shaped like a section header hides the real section", MISSED + "pointer_field values that are table ids, over 0xFF / patterned / section-tail / section-head-shaped skipped bytes"),
 "C09-seed11": ("the tier is stored after splice_command_length into the byte they share: commands longer than 255 bytes get a wrong length", MISSED + "component-mode splice_inserts with 41..255 components"),
 "C09-seed12": ("SetIsProgramSplice(true) drops the component list", OK),
 "C10-seed11": ("the 'still open means duplicate' scan skips the pending breakaway that Open() hides", MISSED + "a pending breakaway is among the open objects that are submitted again"),
 "C11-seed11": ("'support' for the TREF field: a PTS-only header whose extension carries TREF reports HasDTS with DTS = TREF", MISSED + "PES_extension_flag_2 with a TREF field in the reference PES builder"),
 "C11-seed12": ("AlignedPUSI accepts unaligned video PES whose data starts with an AVC / HEVC access unit delimiter", MISSED + "PES data starting with start code + access unit delimiter / sequence header"),
 "C12-seed11": ("extractUtcTime relabels the process-local calendar fields as UTC: every time is off by the local offset when time.Local is not UTC", MISSED + "the harness sets time.Local to a fixed non-UTC zone for the whole test binary"),
 "C12-seed12": ("the era boundary is compared in the value's location", OK),
 "C13-seed11": ("the re-packetisation loop takes the per-packet room from the first packet's header only", OK),
 "C14-seed11": ("a requested PID named as CA_PID by a CA descriptor is ignored like the PAT/PMT PIDs", OK),
 "C14-seed12": ("the PCR_PID is ignored like the PAT/PMT PIDs", OK),
 "C15-seed11": ("DurationFrom subtracts in the platform's uint: bit 32 is lost on 32-bit builds", MISSED + "thorough tier only: the same checks on a GOARCH=386 build of the harness (quick tier: not caught, amd64 is unaffected)"),
 "C16-seed11": ("Sync scans 188-byte Peek windows and discards the rest of a window after a false sync byte in its last three bytes", OK),
 "C16-seed12": ("Sync skips four bytes after a reserved-PID false header", OK),
 "C17-seed11": ("the predicate is skipped for packets that add no bytes, with a flag that goes stale after a predicate error", OK),
 "C18-seed11": ("ReadFrom fails fast on a regular file whose remaining size is not a multiple of 188, without delivering the complete packets", MISSED + "reader kind 'regular file' (a scratch file)"),
 "C19-seed11": ("a new rule lets segment n+1 of N close segment n of the same event for 0x34/0x36", OK),
 "C20-seed11": ("DecodeDolbyVisionCodec returns dvav for profile 9 when originalCodec starts with avc3", OK),
 "C20-seed12": ("IsDolbyVision also accepts the lower-case identifier 'dovi'", MISSED + "format identifiers that differ from DOVI / CUEI in case only"),
}
for name, (needs, hist) in D.items():
    p = os.path.join(V, "seeded", name, "meta.json")
    m = json.load(open(p))
    m["breaks_property"] = m["property"]
    m["author"] = AUTHOR
    m["needs_to_manifest"], m["history"] = needs, hist
    json.dump(m, open(p, "w"), indent=1)
    print(name, {k: v.get("verdict") for k, v in m["check_results"].items()})
