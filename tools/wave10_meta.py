#!/usr/bin/env python3
"""Fills the hand-written fields of the wave-10 seed metas (see wave3_meta.py)."""
import json, os
V = os.path.dirname(os.path.dirname(os.path.abspath(__file__)))
AUTHOR = ("independent sub-agent (wave 10: ten agents, two properties each, about eight minutes each; property text, private clone of /repo at 0811837, a "
          "description of the harness including everything added through wave 9, the list of behaviours ruled statement-conforming, and a list of ideas delivered more than once before)")
MISSED = "missed by the checks as they stood when it was delivered; caught after the strengthening named here: "
OK = "caught as delivered"
D = {
 "C01-seed19": ("SetTransportScramblingControl, on a scrambled -> clear transition, also clears the PES_scrambling_control bits of a PES header that starts in the packet (a payload byte)", OK),
 "C02-seed19": ("SetPayload reclaims trailing 0xFF bytes of the adaptation-field extension when the payload does not fit: count above the capacity, extension altered", OK),
 "C03-seed19": ("adaptationfield.EncoderBoundaryPoint returns only the leading CableLabs EBP unit when further tag/length units follow it in the private data", MISSED + "private data shaped as a unit chain with the EBP unit anywhere in it (it used to come last)"),
 "C04-seed19": ("NewPESHeader's 'DTS lies inside the header data' check adds in 8 bits: PES_header_data_length 247..255 loses the DTS", OK),
 "C05-seed19": ("segmentationDescriptor.Data() writes into a 257-byte reserve by reslicing: a decoded 0x34/0x36 descriptor of length 255 whose re-encoding grows by the sub-segment byte panics in String()/UpdateData()", OK),
 "C06-seed19": ("parseTables caps section_length at 1021 for every table id below 0x40: a long ISO 14496 / metadata / IPMP section (ids 0x04..0x07, up to 4093) in front of the PMT makes the payload fail", MISSED + "front sections with table ids 0x04..0x07 and lengths up to 4093"),
 "C08-seed19": ("all descriptors of a signal allocated in one slab counted in a uint8: from the 256th segmentation descriptor on SCTE35() is nil", MISSED + "sections with 130..340 small descriptors (cancelled ones take 11 bytes)"),
 "C09-seed19": ("SetDescriptors drops a handle that appears a second time in the list", MISSED + "history step: SetDescriptors with one of the current handles repeated at the end"),
 "C10-seed19": ("a signal time that receives another descriptor is moved to the head of the duplicate ring; when it was the oldest entry the move erases it and an immediate repeat is not a duplicate", MISSED + "late siblings: a descriptor on the signal time that was current 1..13 distinct signal times ago, then the same again"),
 "C11-seed19": ("PES_packet_length == 3 + PES_header_data_length with 00 00 01 behind the header is taken for the next PES packet: Data() empty", OK),
 "C12-seed19": ("the field end of both EBP readers is computed as DataFieldLength + 2 in 8 bits: lengths 254 / 255 drop the reserved bytes (same idea as C12-seed1)", OK),
 "C13-seed19": ("UpdateData stops announcing the alignment stuffing when section_length would be exactly 4093 but still emits it: the bytes section_length delimits fail the CRC condition", MISSED + "the emitted section is also checked as section_length delimits it; alignment stuffing that fills the section to 4089..4093"),
 "C14-seed19": ("the filter rewrites PCR_PID to 0x1FFF when the PCR PID is an elementary stream that was filtered out", OK),
 "C15-seed19": ("RolledOver's two window tests folded into one OR-and-compare that is only right for a power-of-two threshold", OK),
 "C16-seed19": ("after a candidate with a reserved PID is rejected Sync consumes four bytes instead of one: a true header three bytes further is skipped", OK),
 "C18-seed19": ("ReadFrom refuses an *io.LimitedReader whose limit is not a multiple of 188 before delivering anything", MISSED + "the standard library's other readers: LimitedReader with the limit behind / at the end of the contents, bytes.Buffer, strings.Reader, SectionReader, MultiReader"),
 "C19-seed19": ("the 'different PTS' rule also compares PTS plus the first component's pts_offset for component-mode descriptors", OK),
 "C20-seed19": ("DecodeDolbyVisionCodec answers dvav.09.LL for profile 9 when the original codec argument is an AVC string", OK),
}
for name, (needs, hist) in D.items():
    p = os.path.join(V, "seeded", name, "meta.json")
    m = json.load(open(p))
    m["breaks_property"] = m["property"]
    m["author"] = AUTHOR
    m["needs_to_manifest"], m["history"] = needs, hist
    json.dump(m, open(p, "w"), indent=1)
    print(name, {k: v.get("verdict") for k, v in m["check_results"].items()})
