#!/usr/bin/env python3
"""Confirm an independently written breaking change and run the property's check against it.

  tools/seed_eval.py <Cnn> <deliverables dir> [--patch patch.diff] [--demo demo_test.go] [--name label] [--tiers quick,thorough]

Steps (all in scratch copies under /tmp, removed afterwards):
  1. clean copy:   demo passes
  2. patched copy: builds, unedited upstream suite passes, demo FAILS
  3. VERIF_REPO=<patched copy> ./check Cnn --tier quick  (then thorough if quick misses it)
  4. on success of 1-2 the change is kept as /verif/seeded/<label>/ {patch.diff, demo, meta.json}
"""
import json
import os
import re
import shutil
import subprocess
import sys
import tempfile
import time

VERIF = os.path.dirname(os.path.dirname(os.path.abspath(__file__)))
PKGDIR = {"gots": ".", "packet": "packet", "adaptationfield": "packet/adaptationfield", "psi": "psi", "pes": "pes", "ebp": "ebp", "scte35": "scte35"}
ENV = dict(os.environ, GOFLAGS="", GOPROXY="off", GOSUMDB="off", GOTOOLCHAIN="local")


def run(cmd, cwd, env=ENV, timeout=600):
    p = subprocess.run(cmd, cwd=cwd, env=env, stdout=subprocess.PIPE, stderr=subprocess.STDOUT, text=True, timeout=timeout)
    return p.returncode, p.stdout


def place_demo(repo, demo):
    src = open(demo).read()
    if demo.endswith("main.go"):
        d = os.path.join(repo, "seeddemo")
        os.makedirs(d, exist_ok=True)
        shutil.copy(demo, os.path.join(d, "main.go"))
        return ["go", "run", "./seeddemo"], "program"
    m = re.search(r"^package\s+(\w+)", src, re.M)
    pkg = m.group(1)
    base = pkg[:-5] if pkg.endswith("_test") else pkg
    d = PKGDIR.get(base)
    if d is None:
        raise SystemExit("cannot place demo of package " + pkg)
    shutil.copy(demo, os.path.join(repo, d, "zz_seed_demo_test.go"))
    tests = re.findall(r"^func (Test\w+)\(", src, re.M)
    return ["go", "test", "-vet=off", "-count=1", "-run", "^(" + "|".join(tests) + ")$", "./" + d], "test"


def main():
    a = sys.argv[1:]
    pid, out = a[0], a[1]
    patch, demo, name, tiers = "patch.diff", None, None, "quick,thorough"
    i = 2
    while i < len(a):
        if a[i] == "--patch":
            patch = a[i + 1]
        elif a[i] == "--demo":
            demo = a[i + 1]
        elif a[i] == "--name":
            name = a[i + 1]
        elif a[i] == "--tiers":
            tiers = a[i + 1]
        i += 2
    patch = os.path.join(out, patch)
    if demo is None:
        for c in ("demo_test.go", "demo/main.go"):
            if os.path.exists(os.path.join(out, c)):
                demo = c
    demo = os.path.join(out, demo)
    name = name or (pid + "-" + os.path.splitext(os.path.basename(patch))[0])
    scratch = tempfile.mkdtemp(prefix="seed-eval-", dir="/tmp")
    meta = {"property": pid, "name": name, "patch": os.path.basename(patch), "demo": os.path.basename(demo), "ran": []}
    try:
        clean, patched = os.path.join(scratch, "clean"), os.path.join(scratch, "patched")
        for d in (clean, patched):
            shutil.copytree("/repo", d, ignore=shutil.ignore_patterns(".git"))
        rc, o = run(["patch", "-p1", "--no-backup-if-mismatch", "-i", patch], patched)
        if rc != 0:
            print("PATCH-DOES-NOT-APPLY", o[-800:])
            return 3
        meta["ran"].append("patch -p1 -i patch.diff  (scratch copy of /repo HEAD): applies")
        rc, o = run(["go", "build", "./..."], patched)
        if rc != 0:
            print("DOES-NOT-BUILD", o[-800:])
            return 3
        rc, o = run(["go", "test", "-vet=off", "-count=1", "./..."], patched)
        suite_ok = rc == 0
        meta["upstream_suite_passes_with_patch"] = suite_ok
        meta["ran"].append("go test -vet=off -count=1 ./...  with the patch: %s" % ("pass" if suite_ok else "FAIL"))
        if not suite_ok:
            print("UPSTREAM-SUITE-FAILS-WITH-PATCH", [l for l in o.splitlines() if l.startswith("--- FAIL")][:5])
            return 3
        cmd, kind = place_demo(clean, demo)
        rc_clean, o_clean = run(cmd, clean)
        place_demo(patched, demo)
        rc_pat, o_pat = run(cmd, patched)
        meta["demo_passes_without_patch"] = rc_clean == 0
        meta["demo_fails_with_patch"] = rc_pat != 0
        meta["ran"].append("%s  on clean tree: %s; with the patch: %s" % (" ".join(cmd), "pass" if rc_clean == 0 else "FAIL", "pass" if rc_pat == 0 else "fail"))
        if rc_clean != 0 or rc_pat == 0:
            print("DEMO-NOT-CONFIRMED clean_rc=%d patched_rc=%d" % (rc_clean, rc_pat))
            print(o_clean[-600:])
            print(o_pat[-600:])
            return 3
        # remove the demo again so that the check builds the plain patched library
        for root, _, files in os.walk(patched):
            for f in files:
                if f == "zz_seed_demo_test.go":
                    os.remove(os.path.join(root, f))
        shutil.rmtree(os.path.join(patched, "seeddemo"), ignore_errors=True)
        verdicts = {}
        for tier in tiers.split(","):
            t0 = time.time()
            p = subprocess.run([os.path.join(VERIF, "check"), pid, "--tier", tier], cwd=VERIF, env=dict(os.environ, VERIF_REPO=patched),
                               stdout=subprocess.PIPE, stderr=subprocess.STDOUT, text=True)
            v = {0: "missed", 1: "caught", 2: "inconclusive"}.get(p.returncode, "rc%d" % p.returncode)
            det = [l for l in p.stdout.splitlines() if l.startswith("violation detail")]
            verdicts[tier] = {"verdict": v, "wall_s": round(time.time() - t0, 1), "detail": det[0][:400] if det else ""}
            meta["ran"].append("VERIF_REPO=<patched copy> ./check %s --tier %s: %s" % (pid, tier, v))
            print("%s %s tier=%s wall=%.1fs %s" % (v.upper(), name, tier, time.time() - t0, det[0][:300] if det else ""))
            if v == "inconclusive":
                print(p.stdout[-1500:])
            if v == "caught":
                break
        meta["check_results"] = verdicts
        dest = os.path.join(VERIF, "seeded", name)
        os.makedirs(dest, exist_ok=True)
        def cp(src, dst):
            if os.path.abspath(src) != os.path.abspath(dst):
                shutil.copy(src, dst)
        cp(patch, os.path.join(dest, "patch.diff"))
        cp(demo, os.path.join(dest, os.path.basename(demo) if not demo.endswith("main.go") else "demo_main.go"))
        readme = os.path.join(out, "README.md")
        if os.path.exists(readme):
            cp(readme, os.path.join(dest, "AUTHOR_README.md"))
        mpath = os.path.join(dest, "meta.json")
        old = json.load(open(mpath)) if os.path.exists(mpath) else {}
        # tiers that were not run this time keep their recorded verdict (a quick-only re-run must not forget "thorough: caught")
        kept = {t: v for t, v in old.get("check_results", {}).items() if t not in meta["check_results"]}
        meta["check_results"] = dict(meta["check_results"], **kept)
        old.update(meta)
        json.dump(old, open(mpath, "w"), indent=1)
        return 0
    finally:
        shutil.rmtree(scratch, ignore_errors=True)


if __name__ == "__main__":
    sys.exit(main())
