#!/usr/bin/env python3
"""Fills the hand-written fields of the wave-3 seed metas (what each change needs in order to manifest,
and how the checks fared when it was delivered). Run after tools/reeval_seeds.py, which rewrites check_results."""
import json, os
V = os.path.dirname(os.path.dirname(os.path.abspath(__file__)))
AUTHOR = ("independent sub-agent (wave 3: given the property text, a private clone of /repo and a description of the "
          "kind of harness to evade - reference models, interference sessions, spare-capacity canaries - and asked for changes that still slip through)")
MISSED = "missed by the checks as they stood when it was delivered; caught after the strengthening named here: "
D = {
 "C01-seed5": ("TransportScramblingControl() reports the PES_scrambling_control bits when the transport bits are 00 and the payload starts with a well-formed PES header carrying a PTS (about 38 bits of exact payload content)",
               MISSED + "packet payloads that start like a PES packet / PSI section / transport packet (genPayloadBytes)"),
 "C01-seed6": ("FromBytes accepts a 192-byte slice whose bytes 4.. are a valid packet (BDAV framing) and returns the embedded packet",
               MISSED + "FromBytes lengths of other packet framings (192/196/204/208/376) with the packet at offset 0/1/4/8/16 of the slice, enumerated for lengths 0..400 x offset {0,4} x 4 fills"),
 "C02-seed5": ("Create appends its own option to the caller's option slice: a later Create with the full slice lacks the option that sat in the spare capacity",
               MISSED + "Create called with a window of a caller-owned option slice and then with all of it"),
 "C02-seed6": ("the SetPayload method sets PUSI when the stored bytes begin with a well-formed PES header with PTS",
               MISSED + "PES-shaped payload data (genPayloadBytes)"),
 "C03-seed5": ("adaptationfield.EncoderBoundaryPoint returns only the EBP tag/length field when the private data parses as a tag/length chain containing one", "caught as delivered"),
 "C04-seed5": ("gots.ExtractTime takes a 64-bit-load path for slices of 8 bytes or more that borrows into the value bits when a marker bit is 0",
               MISSED + "decoders handed slices longer than the 5-byte field (6..16 bytes) with prefix/marker bits flipped"),
 "C04-seed6": ("NewPESHeader decodes the DTS only when its 4-bit prefix code is 0001 or repeats the PTS code",
               MISSED + "prefix code and marker bits of the PTS and DTS fields of the PES header flipped (they are not value bits)"),
 "C05-seed5": ("parseTable keeps foreign descriptors as a view extended in place; foreign, segmentation, foreign, foreign in that order re-slices an exact-capacity copy and panics", "caught as delivered"),
 "C06-seed5": ("parseTables decodes only the first table_id 0x02 section: a PMT section before the subject section (another program on the same PID) wins",
               MISSED + "'other complete sections before it' may themselves be program map sections"),
 "C07-seed5": ("ReadPAT merges entries of later PID-0 sections when the first PAT has last_section_number > 0",
               MISSED + "section_number / last_section_number drawn freely and a second, different PID-0 packet later in the stream"),
 "C07-seed6": ("ReadPAT keeps a PAT with current_next_indicator 0 only as a fallback and returns a later one with the bit set",
               MISSED + "a second, different PID-0 packet later in the stream"),
 "C08-seed5": ("parseTable drops a segmentation descriptor that is Equal() (type, event id, segment numbers) to one already decoded in the same section although it differs in UPID / duration / flags",
               MISSED + "sibling descriptors (copy of an earlier one differing in at most one other field)"),
 "C09-seed5": ("Data() appends the trailing fields onto the slice given to SetUPID, i.e. into the caller's memory behind it",
               MISSED + "the slices given to SetUPID are adjacent windows of one caller buffer, which must stay intact"),
 "C09-seed6": ("SetComponents / SetMID reuse the old storage in place: the descriptor's own list handed back reordered is garbled",
               MISSED + "setter kinds 40/41 (own Components()/MID() handed back reversed / rotated / with the first repeated)"),
 "C10-seed5": ("StreamSwitchSignalId slices instead of TrimPrefix: a 0x40 descriptor whose ADI entry is the bare keyword BLACKOUT makes ProcessDescriptor panic",
               MISSED + "0x40 (and other) descriptors carrying stream-switch-shaped MID lists in five shapes; the same generator exposed genuine defect d-t2 (fixed in 0655af4)"),
 "C10-seed6": ("the close loop also closes the next sub-segment of the same type and event id, bypassing the rule table",
               MISSED + "sub-segment fields on 0x34/0x36 descriptors"),
 "C11-seed5": ("packet.PESHeader refuses null-PID packets, so AlignedPUSI is false on PID 0x1FFF", "caught as delivered"),
 "C12-seed5": ("insertUtcTime builds the era starts in the location of the time handed in: off by the zone offset for non-UTC time.Time values",
               MISSED + "instants handed over in fixed zones with offsets up to +-18 h"),
 "C12-seed6": ("fraction overflow carries into the seconds: the last nanosecond of the range wraps to 1968", "caught as delivered"),
 "C13-seed5": ("word-at-a-time ComputeCRC loads the 1-3 byte tail as a whole word from the caller's spare capacity", "caught as delivered (spare-capacity canary + session)"),
 "C13-seed6": ("FilterPMTPacketsToPids re-emits the input's CRC_32 when nothing was dropped: an input with a stale CRC yields an emitted section with non-zero residue",
               MISSED + "emitted-PMT check feeds inputs whose own CRC_32 is stale (one case in three)"),
 "C14-seed5": ("pidIn keyed by uint16(pid): a requested value congruent mod 65536 to an unrequested stream PID selects that stream",
               MISSED + "requested values outside the 13-bit range that alias a stream PID under truncation to 13/16/31/32 bits"),
 "C14-seed6": ("the PCR PID is ignored like the PAT/PMT PIDs in the missing-PID check", "caught as delivered"),
 "C15-seed5": ("After decides by forward distance outside the rollover windows: both orders are true when q - p is exactly 2^32",
               MISSED + "pairs at power-of-two distances (+-1) in both directions, drawn and enumerated"),
 "C16-seed5": ("Sync on a PeekScanner without Buffered/Discard uses a loop that forgets to count false sync bytes",
               MISSED + "a PeekScanner with only the three interface methods (drawn 1 in 3, enumerated)"),
 "C17-seed5": ("a packet byte-identical to the previous one is silently dropped by the accumulator",
               MISSED + "op write-same (the previous packet again)"),
 "C17-seed6": ("done is tested before the predicate's error: a predicate returning (true, err) loses the error",
               MISSED + "predicate kind done-and-err-at"),
 "C18-seed5": ("IOWriter / IOWriteCloser return the argument itself when it already has a Write method, so WritePacket is never invoked",
               MISSED + "packet writers whose type also has its own Write (constructors 4/5)"),
 "C18-seed6": ("a reader error whose Timeout() is true leaves the partial packet pending; the next ReadFrom on the adapter is misaligned",
               MISSED + "reader error kinds (timeout-like, os.ErrDeadlineExceeded, io.ErrNoProgress) before the second ReadFrom"),
 "C19-seed5": ("CanClose type-asserts its argument to the concrete type: other implementations of the interface (decorators) never close",
               MISSED + "decorated descriptors as arguments of CanClose / Equal"),
 "C19-seed6": ("CanClose returns false when receiver and argument are the same object, although the table has an unconditional (T, T) rule for 13 types", "caught as delivered"),
 "C20-seed5": ("the PMT query by PID treats DVB AC-3 in a private stream (stream type 0x06 with an AC-3 descriptor) as audio that lags", "caught as delivered"),
 "C20-seed6": ("DecodeDolbyVisionCodec returns dvav.PP.LL when the originalCodec argument starts with avc",
               MISSED + "eight originalCodec arguments per descriptor"),
}
for name, v in D.items():
    p = os.path.join(V, "seeded", name, "meta.json")
    m = json.load(open(p))
    m["breaks_property"] = m["property"]
    m["author"] = AUTHOR
    if v is None:
        readme = os.path.join(V, "seeded", name, "AUTHOR_README.md")
        m.setdefault("needs_to_manifest", "see AUTHOR_README.md")
        m["history"] = "caught as delivered"
    else:
        m["needs_to_manifest"], m["history"] = v
    json.dump(m, open(p, "w"), indent=1)
    print(name, m["check_results"].get("quick", {}).get("verdict"))
